import H2.Proofs.MsgRefineTrailers
/-!
# C20 — refinement, header blocks in several frames at the frame level

* `fieldLoop_setState`, `feedBlock_setState`, `cutsOK_setState` — the field loop neither reads nor writes the stream state
  (`handleState` changes it between the HEADERS frame and the first CONTINUATION frame)
* `hdrFrames`, `ContBlock`, `hdrFrames_conts`, `hdrFrames_block`, **`hdrFrames_whole`** — iterating `handleHeaderFrame` over the
  `Frame` values of one block IS `feedBlock` on their fragments, hence (by `feedBlock_whole`) the block in one frame
* `hf_hdr`, `conts_R`, **`request_block`** — the same through `handleFrame` / `knownStream` (`runReq`)
* `tail_data`, `tail_trailers`, **`long_request_data_frames`**, **`long_request_trailers_frames`** — the long shapes with the request
  block in HEADERS + CONTINUATION frames
-/
set_option linter.unusedSimpArgs false
namespace H2.Server.Lock
open H2.Server H2.Frame

/-! ## the stream state is not the loop's business -/

theorem fieldUpdate_setState (st : Strm) (f : Hpack.Field) (σ : StState) :
    fieldUpdate { st with state := σ } f = { fieldUpdate st f with state := σ } := by
  simp only [fieldUpdate]
  repeat' split
  all_goals first | rfl | simp_all

theorem fieldVerdict_setState (cfg : Server.Cfg) (st : Strm) (f : Hpack.Field) (σ : StState) :
    fieldVerdict cfg { st with state := σ } f = fieldVerdict cfg st f := rfl

def setState (σ : StState) (x : Srv × Strm × Option SErr) : Srv × Strm × Option SErr := (x.1, { x.2.1 with state := σ }, x.2.2)

theorem fieldLoop_setState (σ : StState) (fuel : Nat) (s : Srv) (st : Strm) (bs eh : Bool) (fp : Nat) (b : Bytes) :
    fieldLoop fuel s { st with state := σ } bs eh fp b = setState σ (fieldLoop fuel s st bs eh fp b) := by
  induction fuel generalizing s st fp b with
  | zero => simp [fieldLoop, setState]
  | succ n ih =>
    cases b with
    | nil => simp [fieldLoop, setState]
    | cons c cs =>
      simp only [fieldLoop]
      cases hd : Hpack.Dec.next s.dec bs fp (c :: cs) with
      | needMore =>
        simp only
        repeat' split
        all_goals rfl
      | err => rfl
      | ok dec fo rest =>
        cases fo with
        | none => rfl
        | some f =>
          simp only [fieldStep]
          have hv : fieldVerdict s.cfg { { st with state := σ } with fieldSeen := true } f =
              fieldVerdict s.cfg { st with fieldSeen := true } f := rfl
          rw [hv]
          have hu : fieldUpdate { { st with state := σ } with fieldSeen := true } f =
              { fieldUpdate { st with fieldSeen := true } f with state := σ } :=
            fieldUpdate_setState { st with fieldSeen := true } f σ
          rw [hu]
          cases fieldVerdict s.cfg { st with fieldSeen := true } f with
          | some e => rfl
          | none => exact ih _ _ _ _

theorem feedBlock_setState (σ : StState) : ∀ (ps : List Bytes) (s : Srv) (st : Strm),
    feedBlock s { st with state := σ } ps = setState σ (feedBlock s st ps) := by
  intro ps
  induction ps with
  | nil => intro s st; rfl
  | cons p ps ih =>
    intro s st
    cases ps with
    | nil =>
      simp only [feedBlock]
      exact fieldLoop_setState σ _ s { st with prevHdr := [] } _ true 0 _
    | cons q qs =>
      have h := fieldLoop_setState σ ((st.prevHdr ++ p).length + 1) s { st with prevHdr := [] } (!st.fieldSeen) false 0 (st.prevHdr ++ p)
      simp only [feedBlock]
      have h' : fieldLoop ((st.prevHdr ++ p).length + 1) s { { st with state := σ } with prevHdr := [] } (!st.fieldSeen) false 0 (st.prevHdr ++ p) =
          setState σ (fieldLoop ((st.prevHdr ++ p).length + 1) s { st with prevHdr := [] } (!st.fieldSeen) false 0 (st.prevHdr ++ p)) := h
      simp only [h']
      generalize fieldLoop ((st.prevHdr ++ p).length + 1) s { st with prevHdr := [] } (!st.fieldSeen) false 0 (st.prevHdr ++ p) = X
      obtain ⟨a, b, c⟩ := X
      cases c with
      | none => simp only [setState]; exact ih _ _
      | some e => rfl

theorem cutsOK_setState (σ : StState) : ∀ (ps : List Bytes) (s : Srv) (st : Strm),
    cutsOK s { st with state := σ } ps ↔ cutsOK s st ps := by
  intro ps
  induction ps with
  | nil => intro s st; rfl
  | cons p ps ih =>
    intro s st
    cases ps with
    | nil => rfl
    | cons q qs =>
      have h' : fieldLoop ((st.prevHdr ++ p).length + 1) s { { st with state := σ } with prevHdr := [] } (!st.fieldSeen) false 0 (st.prevHdr ++ p) =
          setState σ (fieldLoop ((st.prevHdr ++ p).length + 1) s { st with prevHdr := [] } (!st.fieldSeen) false 0 (st.prevHdr ++ p)) :=
        fieldLoop_setState σ _ s { st with prevHdr := [] } _ false 0 _
      simp only [cutsOK, h', setState]
      constructor
      · intro ⟨a, b⟩
        exact ⟨a, fun hn => (ih _ _).mp (b hn)⟩
      · intro ⟨a, b⟩
        exact ⟨a, fun hn => (ih _ _).mpr (b hn)⟩

/-! ## (b) the frames of one block through `handleHeaderFrame` -/

/-- `handleHeaderFrame` frame after frame, up to the first frame it refuses -/
def hdrFrames (s : Srv) (st : Strm) : List Frame → Srv × Strm × Option SErr
  | [] => (s, st, none)
  | fr :: frs =>
    match (handleHeaderFrame s st fr).2.2 with
    | none => hdrFrames (handleHeaderFrame s st fr).1 (handleHeaderFrame s st fr).2.1 frs
    | some _ => handleHeaderFrame s st fr

/-- CONTINUATION frames with the fragments `ps`; END_HEADERS on the last one and only there -/
inductive ContBlock : List Frame → List Bytes → Prop
  | last (fr : Frame) (p : Bytes) : fr.typ = Gen.c_FrameContinuation → fr.body = .continuation true p →
      Frame.hasFlag fr.flags Gen.c_FlagEndHeaders = true → ContBlock [fr] [p]
  | cons (fr f2 : Frame) (frs : List Frame) (p q : Bytes) (ps : List Bytes) : fr.typ = Gen.c_FrameContinuation →
      fr.body = .continuation false p → Frame.hasFlag fr.flags Gen.c_FlagEndHeaders = false →
      ContBlock (f2 :: frs) (q :: ps) → ContBlock (fr :: f2 :: frs) (p :: q :: ps)

theorem triple_eta (x : Srv × Strm × Option SErr) (h : x.2.2 = none) : (x.1, x.2.1, (none : Option SErr)) = x := by
  obtain ⟨a, b, c⟩ := x
  simp only at h
  subst h
  rfl

theorem hdrFrames_conts {cs : List Frame} {ps : List Bytes} (hc : ContBlock cs ps) : ∀ (s : Srv) (st : Strm),
    st.headersFinished = false → hdrFrames s st cs = feedBlock s st ps := by
  induction hc with
  | last fr p _ hb _ =>
    intro s st hfin
    have hh := hhf_cont s st fr true p hb hfin
    simp only [hdrFrames, feedBlock]
    rw [hh]
    cases he : (fieldLoop ((st.prevHdr ++ p).length + 1) s { st with prevHdr := [] } (!st.fieldSeen) true 0 (st.prevHdr ++ p)).2.2 with
    | none => simp only; exact triple_eta _ he
    | some e => rfl
  | cons fr f2 frs p q ps _ hb _ _ ih =>
    intro s st hfin
    have hh := hhf_cont s st fr false p hb hfin
    simp only [hdrFrames, feedBlock]
    rw [hh]
    cases he : (fieldLoop ((st.prevHdr ++ p).length + 1) s { st with prevHdr := [] } (!st.fieldSeen) false 0 (st.prevHdr ++ p)).2.2 with
    | some e => rfl
    | none =>
      simp only
      apply ih
      have := (fieldLoop_ctl ((st.prevHdr ++ p).length + 1) s { st with prevHdr := [] } (!st.fieldSeen) false 0 (st.prevHdr ++ p)).1
      have c := ctl_fields this
      rw [c.2.2.2.2.1]; exact hfin

/-- a request block: HEADERS without END_HEADERS, then CONTINUATION frames -/
theorem hdrFrames_block (s : Srv) (st : Strm) (frH : Frame) (cs : List Frame) (es : Bool) (prio : Option (Nat × Nat)) (p0 : Bytes)
    (ps : List Bytes) (hb : frH.body = .headers es false prio p0) (hfin : st.headersFinished = false)
    (hprio : ∀ dep w, prio = some (dep, w) → (dep == st.id) = false) (hc : ContBlock cs ps) :
    hdrFrames s st (frH :: cs) = feedBlock s { st with fieldSeen := false } (p0 :: ps) := by
  have hh := hhf_headers s st frH es false prio p0 hb hfin hprio
  obtain ⟨f, fs, q, qs, rfl, rfl⟩ : ∃ f fs q qs, cs = f :: fs ∧ ps = q :: qs := by
    cases hc with
    | last fr p _ _ _ => exact ⟨_, _, _, _, rfl, rfl⟩
    | cons fr f2 frs p q ps _ _ _ _ => exact ⟨_, _, _, _, rfl, rfl⟩
  rw [show hdrFrames s st (frH :: f :: fs) =
    match (handleHeaderFrame s st frH).2.2 with
    | none => hdrFrames (handleHeaderFrame s st frH).1 (handleHeaderFrame s st frH).2.1 (f :: fs)
    | some _ => handleHeaderFrame s st frH from rfl]
  rw [show feedBlock s { st with fieldSeen := false } (p0 :: q :: qs) =
    match (fieldLoop ((st.prevHdr ++ p0).length + 1) s { st with fieldSeen := false, prevHdr := [] } true false 0 (st.prevHdr ++ p0)).2.2 with
    | none => feedBlock (fieldLoop ((st.prevHdr ++ p0).length + 1) s { st with fieldSeen := false, prevHdr := [] } true false 0 (st.prevHdr ++ p0)).1
        (fieldLoop ((st.prevHdr ++ p0).length + 1) s { st with fieldSeen := false, prevHdr := [] } true false 0 (st.prevHdr ++ p0)).2.1 (q :: qs)
    | some _ => fieldLoop ((st.prevHdr ++ p0).length + 1) s { st with fieldSeen := false, prevHdr := [] } true false 0 (st.prevHdr ++ p0) from rfl]
  rw [hh]
  cases he : (fieldLoop ((st.prevHdr ++ p0).length + 1) s { st with fieldSeen := false, prevHdr := [] } true false 0 (st.prevHdr ++ p0)).2.2 with
  | some e => rfl
  | none =>
    simp only
    have := (fieldLoop_ctl ((st.prevHdr ++ p0).length + 1) s { st with fieldSeen := false, prevHdr := [] } true false 0 (st.prevHdr ++ p0)).1
    have c := ctl_fields this
    exact hdrFrames_conts hc _ _ (by rw [c.2.2.2.2.1]; exact hfin)

/-- **`feedBlock_whole` over `Frame` values**: a request block sent as HEADERS + CONTINUATION frames, handled by
`handleHeaderFrame` frame after frame, ends with the verdict `handleHeaderFrame` gives the whole block in ONE HEADERS frame with
END_HEADERS — and, when accepted, with the same `msgSt` and decoder state -/
theorem hdrFrames_whole (s : Srv) (st : Strm) (frH frW : Frame) (cs : List Frame) (es es' : Bool) (prio prio' : Option (Nat × Nat))
    (p0 : Bytes) (ps : List Bytes) (hb : frH.body = .headers es false prio p0) (hfin : st.headersFinished = false)
    (hprio : ∀ dep w, prio = some (dep, w) → (dep == st.id) = false) (hc : ContBlock cs ps)
    (hW : frW.body = .headers es' true prio' (p0 :: ps).flatten)
    (hprio' : ∀ dep w, prio' = some (dep, w) → (dep == st.id) = false)
    (hg : st.Good) (hcut : cutsOK s { st with fieldSeen := false } (p0 :: ps)) :
    absFin (hdrFrames s st (frH :: cs)) = absFin (handleHeaderFrame s st frW) := by
  rw [hdrFrames_block s st frH cs es prio p0 ps hb hfin hprio hc,
    feedBlock_whole (p0 :: ps) s { st with fieldSeen := false } (by simp) hg hcut,
    hhf_headers s st frW es' true prio' _ hW hfin hprio']
  rfl

/-! ## the loop reads the decoder and the configuration only -/

def setStrms (l : List Strm) (x : Srv × Strm × Option SErr) : Srv × Strm × Option SErr := ({ x.1 with strms := l }, x.2.1, x.2.2)

theorem fieldLoop_setStrms (l : List Strm) (fuel : Nat) (s : Srv) (st : Strm) (bs eh : Bool) (fp : Nat) (b : Bytes) :
    fieldLoop fuel { s with strms := l } st bs eh fp b = setStrms l (fieldLoop fuel s st bs eh fp b) := by
  induction fuel generalizing s st fp b with
  | zero => simp [fieldLoop, setStrms]
  | succ n ih =>
    cases b with
    | nil => simp [fieldLoop, setStrms]
    | cons c cs =>
      simp only [fieldLoop]
      cases hd : Hpack.Dec.next s.dec bs fp (c :: cs) with
      | needMore =>
        simp only
        repeat' split
        all_goals rfl
      | err => rfl
      | ok dec fo rest =>
        cases fo with
        | none => rfl
        | some f =>
          simp only [fieldStep]
          cases fieldVerdict s.cfg { st with fieldSeen := true } f with
          | some e => rfl
          | none => exact ih { s with dec := dec } _ _ _

theorem feedBlock_setStrms (l : List Strm) : ∀ (ps : List Bytes) (s : Srv) (st : Strm),
    feedBlock { s with strms := l } st ps = setStrms l (feedBlock s st ps) := by
  intro ps
  induction ps with
  | nil => intro s st; rfl
  | cons p ps ih =>
    intro s st
    cases ps with
    | nil =>
      simp only [feedBlock]
      exact fieldLoop_setStrms l _ s _ _ true 0 _
    | cons q qs =>
      have h' := fieldLoop_setStrms l ((st.prevHdr ++ p).length + 1) s { st with prevHdr := [] } (!st.fieldSeen) false 0 (st.prevHdr ++ p)
      simp only [feedBlock]
      simp only [h']
      generalize fieldLoop ((st.prevHdr ++ p).length + 1) s { st with prevHdr := [] } (!st.fieldSeen) false 0 (st.prevHdr ++ p) = X
      obtain ⟨a, b, c⟩ := X
      cases c with
      | none => simp only [setStrms]; exact ih _ _
      | some e => rfl

/-! ## header-bearing frames through `handleFrame` -/

theorem hf_hdr (r : R) (uid : Nat) (fr : Frame) (st : Strm) (O : Strm → Prop) (ht : Tbl r uid st O)
    (htyp : (fr.typ == Gen.c_FrameHeaders || fr.typ == Gen.c_FrameContinuation) = true)
    (hv : verifyState st fr = none)
    (hrk : (decide (st.state.rank ≥ StState.halfClosed.rank) && !continuingHeaders st fr) = false)
    (s1 : Srv) (st1 : Strm) (e1 : Option SErr) (hX : handleHeaderFrame r.s st fr = (s1, st1, e1)) :
    handleFrame r uid fr =
      match e1 with
      | some e => (({ r with s := s1 } : R).updStrm uid fun _ => st1, some e)
      | none =>
        if Frame.hasFlag fr.flags Gen.c_FlagEndHeaders then
          ((({ r with s := s1 } : R).updStrm uid fun _ => st1).updStrm uid fun s => { s with headersFinished := st1.prevHdr.isEmpty },
           if st1.prevHdr.isEmpty then validatePseudo st1
           else some (.goAway Gen.c_ProtocolError "END_HEADERS received on an incomplete stream"))
        else (({ r with s := s1 } : R).updStrm uid fun _ => st1, none) := by
  simp only [handleFrame, ht.get, hv, htyp, if_true, hrk, Bool.false_eq_true, if_false, hX]
  cases e1 with
  | some e => rfl
  | none =>
    simp only
    cases Frame.hasFlag fr.flags Gen.c_FlagEndHeaders
    · rfl
    · cases hp : st1.prevHdr.isEmpty <;> simp [hp]

theorem hf_hdr_tbl (r : R) (uid : Nat) (fr : Frame) (st : Strm) (O : Strm → Prop) (ht : Tbl r uid st O)
    (s1 : Srv) (st1 : Strm) (e1 : Option SErr) (hX : handleHeaderFrame r.s st fr = (s1, st1, e1)) :
    Tbl (({ r with s := s1 } : R).updStrm uid fun _ => st1) uid st1 O := by
  have kk := handleHeaderFrame_keeps r.s st fr
  rw [hX] at kk
  simp only at kk
  have hu1 : st1.uid = uid := by
    have : st1.uid = st.uid := congrArg (fun (x : Sk × Sk2) => x.1.1) kk.2.2.2
    rw [this]; exact ht.uid
  have t0 : Tbl ({ r with s := s1 } : R) uid st O := ht.congr kk.1
  exact t0.upd (fun _ => st1) (fun _ _ => hu1)

theorem handleState_cont_open (fr : Frame) (st : Strm) (ht : fr.typ = Gen.c_FrameContinuation) (hs : st.state = .open) :
    handleState fr st = st := by
  have e1 : (Gen.c_FrameContinuation == Gen.c_FrameResetStream) = false := rfl
  have e2 : (Gen.c_FrameContinuation == Gen.c_FrameData) = false := rfl
  have e3 : (Gen.c_FrameContinuation == Gen.c_FrameHeaders) = false := rfl
  simp [handleState, ht, e1, e2, e3, hs]

/-- the stream in the middle of its request block -/
def Mid (st : Strm) : Prop := st.headersFinished = false ∧ st.state = .open ∧ st.responded = false

/-- what the CONTINUATION frames of a block lead to, in terms of the result `(st', e, dec)` of `feedBlock` on their fragments -/
def ContsOutcome (r : R) (uid : Nat) (O : Strm → Prop) (frames rest : List Frame) (sid : Nat) (st' : Strm) (e : Option SErr)
    (dec : Hpack.DecState) : Prop :=
  match e with
  | some e => ∃ o, sig (runReq r uid (frames ++ rest)).out = sig r.out ++ [o] ∧ Answers sid o (absErr e)
  | none =>
    match validatePseudo st' with
    | some e => ∃ o, sig (runReq r uid (frames ++ rest)).out = sig r.out ++ [o] ∧ Answers sid o (absErr e)
    | none => ∃ r1, runReq r uid (frames ++ rest) = runReq r1 uid rest ∧ Tbl r1 uid { st' with headersFinished := true } O ∧
        st'.prevHdr = [] ∧ sig r1.out = sig r.out ∧ r1.s.dec = dec ∧ r1.s.cfg = r.s.cfg

theorem cont_prelims (st : Strm) (fr : Frame) (hm : Mid st) (htyp : fr.typ = Gen.c_FrameContinuation) :
    (fr.typ == Gen.c_FrameHeaders || fr.typ == Gen.c_FrameContinuation) = true ∧ verifyState st fr = none ∧
    (decide (st.state.rank ≥ StState.halfClosed.rank) && !continuingHeaders st fr) = false ∧
    fr.typ ≠ Gen.c_FrameHeaders := by
  obtain ⟨h1, h2, _⟩ := hm
  refine ⟨by rw [htyp]; rfl, by simp [verifyState, h2], ?_, by rw [htyp]; decide⟩
  have : decide (StState.open.rank ≥ StState.halfClosed.rank) = false := by decide
  rw [h2, this]; rfl

theorem runReq_step (r : R) (uid : Nat) (fr : Frame) (frs : List Frame) (h : (knownStream r uid fr false).out = r.out) :
    runReq r uid (fr :: frs) = runReq (knownStream r uid fr false) uid frs := by
  have hlen : ((sig (knownStream r uid fr false).out).length == (sig r.out).length) = true := by rw [h]; simp
  simp only [runReq, hlen, if_true]

/-- **the CONTINUATION frames of a block through the body of the stream loop**: what `feedBlock` on their fragments says -/
theorem conts_R (uid : Nat) (O : Strm → Prop) (rest : List Frame) {cs : List Frame} {ps : List Bytes} (hc : ContBlock cs ps) :
    ∀ (r : R) (st : Strm), Tbl r uid st O → Mid st →
    ContsOutcome r uid O cs rest st.id (feedBlock r.s st ps).2.1 (feedBlock r.s st ps).2.2 (feedBlock r.s st ps).1.dec := by
  induction hc with
  | last fr p htyp hb heh =>
    intro r st ht hm
    obtain ⟨c1, c2, c3, c4⟩ := cont_prelims st fr hm htyp
    have hp := headersPrelude_other r fr c4
    have hh := hhf_cont r.s st fr true p hb hm.1
    have hstate := fieldLoop_state ((st.prevHdr ++ p).length + 1) r.s { st with prevHdr := [] } (!st.fieldSeen) true 0 (st.prevHdr ++ p)
    obtain ⟨kc, _, kcfg⟩ := fieldLoop_ctl ((st.prevHdr ++ p).length + 1) r.s { st with prevHdr := [] } (!st.fieldSeen) true 0 (st.prevHdr ++ p)
    show ContsOutcome r uid O [fr] rest st.id
      (fieldLoop ((st.prevHdr ++ p).length + 1) r.s { st with prevHdr := [] } (!st.fieldSeen) true 0 (st.prevHdr ++ p)).2.1
      (fieldLoop ((st.prevHdr ++ p).length + 1) r.s { st with prevHdr := [] } (!st.fieldSeen) true 0 (st.prevHdr ++ p)).2.2
      (fieldLoop ((st.prevHdr ++ p).length + 1) r.s { st with prevHdr := [] } (!st.fieldSeen) true 0 (st.prevHdr ++ p)).1.dec
    rcases hX : fieldLoop ((st.prevHdr ++ p).length + 1) r.s { st with prevHdr := [] } (!st.fieldSeen) true 0 (st.prevHdr ++ p) with ⟨s1, st1, e1⟩
    rw [hX] at hh hstate kc kcfg
    simp only at hstate kc kcfg
    have c := ctl_fields kc
    have hresp1 : st1.responded = false := c.2.2.2.2.2.1.trans hm.2.2
    have hF := hf_hdr r uid fr st O ht c1 c2 c3 s1 st1 e1 hh
    have t1 := hf_hdr_tbl r uid fr st O ht s1 st1 e1 hh
    simp only [ContsOutcome, List.cons_append, List.nil_append]
    cases e1 with
    | some e =>
      simp only at hF ⊢
      have := runReq_refused r uid fr rest st1 e O hp (by rw [hF]) (by rw [hF]; exact t1) hresp1 (by rw [hF]; rfl)
      exact ⟨_, this, by rw [← c.2.1]; exact errOut_answers _ _ _⟩
    | none =>
      simp only [heh, if_true] at hF ⊢
      have hprev : st1.prevHdr = [] := by
        have h2 := hstate rfl
        cases htl : (decRun ((st.prevHdr ++ p).length + 1) r.s.dec (!st.fieldSeen) 0 (st.prevHdr ++ p)).2 with
        | clean d => simp only [htl] at h2; exact h2.2.1
        | cut d rr => simp only [htl] at h2; exact absurd h2.1 (by decide)
        | bad => simp only [htl] at h2
      have hpe : st1.prevHdr.isEmpty = true := by rw [hprev]; rfl
      rw [hpe] at hF
      simp only [if_true] at hF
      have t2 := t1.upd (fun s => { s with headersFinished := true }) (fun x hx => hx)
      cases hvp : validatePseudo st1 with
      | some e =>
        simp only
        rw [hvp] at hF
        have := runReq_refused r uid fr rest { st1 with headersFinished := true } e O hp (by rw [hF]) (by rw [hF]; exact t2) hresp1 (by rw [hF]; rfl)
        refine ⟨_, this, ?_⟩
        have := errOut_answers (handleFrame r uid fr).1 { st1 with headersFinished := true } e
        rw [← c.2.1]; exact this
      | none =>
        simp only
        rw [hvp] at hF
        have hS : handleState fr { st1 with headersFinished := true } = { st1 with headersFinished := true } :=
          handleState_cont_open fr _ htyp (c.2.2.1.trans hm.2.1)
        have hst1 : st1.state = .open := c.2.2.1.trans hm.2.1
        have hpend : Pending (handleState fr { st1 with headersFinished := true }) := by
          rw [hS]; exact ⟨hresp1, by simp [hst1], by simp [hst1]⟩
        obtain ⟨k1, k2⟩ := knownStream_pending r uid fr { st1 with headersFinished := true } O hp (by rw [hF]) (by rw [hF]; exact t2) hpend
        rw [hS] at k2
        have kout : (knownStream r uid fr false).out = r.out := by rw [k1, hF]; rfl
        refine ⟨knownStream r uid fr false, runReq_step r uid fr rest kout, k2, hprev, by rw [kout], by rw [k1, hF]; rfl, ?_⟩
        rw [k1, hF]; exact kcfg
  | cons fr f2 frs p q ps htyp hb heh hc' ih =>
    intro r st ht hm
    obtain ⟨c1, c2, c3, c4⟩ := cont_prelims st fr hm htyp
    have hp := headersPrelude_other r fr c4
    have hh := hhf_cont r.s st fr false p hb hm.1
    obtain ⟨kc, _, kcfg⟩ := fieldLoop_ctl ((st.prevHdr ++ p).length + 1) r.s { st with prevHdr := [] } (!st.fieldSeen) false 0 (st.prevHdr ++ p)
    have hfb : feedBlock r.s st (p :: q :: ps) =
      match (fieldLoop ((st.prevHdr ++ p).length + 1) r.s { st with prevHdr := [] } (!st.fieldSeen) false 0 (st.prevHdr ++ p)).2.2 with
      | none => feedBlock (fieldLoop ((st.prevHdr ++ p).length + 1) r.s { st with prevHdr := [] } (!st.fieldSeen) false 0 (st.prevHdr ++ p)).1
          (fieldLoop ((st.prevHdr ++ p).length + 1) r.s { st with prevHdr := [] } (!st.fieldSeen) false 0 (st.prevHdr ++ p)).2.1 (q :: ps)
      | some _ => fieldLoop ((st.prevHdr ++ p).length + 1) r.s { st with prevHdr := [] } (!st.fieldSeen) false 0 (st.prevHdr ++ p) := rfl
    rw [hfb]
    rcases hX : fieldLoop ((st.prevHdr ++ p).length + 1) r.s { st with prevHdr := [] } (!st.fieldSeen) false 0 (st.prevHdr ++ p) with ⟨s1, st1, e1⟩
    rw [hX] at hh kc kcfg
    simp only at kc kcfg
    have c := ctl_fields kc
    have hresp1 : st1.responded = false := c.2.2.2.2.2.1.trans hm.2.2
    have hF := hf_hdr r uid fr st O ht c1 c2 c3 s1 st1 e1 hh
    have t1 := hf_hdr_tbl r uid fr st O ht s1 st1 e1 hh
    cases e1 with
    | some e =>
      simp only at hF ⊢
      simp only [ContsOutcome, List.cons_append]
      have := runReq_refused r uid fr (f2 :: frs ++ rest) st1 e O hp (by rw [hF]) (by rw [hF]; exact t1) hresp1 (by rw [hF]; rfl)
      exact ⟨_, this, by rw [← c.2.1]; exact errOut_answers _ _ _⟩
    | none =>
      simp only [heh, Bool.false_eq_true, if_false] at hF ⊢
      have hst1 : st1.state = .open := c.2.2.1.trans hm.2.1
      have hS : handleState fr st1 = st1 := handleState_cont_open fr _ htyp hst1
      have hmid1 : Mid st1 := ⟨c.2.2.2.2.1.trans hm.1, hst1, hresp1⟩
      have hpend : Pending (handleState fr st1) := by
        rw [hS]; exact ⟨hresp1, by simp [hst1], by simp [hst1]⟩
      obtain ⟨k1, k2⟩ := knownStream_pending r uid fr st1 O hp (by rw [hF]) (by rw [hF]; exact t1) hpend
      rw [hS] at k2
      have kout : (knownStream r uid fr false).out = r.out := by rw [k1, hF]; rfl
      have hrun := runReq_step r uid fr (f2 :: (frs ++ rest)) kout
      have hs : (knownStream r uid fr false).s = { s1 with strms := (knownStream r uid fr false).s.strms } := by rw [k1, hF]; rfl
      have kcfg' : (knownStream r uid fr false).s.cfg = r.s.cfg := by rw [hs]; exact kcfg
      have IH := ih (knownStream r uid fr false) st1 k2 hmid1
      rw [hs, feedBlock_setStrms] at IH
      simp only [setStrms] at IH
      simp only [ContsOutcome, List.cons_append] at IH ⊢
      rw [hrun]
      rw [show st1.id = st.id from c.2.1, kout] at IH
      cases he2 : (feedBlock s1 st1 (q :: ps)).2.2 with
      | some e => simp only [he2] at IH ⊢; exact IH
      | none =>
        simp only [he2] at IH ⊢
        cases hvp : validatePseudo (feedBlock s1 st1 (q :: ps)).2.1 with
        | some e => simp only [hvp] at IH ⊢; exact IH
        | none =>
          simp only [hvp] at IH ⊢
          obtain ⟨r1, a1, a2, a3, a4, a5, a6⟩ := IH
          exact ⟨r1, a1, a2, a3, a4, a5, by rw [a6]; exact kcfg'⟩

/-- `feedBlock` keeps what the loop keeps: `ctl`, `Good`, `cfg`; and an accepted block leaves nothing carried over -/
theorem feedBlock_ctl : ∀ (ps : List Bytes) (s : Srv) (st : Strm),
    (feedBlock s st ps).2.1.ctl = st.ctl ∧ (st.Good → (feedBlock s st ps).2.1.Good) ∧ (feedBlock s st ps).1.cfg = s.cfg := by
  intro ps
  induction ps with
  | nil => intro s st; exact ⟨rfl, fun h => h, rfl⟩
  | cons p ps ih =>
    intro s st
    have hc := fieldLoop_ctl ((st.prevHdr ++ p).length + 1) s { st with prevHdr := [] } (!st.fieldSeen)
    cases ps with
    | nil => exact hc true 0 (st.prevHdr ++ p)
    | cons q qs =>
      have hfb : feedBlock s st (p :: q :: qs) =
        match (fieldLoop ((st.prevHdr ++ p).length + 1) s { st with prevHdr := [] } (!st.fieldSeen) false 0 (st.prevHdr ++ p)).2.2 with
        | none => feedBlock (fieldLoop ((st.prevHdr ++ p).length + 1) s { st with prevHdr := [] } (!st.fieldSeen) false 0 (st.prevHdr ++ p)).1
            (fieldLoop ((st.prevHdr ++ p).length + 1) s { st with prevHdr := [] } (!st.fieldSeen) false 0 (st.prevHdr ++ p)).2.1 (q :: qs)
        | some _ => fieldLoop ((st.prevHdr ++ p).length + 1) s { st with prevHdr := [] } (!st.fieldSeen) false 0 (st.prevHdr ++ p) := rfl
      rw [hfb]
      obtain ⟨a, b, c⟩ := hc false 0 (st.prevHdr ++ p)
      cases he : (fieldLoop ((st.prevHdr ++ p).length + 1) s { st with prevHdr := [] } (!st.fieldSeen) false 0 (st.prevHdr ++ p)).2.2 with
      | some e => exact ⟨a, b, c⟩
      | none =>
        simp only
        obtain ⟨a', b', c'⟩ := ih
          (fieldLoop ((st.prevHdr ++ p).length + 1) s { st with prevHdr := [] } (!st.fieldSeen) false 0 (st.prevHdr ++ p)).1
          (fieldLoop ((st.prevHdr ++ p).length + 1) s { st with prevHdr := [] } (!st.fieldSeen) false 0 (st.prevHdr ++ p)).2.1
        exact ⟨a'.trans a, fun h => b' (b h), c'.trans c⟩

/-- the result of `feedBlock` in terms of the message model: `Msg.loop` over the fields the WHOLE block decodes to -/
theorem feedBlock_spec (ps : List Bytes) (s : Srv) (st : Strm) (hne : ps ≠ []) (hg : st.Good) (hc : cutsOK s st ps) :
    absFin (feedBlock s st ps) =
      specC s.cfg (msgSt st) (coarse (decRun ((st.prevHdr ++ ps.flatten).length + 1) s.dec (!st.fieldSeen) 0 (st.prevHdr ++ ps.flatten))) := by
  rw [feedBlock_whole ps s st hne hg hc]
  exact fieldLoop_final _ s { st with prevHdr := [] } _ 0 _ hg.1

end H2.Server.Lock
