import H2.Server.Lock.PerFrame
import H2.Proofs.Msg
/-!
# C20 — refinement: the abstract model's field loop body IS the full server model's

`Msg.field` (the C20 model) against `H2.Server.fieldVerdict` / `fieldUpdate` (the body of `fieldLoop` in the full
server model, the one the correspondence check ties to the Go code), through the projection `Lock.msgSt`.
Proved, not only run in lockstep.
-/
namespace H2.Server.Lock
open H2.Server

def absErr : SErr → Msg.Verdict
  | .goAway code _ => .goAway code
  | .reset code => .rst code

def cfgOf (cfg : Server.Cfg) : Msg.Cfg := { maxHeaderList := cfg.maxHeaderList, maxBody := cfg.maxBody }

theorem hasUpper_eq (k : Bytes) : Msg.hasUpper k = hasUpperCase k := by
  unfold Msg.hasUpper hasUpperCase
  congr 1

theorem connSpecific_eq (k : Bytes) : Msg.isConnSpecific k = isConnectionSpecific k := by
  unfold Msg.isConnSpecific isConnectionSpecific
  rw [List.contains_eq_any_beq]
  congr 1
  funext x
  exact Bool.beq_comm ..

theorem parseAux_eq (v : Bytes) : ∀ a : Nat,
    v.foldl (fun acc c => match acc with
      | none => none
      | some n =>
        if c < 48 || c > 57 then none
        else if n * 10 + (c - 48 : Nat) > (2 ^ 63 - 1 : Int) then none
        else some (n * 10 + (c - 48 : Nat))) (some (a : Int)) = (Msg.parseUintAux v a).map Int.ofNat := by
  induction v with
  | nil => intro a; simp [Msg.parseUintAux]
  | cons c cs ih =>
    intro a
    simp only [List.foldl_cons, Msg.parseUintAux]
    have hnone : ∀ l : Bytes, l.foldl (fun (acc : Option Int) c => match acc with
      | none => none
      | some n =>
        if c < 48 || c > 57 then none
        else if n * 10 + (c - 48 : Nat) > (2 ^ 63 - 1 : Int) then none
        else some (n * 10 + (c - 48 : Nat))) none = none := by
      intro l; induction l with
      | nil => rfl
      | cons x xs ihx => simpa using ihx
    by_cases h1 : c < 48 ∨ 57 < c
    · have h1' : (decide (c < 48) || decide (c > 57)) = true := by simpa using h1
      simp only [h1', ↓reduceIte, h1, hnone, Option.map_none]
    · have h1' : (decide (c < 48) || decide (c > 57)) = false := by simpa using h1
      simp only [h1', Bool.false_eq_true, ↓reduceIte, h1]
      by_cases h2 : a * 10 + (c - 48) > Msg.maxInt
      · have : ((a : Int) * 10 + ((c - 48 : Nat) : Int) > (2 ^ 63 - 1 : Int)) := by
          unfold Msg.maxInt at h2; omega
        simp only [this, ↓reduceIte, h2, hnone, Option.map_none]
      · have : ¬ ((a : Int) * 10 + ((c - 48 : Nat) : Int) > (2 ^ 63 - 1 : Int)) := by
          unfold Msg.maxInt at h2; omega
        simp only [this, ↓reduceIte, h2]
        have := ih (a * 10 + (c - 48))
        simpa using this

theorem parseUint_eq (v : Bytes) : Server.parseUint v = (Msg.parseUint v).map Int.ofNat := by
  unfold Server.parseUint Msg.parseUint
  split
  · simp
  · exact parseAux_eq v 0

/-- **refinement**: one iteration of the C20 model's field loop is the full server model's
`fieldVerdict` / `fieldUpdate` seen through the projection `msgSt` -/
theorem field_refines (cfg : Server.Cfg) (st : Strm) (f : Hpack.Field) (hcl : 0 ≤ st.contentLength) :
    Msg.field (cfgOf cfg) (msgSt st) (f.name, f.value) =
      match fieldVerdict cfg st f with
      | none => .ok (msgSt (fieldUpdate st f))
      | some e => .error (absErr e) := by
  obtain ⟨k, v, sens⟩ := f
  simp only
  by_cases h0 : 0 < cfg.maxHeaderList ∧ cfg.maxHeaderList < (st.hdrListSize : Int) + k.length + v.length + 32
  · simp [Msg.field, fieldVerdict, msgSt, cfgOf, h0, absErr, Msg.eListSize]
  by_cases hu : hasUpperCase k = true
  · simp [Msg.field, fieldVerdict, msgSt, cfgOf, h0, hasUpper_eq, hu, absErr, Msg.eProtocol]
  simp only [Bool.not_eq_true] at hu
  by_cases hp : k.head? = some 58
  · have hp' : Msg.isPseudo k = true := by simp [Msg.isPseudo, hp]
    by_cases hr : st.regularSeen = true
    · simp [Msg.field, fieldVerdict, msgSt, cfgOf, h0, hasUpper_eq, hu, hp, hp', hr, absErr, Msg.eProtocol]
    simp only [Bool.not_eq_true] at hr
    by_cases k1 : k = Gen.s_StringMethod
    · subst k1
      cases hm : st.pMethod <;>
        simp +decide [Msg.field, fieldVerdict, fieldUpdate, msgSt, cfgOf, h0, hasUpper_eq, hu, hp, hp', hr, hm, absErr, Msg.eProtocol]
    by_cases k2 : k = Gen.s_StringPath
    · subst k2
      cases hm : st.pPath <;>
        simp +decide [Msg.field, fieldVerdict, fieldUpdate, msgSt, cfgOf, h0, hasUpper_eq, hu, hp, hp', hr, hm, absErr, Msg.eProtocol]
    by_cases k3 : k = Gen.s_StringScheme
    · subst k3
      cases hm : st.pScheme <;>
        simp +decide [Msg.field, fieldVerdict, fieldUpdate, msgSt, cfgOf, h0, hasUpper_eq, hu, hp, hp', hr, hm, absErr, Msg.eProtocol]
    by_cases k4 : k = Gen.s_StringAuthority
    · subst k4
      cases hm : st.pAuthority <;>
        simp +decide [Msg.field, fieldVerdict, fieldUpdate, msgSt, cfgOf, h0, hasUpper_eq, hu, hp, hp', hr, hm, absErr, Msg.eProtocol]
    · simp [Msg.field, fieldVerdict, msgSt, cfgOf, h0, hasUpper_eq, hu, hp, hp', hr, k1, k2, k3, k4, absErr, Msg.eProtocol]
  · have hp' : Msg.isPseudo k = false := by simp [Msg.isPseudo, hp]
    by_cases hc : isConnectionSpecific k = true
    · simp [Msg.field, fieldVerdict, msgSt, cfgOf, h0, hasUpper_eq, hu, hp, hp', connSpecific_eq, hc, absErr, Msg.eProtocol]
    simp only [Bool.not_eq_true] at hc
    by_cases ht : k = Gen.s_StringTE ∧ v ≠ Gen.s_StringTrailers
    · obtain ⟨e, hv⟩ := ht
      subst e
      simp +decide [Msg.field, fieldVerdict, msgSt, cfgOf, h0, hasUpper_eq, hu, hp', connSpecific_eq, hc, hv, absErr, Msg.eProtocol]
    by_cases c3 : k = Gen.s_StringUserAgent
    · subst c3
      simp +decide [Msg.field, fieldVerdict, fieldUpdate, msgSt, cfgOf, h0, hasUpper_eq, hu, hp', connSpecific_eq, hc]
    by_cases c4 : k = Gen.s_StringContentType
    · subst c4
      simp +decide [Msg.field, fieldVerdict, fieldUpdate, msgSt, cfgOf, h0, hasUpper_eq, hu, hp', connSpecific_eq, hc]
    by_cases c5 : k = Gen.s_StringContentLength
    · subst c5
      rw [show fieldVerdict cfg st ⟨Gen.s_StringContentLength, v, sens⟩ = _ from rfl]
      simp +decide [Msg.field, fieldVerdict, fieldUpdate, msgSt, cfgOf, h0, hasUpper_eq, hu, hp', connSpecific_eq, hc, absErr,
        parseUint_eq]
      cases hpu : Msg.parseUint v with
      | none => simp [Msg.eProtocol]
      | some n =>
        simp only [Option.map_some]
        have e1 : (¬ n = st.contentLength.toNat) ↔ (¬ Int.ofNat n = st.contentLength) := by
          constructor
          · intro h e; apply h; rw [← e]; simp
          · intro h e; apply h; rw [e]; exact Int.toNat_of_nonneg hcl
        have e2 : (cfg.maxBody < n) ↔ ((cfg.maxBody : Int) < Int.ofNat n) := by
          constructor <;> intro h <;> (simp only [Int.ofNat_eq_natCast] at *; omega)
        simp only [e1, e2]
        split
        · rfl
        · split
          · rfl
          · simp
    · have ht' : ¬ (k = Gen.s_StringTE ∧ ¬ v = Gen.s_StringTrailers) := ht
      simp [Msg.field, fieldVerdict, fieldUpdate, msgSt, cfgOf, h0, hasUpper_eq, hu, hp, hp', connSpecific_eq, hc, ht', c3, c4, c5]

/-- the hypothesis of `field_refines` is an invariant: `contentLength` starts at 0 and is only ever set to a parsed value -/
theorem contentLength_nonneg (st : Strm) (f : Hpack.Field) (hcl : 0 ≤ st.contentLength) :
    0 ≤ (fieldUpdate st f).contentLength := by
  unfold fieldUpdate
  simp only
  repeat' split
  all_goals first
    | exact hcl
    | (rename_i n hn
       rw [parseUint_eq] at hn
       cases hp : Msg.parseUint f.value with
       | none => simp [hp] at hn
       | some m => simp [hp] at hn; subst hn; simp)

end H2.Server.Lock
