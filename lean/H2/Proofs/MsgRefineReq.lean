import H2.Proofs.MsgRefineDecide
/-!
# C20 — refinement, the long shape: HEADERS-block, DATA*, optional trailers-block with END_STREAM, through `knownStream`

* `knownStream_refused` — a frame `handleFrame` refuses: the loop body answers with `errOut` (RST_STREAM / GOAWAY), nothing else
* `knownStream_pending`, `knownStream_decides` — an accepted frame that leaves the request incomplete / completes it
* `Tbl` — what the proofs keep about the stream table: the record of the request's stream, that it is the only one with its
  uid, and a predicate on the other entries (they are never touched)
* `hf_block`, `hf_data` — `handleFrame` on a HEADERS frame with END_HEADERS / on a DATA frame, explicitly
* `runReq` — the loop body over the consecutive frames of one stream up to the first frame that is answered
* `long_request` — the outputs of `runReq` over `HEADERS, DATA*, [trailers]` against `Msg.validate`
-/
set_option linter.unusedSimpArgs false
namespace H2.Server.Lock
open H2.Server H2.Frame

theorem writeReset_getStrm (r : R) (sid code uid : Nat) : (writeReset r sid code).getStrm uid = r.getStrm uid := rfl
theorem writeReset_out (r : R) (sid code : Nat) : (writeReset r sid code).out = r.out ++ [.rst sid code] := rfl

theorem writeGoAway_getStrm (r : R) (sid code uid : Nat) (tag : String) : (writeGoAway r sid code tag).getStrm uid = r.getStrm uid := by
  simp only [writeGoAway, R.getStrm, R.emit]
  split <;> rfl

theorem handleState_closed (fr : Frame) (x : Strm) (h : x.state = .closed) : (handleState fr x).state = .closed := by
  by_cases ht : (fr.typ == Gen.c_FrameResetStream) = true
  · simp [handleState, ht]
  · simp [handleState, ht, h]

/-- the frame `writeError` sends for the error `e` about the stream `st` -/
def errOut (r : R) (st : Strm) : SErr → Out
  | .reset code => .rst st.id code
  | .goAway code tag => .goAway ((if st.id > r.s.lastID then st.id else r.s.lastID) % 2 ^ 31) code tag

theorem writeGoAway_out (r : R) (sid code : Nat) (tag : String) :
    (writeGoAway r sid code tag).out = r.out ++ [.goAway ((if sid > r.s.lastID then sid else r.s.lastID) % 2 ^ 31) code tag] := by
  simp only [writeGoAway, R.emit]

theorem updStrm_out (r : R) (uid : Nat) (f : Strm → Strm) : (r.updStrm uid f).out = r.out := rfl

/-- **a frame `handleFrame` refuses**: the loop body answers with the one frame `writeError` sends — RST_STREAM(code) on the
stream, or GOAWAY(code) — and nothing else (no dispatch) -/
theorem knownStream_refused (r : R) (uid : Nat) (fr : Frame) (st1 : Strm) (e : SErr) (hp : headersPrelude r fr = (r, true))
    (he : (handleFrame r uid fr).2 = some e) (hg1 : (handleFrame r uid fr).1.getStrm uid = some st1)
    (hresp : st1.responded = false) :
    (knownStream r uid fr false).out = (handleFrame r uid fr).1.out ++ [errOut (handleFrame r uid fr).1 st1 e] := by
  rcases hF : handleFrame r uid fr with ⟨r1, e'⟩
  rw [hF] at he hg1
  simp only at he hg1 ⊢
  subst he
  have hu : st1.uid = uid := by
    have := List.find?_some hg1
    simpa using this
  cases e with
  | reset code =>
    have g1 : (writeReset r1 st1.id code).getStrm uid = some st1 := hg1
    have g2 := getStrm_upd _ uid (fun st => { st with state := StState.closed }) st1 (fun x hx => hx) g1
    have g3 := getStrm_upd _ uid (fun st => { st with state := StState.closed }) _ (fun x hx => hx) g2
    have g4 := getStrm_upd _ uid (handleState fr) _ (fun x hx => by rw [handleState_uid]; exact hx) g3
    simp only [knownStream, hp, hF, Bool.not_true, Bool.false_eq_true, if_false, onFrameError, writeError, hg1, g4, Bool.false_and]
    rw [closeIfClosed_out]
    have hS := handleState_eq fr { st1 with state := StState.closed }
    have hst : (handleState fr { st1 with state := StState.closed }).state = .closed := handleState_closed fr _ rfl
    rw [hst] at hS
    rw [hS]
    simp [dispatchOrSend, hresp, updStrm_out, writeReset_out, errOut]
  | goAway code tag =>
    have g1 : (writeGoAway r1 st1.id code tag).getStrm uid = some st1 := by rw [writeGoAway_getStrm]; exact hg1
    have g2 := getStrm_upd _ uid (fun st => { st with state := StState.closed }) st1 (fun x hx => hx) g1
    have g3 := getStrm_upd _ uid (fun st => { st with state := StState.closed }) _ (fun x hx => hx) g2
    have g4 := getStrm_upd _ uid (handleState fr) _ (fun x hx => by rw [handleState_uid]; exact hx) g3
    simp only [knownStream, hp, hF, Bool.not_true, Bool.false_eq_true, if_false, onFrameError, writeError, hg1]
    by_cases hc : (code != Gen.c_NoError) = true
    · simp [hc, stopLoop, updStrm_out, writeGoAway_out, errOut]
    · simp only [hc, Bool.false_eq_true, if_false, g4, Bool.false_and]
      rw [closeIfClosed_out]
      have hS := handleState_eq fr { st1 with state := StState.closed }
      have hst : (handleState fr { st1 with state := StState.closed }).state = .closed := handleState_closed fr _ rfl
      rw [hst] at hS
      rw [hS]
      simp [dispatchOrSend, hresp, updStrm_out, writeGoAway_out, errOut]

/-! ## the stream table -/

/-- `st` is the record of stream `uid`, the only entry with that uid; every other entry satisfies `O` -/
structure Tbl (r : R) (uid : Nat) (st : Strm) (O : Strm → Prop) : Prop where
  get : r.getStrm uid = some st
  only : ∀ x ∈ r.s.strms, x.uid = uid → x = st
  others : ∀ x ∈ r.s.strms, x.uid ≠ uid → O x

theorem Tbl.uid {r : R} {uid : Nat} {st : Strm} {O : Strm → Prop} (h : Tbl r uid st O) : st.uid = uid := by
  have := List.find?_some h.get
  simpa using this

theorem Tbl.upd {r : R} {uid : Nat} {st : Strm} {O : Strm → Prop} (h : Tbl r uid st O) (f : Strm → Strm)
    (hf : ∀ x, x.uid = uid → (f x).uid = uid) : Tbl (r.updStrm uid f) uid (f st) O := by
  refine ⟨getStrm_upd r uid f st hf h.get, ?_, ?_⟩
  · intro x hx hu
    simp only [R.updStrm, List.mem_map] at hx
    obtain ⟨y, hy, rfl⟩ := hx
    by_cases hyu : y.uid = uid
    · have := h.only y hy hyu
      subst this
      simp [hyu]
    · simp [hyu] at hu
  · intro x hx hu
    simp only [R.updStrm, List.mem_map] at hx
    obtain ⟨y, hy, rfl⟩ := hx
    by_cases hyu : y.uid = uid
    · have := h.only y hy hyu
      subst this
      simp only [beq_iff_eq, hyu, if_true] at hu
      exact absurd (hf _ hyu) hu
    · simp only [beq_iff_eq, hyu, if_false] at hu ⊢
      exact h.others y hy hyu

theorem Tbl.congr {r r' : R} {uid : Nat} {st : Strm} {O : Strm → Prop} (h : Tbl r uid st O) (hs : r'.s.strms = r.s.strms) :
    Tbl r' uid st O := by
  refine ⟨?_, ?_, ?_⟩
  · have := h.get; simp only [R.getStrm] at this ⊢; rw [hs]; exact this
  · rw [hs]; exact h.only
  · rw [hs]; exact h.others

/-! ## the loop body around an accepted frame -/

def isWU : Out → Bool
  | .wu .. => true
  | _ => false

/-- the outputs that are not WINDOW_UPDATE frames (DATA frames are acknowledged with those) -/
def sig (l : List Out) : List Out := l.filter fun o => !isWU o

theorem sig_append (a b : List Out) : sig (a ++ b) = sig a ++ sig b := by simp [sig]

/-- the request on this stream is still coming in -/
def Pending (st : Strm) : Prop :=
  st.responded = false ∧ st.state ≠ .closed ∧ ¬ (st.state = .halfClosed ∧ st.headersFinished = true)

theorem knownStream_pending (r : R) (uid : Nat) (fr : Frame) (st1 : Strm) (O : Strm → Prop) (hp : headersPrelude r fr = (r, true))
    (hok : (handleFrame r uid fr).2 = none) (ht : Tbl (handleFrame r uid fr).1 uid st1 O)
    (hpend : Pending (handleState fr st1)) :
    knownStream r uid fr false = (handleFrame r uid fr).1.updStrm uid (handleState fr) ∧
    Tbl (knownStream r uid fr false) uid (handleState fr st1) O := by
  have ht2 := ht.upd (handleState fr) (fun x hx => by rw [handleState_uid]; exact hx)
  obtain ⟨h1, h2, h3⟩ := hpend
  have e : knownStream r uid fr false = (handleFrame r uid fr).1.updStrm uid (handleState fr) := by
    rw [knownStream_accepted r uid fr st1 hp hok ht.get]
    have hd : dispatchOrSend ((handleFrame r uid fr).1.updStrm uid (handleState fr)) uid (handleState fr st1) =
        (handleFrame r uid fr).1.updStrm uid (handleState fr) := by
      simp only [dispatchOrSend, h1]
      by_cases hh : (handleState fr st1).state = .halfClosed
      · have : (handleState fr st1).headersFinished = false := by
          cases hf : (handleState fr st1).headersFinished
          · rfl
          · exact absurd ⟨hh, hf⟩ h3
        simp [this]
      · simp [hh]
    rw [hd]
    simp only [closeIfClosed, ht2.get]
    simp [h2]
  exact ⟨e, e ▸ ht2⟩

theorem knownStream_decides (r : R) (uid : Nat) (fr : Frame) (st1 : Strm) (hp : headersPrelude r fr = (r, true))
    (hok : (handleFrame r uid fr).2 = none) (hg1 : (handleFrame r uid fr).1.getStrm uid = some st1)
    (he : AtEnd (handleState fr st1)) (hg : (handleState fr st1).Good) :
    (knownStream r uid fr false).out = (handleFrame r uid fr).1.out ++
      [match lastClause (msgSt (handleState fr st1)) (handleState fr st1).recvBody with
       | .dispatch => dispOut (handleState fr st1).id (msgSt (handleState fr st1)).view (handleState fr st1).body
       | _ => .rst (handleState fr st1).id Gen.c_ProtocolError] := by
  rw [knownStream_accepted r uid fr st1 hp hok hg1, closeIfClosed_out, dispatchOrSend_decision _ _ _ he hg]
  rfl

/-- the other streams opened by HEADERS have their header block behind them and are not idle with a lower id: what
`headersPrelude` looks at when a HEADERS frame arrives for stream `sid` -/
def Settled (sid : Nat) (x : Strm) : Prop :=
  (x.origType = Gen.c_FrameHeaders → x.headersFinished = true) ∧
  ¬ (x.id < sid ∧ x.state = .idle ∧ x.origType = Gen.c_FrameHeaders)

theorem getPrevious_mem (l : List Strm) (n : Strm) (h : getPrevious l = some n) : n ∈ l ∧ n.origType = Gen.c_FrameHeaders := by
  simp only [getPrevious] at h
  split at h
  · rename_i a p rest heq
    cases h
    have : n ∈ l.reverse.filter fun st => st.origType == Gen.c_FrameHeaders := by rw [heq]; simp
    simp only [List.mem_filter, List.mem_reverse, beq_iff_eq] at this
    exact this
  · cases h

/-- `headersPrelude` lets a HEADERS frame for the stream through unchanged when the stream's own block is finished (the
trailer block) and the others are settled -/
theorem prelude_ok (r : R) (uid : Nat) (st : Strm) (fr : Frame) (h : Tbl r uid st (Settled fr.stream))
    (hfin : st.headersFinished = true) (hid : st.id = fr.stream) : headersPrelude r fr = (r, true) := by
  have hall : ∀ x ∈ r.s.strms, (x.origType = Gen.c_FrameHeaders → x.headersFinished = true) ∧
      ¬ (x.id < fr.stream ∧ x.state = .idle ∧ x.origType = Gen.c_FrameHeaders) := by
    intro x hx
    by_cases hu : x.uid = uid
    · have := h.only x hx hu
      subst this
      exact ⟨fun _ => hfin, fun hc => by omega⟩
    · exact h.others x hx hu
  have hclose : closeIdleBelow (r.s.strms.length + 1) r fr.stream = r := by
    simp only [closeIdleBelow]
    cases hl : r.s.strms with
    | nil => rfl
    | cons n rest =>
      have hn := (hall n (by rw [hl]; simp)).2
      simp only
      have : (decide (n.id < fr.stream) && n.state == StState.idle && n.origType == Gen.c_FrameHeaders) = false := by
        cases hc : (decide (n.id < fr.stream) && n.state == StState.idle && n.origType == Gen.c_FrameHeaders)
        · rfl
        · simp only [Bool.and_eq_true, decide_eq_true_eq, beq_iff_eq] at hc
          exact absurd ⟨hc.1.1, hc.1.2, hc.2⟩ hn
      simp [this]
  simp only [headersPrelude]
  split
  · cases hgp : getPrevious r.s.strms with
    | none => simp [hclose]
    | some n =>
      obtain ⟨hm, ho⟩ := getPrevious_mem _ _ hgp
      have := (hall n hm).1 ho
      simp [this, hclose]
  · rfl

/-! ## `handleFrame`, explicitly -/

theorem hf_block (r : R) (uid : Nat) (fr : Frame) (st : Strm) (O : Strm → Prop) (ht : Tbl r uid st O)
    (htyp : fr.typ = Gen.c_FrameHeaders) (hst : st.state = .idle ∨ st.state = .open)
    (heh : Frame.hasFlag fr.flags Gen.c_FlagEndHeaders = true)
    (s1 : Srv) (st1 : Strm) (e1 : Option SErr) (hX : handleHeaderFrame r.s st fr = (s1, st1, e1)) :
    match e1 with
    | some e => (handleFrame r uid fr).2 = some e ∧ Tbl (handleFrame r uid fr).1 uid st1 O ∧ (handleFrame r uid fr).1.out = r.out
    | none =>
      (handleFrame r uid fr).2 = (if st1.prevHdr.isEmpty then validatePseudo st1
        else some (.goAway Gen.c_ProtocolError "END_HEADERS received on an incomplete stream")) ∧
      Tbl (handleFrame r uid fr).1 uid { st1 with headersFinished := st1.prevHdr.isEmpty } O ∧
      (handleFrame r uid fr).1.out = r.out ∧ (handleFrame r uid fr).1.s.dec = s1.dec ∧ (handleFrame r uid fr).1.s.cfg = s1.cfg := by
  have kk := handleHeaderFrame_keeps r.s st fr
  rw [hX] at kk
  simp only at kk
  have hu1 : st1.uid = uid := by
    have : st1.uid = st.uid := congrArg (fun (x : Sk × Sk2) => x.1.1) kk.2.2.2
    rw [this]; exact ht.uid
  have t0 : Tbl ({ r with s := s1 } : R) uid st O := ht.congr kk.1
  have t1 := t0.upd (fun _ => st1) (fun _ _ => hu1)
  have e0 : (Gen.c_FrameHeaders == Gen.c_FrameHeaders) = true := rfl
  have e2 : (Gen.c_FrameHeaders != Gen.c_FrameHeaders && Gen.c_FrameHeaders != Gen.c_FramePriority) = false := rfl
  have hF : handleFrame r uid fr =
      match e1 with
      | some e => (({ r with s := s1 } : R).updStrm uid fun _ => st1, some e)
      | none =>
        ((({ r with s := s1 } : R).updStrm uid fun _ => st1).updStrm uid fun s => { s with headersFinished := st1.prevHdr.isEmpty },
         if st1.prevHdr.isEmpty then validatePseudo st1
         else some (.goAway Gen.c_ProtocolError "END_HEADERS received on an incomplete stream")) := by
    rcases hst with h | h
    · have hrank : (decide (StState.idle.rank ≥ StState.halfClosed.rank)) = false := by decide
      simp only [handleFrame, ht.get, verifyState, h, htyp, e0, e2, hX, heh, Bool.true_or, if_true, hrank, Bool.false_and,
        Bool.false_eq_true, if_false]
      cases e1 with
      | some e => rfl
      | none => cases hp : st1.prevHdr.isEmpty <;> simp [hp]
    · have hrank : (decide (StState.open.rank ≥ StState.halfClosed.rank)) = false := by decide
      simp only [handleFrame, ht.get, verifyState, h, htyp, e0, hX, heh, Bool.true_or, if_true, hrank, Bool.false_and,
        Bool.false_eq_true, if_false]
      cases e1 with
      | some e => rfl
      | none => cases hp : st1.prevHdr.isEmpty <;> simp [hp]
  rw [hF]
  cases e1 with
  | some e => exact ⟨rfl, t1, rfl⟩
  | none => exact ⟨rfl, t1.upd _ (fun x hx => hx), rfl, rfl, rfl⟩

theorem consumeConnWindow_keeps (r : R) (n : Nat) :
    (consumeConnWindow r n).s.strms = r.s.strms ∧ (consumeConnWindow r n).s.dec = r.s.dec ∧
    (consumeConnWindow r n).s.cfg = r.s.cfg ∧ sig (consumeConnWindow r n).out = sig r.out := by
  simp only [consumeConnWindow]
  repeat' split
  all_goals simp [sig, R.emit, isWU]

theorem consumeRecvWindow_keeps (r : R) (st : Strm) (fr : Frame) (n : Nat) :
    (consumeRecvWindow r st fr n).s.strms = r.s.strms ∧ (consumeRecvWindow r st fr n).s.dec = r.s.dec ∧
    (consumeRecvWindow r st fr n).s.cfg = r.s.cfg ∧ sig (consumeRecvWindow r st fr n).out = sig r.out := by
  simp only [consumeRecvWindow]
  split
  · exact ⟨rfl, rfl, rfl, rfl⟩
  · split
    · obtain ⟨a, b, c, d⟩ := consumeConnWindow_keeps (r.emit (.wu st.id n)) n
      exact ⟨a, b, c, by rw [d]; simp [sig, R.emit, isWU]⟩
    · exact consumeConnWindow_keeps r n

/-- a DATA frame on an open stream whose header block is finished: the octets are counted; over `maxBody` the stream is
refused with ENHANCE_YOUR_CALM, otherwise the frame is accepted (only WINDOW_UPDATEs go out) -/
theorem hf_data (r : R) (uid : Nat) (fr : Frame) (st : Strm) (O : Strm → Prop) (ht : Tbl r uid st O)
    (htyp : fr.typ = Gen.c_FrameData) (es : Bool) (d : Bytes) (hb : fr.body = .data es d)
    (hfin : st.headersFinished = true) (hst : st.state = .open) :
    if 0 < r.s.cfg.maxBody ∧ r.s.cfg.maxBody < st.recvBody + d.length then
      (handleFrame r uid fr).2 = some (.reset Gen.c_EnhanceYourCalm) ∧
      Tbl (handleFrame r uid fr).1 uid { st with recvBody := st.recvBody + d.length } O ∧
      sig (handleFrame r uid fr).1.out = sig r.out
    else
      (handleFrame r uid fr).2 = none ∧
      Tbl (handleFrame r uid fr).1 uid { st with recvBody := st.recvBody + d.length, body := st.body.add d } O ∧
      sig (handleFrame r uid fr).1.out = sig r.out ∧ (handleFrame r uid fr).1.s.dec = r.s.dec ∧
      (handleFrame r uid fr).1.s.cfg = r.s.cfg := by
  have e1 : (Gen.c_FrameData == Gen.c_FrameHeaders) = false := rfl
  have e2 : (Gen.c_FrameData == Gen.c_FrameContinuation) = false := rfl
  have hrank : ¬ (st.state.rank ≥ StState.halfClosed.rank) := by rw [hst]; decide
  have hv : verifyState st fr = none := by simp [verifyState, hst]
  have hfin' : (!st.headersFinished) = false := by rw [hfin]; rfl
  have hu := ht.uid
  have t1 := ht.upd (fun _ => { st with recvBody := st.recvBody + d.length }) (fun _ _ => hu)
  have t2 := t1.upd (fun s => { s with body := s.body.add d }) (fun x hx => hx)
  simp only [handleFrame, ht.get, hv, htyp, e1, e2, hb, Bool.or_self, Bool.false_eq_true, if_false, hfin',
    beq_self_eq_true, if_true, hrank]
  by_cases hc : 0 < r.s.cfg.maxBody ∧ r.s.cfg.maxBody < st.recvBody + d.length
  · have hc' : (decide ((r.updStrm uid fun _ => { st with recvBody := st.recvBody + d.length }).s.cfg.maxBody > 0) &&
        decide (st.recvBody + d.length > (r.updStrm uid fun _ => { st with recvBody := st.recvBody + d.length }).s.cfg.maxBody)) = true := by
      simp only [R.updStrm, Bool.and_eq_true, decide_eq_true_eq]; exact hc
    simp only [hc, and_self, if_true, hc']
    obtain ⟨a, _, _, dd⟩ := consumeConnWindow_keeps (r.updStrm uid fun _ => { st with recvBody := st.recvBody + d.length }) fr.length
    exact ⟨trivial, t1.congr a, dd⟩
  · have hc' : (decide ((r.updStrm uid fun _ => { st with recvBody := st.recvBody + d.length }).s.cfg.maxBody > 0) &&
        decide (st.recvBody + d.length > (r.updStrm uid fun _ => { st with recvBody := st.recvBody + d.length }).s.cfg.maxBody)) = false := by
      cases hx : (decide ((r.updStrm uid fun _ => { st with recvBody := st.recvBody + d.length }).s.cfg.maxBody > 0) &&
        decide (st.recvBody + d.length > (r.updStrm uid fun _ => { st with recvBody := st.recvBody + d.length }).s.cfg.maxBody))
      · rfl
      · simp only [R.updStrm, Bool.and_eq_true, decide_eq_true_eq] at hx; exact absurd hx hc
    simp only [hc, if_false, hc', Bool.false_eq_true]
    obtain ⟨a, b, c, dd⟩ := consumeRecvWindow_keeps
      ((r.updStrm uid fun _ => { st with recvBody := st.recvBody + d.length }).updStrm uid fun s => { s with body := s.body.add d })
      { st with recvBody := st.recvBody + d.length } fr fr.length
    exact ⟨trivial, t2.congr a, dd, b, c⟩

/-- a HEADERS frame with END_HEADERS whose fragment is the whole block (request block or trailer block), once
`handleHeaderFrame` is known to be the loop on `stp` (`hhf_headers` / `hhf_trailers`): the outcome of `handleFrame` in terms
of `Msg.loop` over the decoded fields -/
theorem block_frame (r : R) (uid : Nat) (fr : Frame) (st stp : Strm) (O : Strm → Prop) (ht : Tbl r uid st O)
    (htyp : fr.typ = Gen.c_FrameHeaders) (hst : st.state = .idle ∨ st.state = .open)
    (heh : Frame.hasFlag fr.flags Gen.c_FlagEndHeaders = true) (frag : Bytes)
    (hhf : handleHeaderFrame r.s st fr = fieldLoop (frag.length + 1) r.s stp true true 0 frag)
    (hctl : stp.ctl = st.ctl) (hgood : stp.Good) (hprev : stp.prevHdr = [])
    (fs : List Hpack.Field) (d : Hpack.DecState) (hdec : decRun (frag.length + 1) r.s.dec true 0 frag = (fs, .clean d)) :
    match Msg.loop (cfgOf r.s.cfg) (msgSt stp) (fs.map kv) with
    | .error v => ∃ e st1, (handleFrame r uid fr).2 = some e ∧ absErr e = v ∧ Tbl (handleFrame r uid fr).1 uid st1 O ∧
        st1.ctl = st.ctl ∧ (handleFrame r uid fr).1.out = r.out
    | .ok m => ∃ st1, (handleFrame r uid fr).2 = validatePseudo st1 ∧
        Tbl (handleFrame r uid fr).1 uid { st1 with headersFinished := true } O ∧ msgSt st1 = m ∧ st1.ctl = st.ctl ∧
        st1.Good ∧ (handleFrame r uid fr).1.out = r.out ∧ (handleFrame r uid fr).1.s.dec = d ∧
        (handleFrame r uid fr).1.s.cfg = r.s.cfg := by
  have hfin := fieldLoop_final (frag.length + 1) r.s stp true 0 frag hgood.1
  obtain ⟨kc, kg, kcfg⟩ := fieldLoop_ctl (frag.length + 1) r.s stp true true 0 frag
  have hstate := fieldLoop_state (frag.length + 1) r.s stp true true 0 frag
  rw [hdec] at hfin hstate
  simp only [specC, coarse, Tail.fin] at hfin hstate
  rcases hX : fieldLoop (frag.length + 1) r.s stp true true 0 frag with ⟨s1, st1, e1⟩
  rw [hX] at hfin kc kg kcfg hstate hhf
  simp only at kc kg kcfg hstate
  have hb := hf_block r uid fr st O ht htyp hst heh s1 st1 e1 hhf
  cases hl : Msg.loop (cfgOf r.s.cfg) (msgSt stp) (fs.map kv) with
  | error v =>
    simp only [hl] at hfin
    cases e1 with
    | none => simp [absFin] at hfin
    | some e =>
      simp only [absFin, Except.error.injEq] at hfin
      simp only at hb
      exact ⟨e, st1, hb.1, hfin, hb.2.1, kc.trans hctl, hb.2.2⟩
  | ok m =>
    simp only [hl] at hfin
    cases e1 with
    | some e => simp [absFin] at hfin
    | none =>
      simp only [absFin, Except.ok.injEq, Prod.mk.injEq] at hfin
      have hp : st1.prevHdr = [] := by rw [(hstate rfl).2.1]; exact hprev
      have hpe : st1.prevHdr.isEmpty = true := by rw [hp]; rfl
      simp only at hb
      rw [hpe] at hb
      simp only [if_true] at hb
      exact ⟨st1, hb.1, hb.2.1, hfin.1, kc.trans hctl, kg hgood, hb.2.2.1, by rw [hb.2.2.2.1]; exact hfin.2,
        by rw [hb.2.2.2.2]; exact kcfg⟩

/-! ## the message model, clause by clause -/

theorem validate_hs_error (cfg : Msg.Cfg) (hs tr : List MsgSpec.Field) (n : Nat) (v : Msg.Verdict)
    (h : Msg.loop cfg Msg.St.init hs = .error v) : Msg.validate cfg hs tr n = v := by
  simp [Msg.validate, Msg.message, h]

theorem validate_pseudo (cfg : Msg.Cfg) (hs tr : List MsgSpec.Field) (n : Nat) (m : Msg.St)
    (h : Msg.loop cfg Msg.St.init hs = .ok m) (hp : Msg.pseudoOK m = false) : Msg.validate cfg hs tr n = Msg.eProtocol := by
  simp [Msg.validate, Msg.message, h, hp]

theorem validate_body (cfg : Msg.Cfg) (hs tr : List MsgSpec.Field) (n : Nat) (m : Msg.St)
    (h : Msg.loop cfg Msg.St.init hs = .ok m) (hp : Msg.pseudoOK m = true) (hb : 0 < cfg.maxBody ∧ cfg.maxBody < n) :
    Msg.validate cfg hs tr n = Msg.eTooLarge := by
  simp [Msg.validate, Msg.message, h, hp, hb]

theorem validate_tr_error (cfg : Msg.Cfg) (hs tr : List MsgSpec.Field) (n : Nat) (m : Msg.St) (v : Msg.Verdict)
    (h : Msg.loop cfg Msg.St.init hs = .ok m) (hp : Msg.pseudoOK m = true) (hb : ¬ (0 < cfg.maxBody ∧ cfg.maxBody < n))
    (ht : Msg.loop cfg (Msg.startTrailers m) tr = .error v) : Msg.validate cfg hs tr n = v := by
  simp only [Msg.validate, Msg.message, h, hp, Bool.not_true, Bool.false_eq_true, if_false, hb, ht]

theorem validate_end (cfg : Msg.Cfg) (hs tr : List MsgSpec.Field) (n : Nat) (m mt : Msg.St)
    (h : Msg.loop cfg Msg.St.init hs = .ok m) (hp : Msg.pseudoOK m = true) (hb : ¬ (0 < cfg.maxBody ∧ cfg.maxBody < n))
    (ht : Msg.loop cfg (Msg.startTrailers m) tr = .ok mt) :
    Msg.validate cfg hs tr n = lastClause mt n ∧ (lastClause mt n = .dispatch → Msg.requestView cfg hs tr n = some mt.view) := by
  simp only [Msg.validate, Msg.requestView, Msg.message, h, hp, Bool.not_true, Bool.false_eq_true, if_false, hb, ht, lastClause]
  refine ⟨trivial, ?_⟩
  intro hd
  split
  · rename_i hc; simp [hc] at hd; cases hd
  · rfl

/-! ## the frames of one request, up to the first that is answered -/

/-- the loop body over consecutive frames of stream `uid`, up to and including the first frame that is answered with
anything but WINDOW_UPDATE (a dispatch record, RST_STREAM, GOAWAY) -/
def runReq (r : R) (uid : Nat) : List Frame → R
  | [] => r
  | fr :: frs =>
    if (sig (knownStream r uid fr false).out).length == (sig r.out).length then runReq (knownStream r uid fr false) uid frs
    else knownStream r uid fr false

def payloadLen (fr : Frame) : Nat := match fr.body with | .data _ b => b.length | _ => 0

def tot (ds : List Frame) : Nat := (ds.map payloadLen).sum

/-- a DATA frame without END_STREAM -/
def PlainData (fr : Frame) : Prop :=
  fr.typ = Gen.c_FrameData ∧ (∃ es d, fr.body = .data es d) ∧ Frame.hasFlag fr.flags Gen.c_FlagEndStream = false

theorem headersPrelude_other (r : R) (fr : Frame) (h : fr.typ ≠ Gen.c_FrameHeaders) : headersPrelude r fr = (r, true) := by
  simp [headersPrelude, h]

theorem handleState_data_open (fr : Frame) (st : Strm) (ht : fr.typ = Gen.c_FrameData) (hs : st.state = .open)
    (hes : Frame.hasFlag fr.flags Gen.c_FlagEndStream = false) : handleState fr st = st := by
  have e1 : (Gen.c_FrameData == Gen.c_FrameResetStream) = false := rfl
  simp [handleState, ht, e1, hs, hes]

theorem sig_len_snoc (a : List Out) (o : Out) (h : isWU o = false) (b : List Out) (hb : sig b = sig a) :
    ((sig (b ++ [o])).length == (sig a).length) = false := by
  have : sig [o] = [o] := by simp [sig, h]
  rw [sig_append, hb, this]
  simp

/-- **DATA frames without END_STREAM**: either one of them takes the octet count over `maxBody` — answered RST_STREAM(ENHANCE_YOUR_CALM)
— or they are all counted and the run goes on with the frames behind them -/
theorem data_frames (uid : Nat) (O : Strm → Prop) (rest : List Frame) : ∀ (ds : List Frame) (r : R) (st : Strm),
    Tbl r uid st O → (∀ fr ∈ ds, PlainData fr) → st.headersFinished = true → st.state = .open → st.responded = false →
    ¬ (0 < r.s.cfg.maxBody ∧ r.s.cfg.maxBody < st.recvBody) →
    (sig (runReq r uid (ds ++ rest)).out = sig r.out ++ [.rst st.id Gen.c_EnhanceYourCalm] ∧
      (0 < r.s.cfg.maxBody ∧ r.s.cfg.maxBody < st.recvBody + tot ds)) ∨
    (¬ (0 < r.s.cfg.maxBody ∧ r.s.cfg.maxBody < st.recvBody + tot ds) ∧
      ∃ r' st', runReq r uid (ds ++ rest) = runReq r' uid rest ∧ Tbl r' uid st' O ∧
        st' = { st with recvBody := st.recvBody + tot ds, body := st'.body } ∧
        sig r'.out = sig r.out ∧ r'.s.dec = r.s.dec ∧ r'.s.cfg = r.s.cfg) := by
  intro ds
  induction ds with
  | nil =>
    intro r st ht _ _ _ _ h0
    exact .inr ⟨by simpa [tot] using h0, r, st, rfl, ht, by simp [tot], rfl, rfl, rfl⟩
  | cons fr ds ih =>
    intro r st ht hds hfin hst hresp h0
    obtain ⟨htyp, ⟨es, d, hb⟩, hes⟩ := hds fr (by simp)
    have hne : fr.typ ≠ Gen.c_FrameHeaders := by rw [htyp]; decide
    have hp := headersPrelude_other r fr hne
    have hd := hf_data r uid fr st O ht htyp es d hb hfin hst
    have hpl : payloadLen fr = d.length := by simp [payloadLen, hb]
    by_cases hc : 0 < r.s.cfg.maxBody ∧ r.s.cfg.maxBody < st.recvBody + d.length
    · simp only [hc, and_self, if_true] at hd
      obtain ⟨h1, h2, h3⟩ := hd
      have hk := knownStream_refused r uid fr _ _ hp h1 h2.get hresp
      left
      have hlen := sig_len_snoc r.out (errOut (handleFrame r uid fr).1 { st with recvBody := st.recvBody + d.length } (.reset Gen.c_EnhanceYourCalm))
        rfl _ h3
      rw [← hk] at hlen
      simp only [List.cons_append, runReq, hlen, Bool.false_eq_true, if_false]
      refine ⟨by rw [hk, sig_append, h3]; rfl, hc.1, ?_⟩
      simp only [tot, List.map_cons, List.sum_cons, hpl]
      have := hc.2
      omega
    · simp only [hc, if_false] at hd
      obtain ⟨h1, h2, h3, h4, h5⟩ := hd
      have hS : handleState fr { st with recvBody := st.recvBody + d.length, body := st.body.add d } =
          { st with recvBody := st.recvBody + d.length, body := st.body.add d } := handleState_data_open fr _ htyp hst hes
      have hpend : Pending (handleState fr { st with recvBody := st.recvBody + d.length, body := st.body.add d }) := by
        rw [hS]
        exact ⟨hresp, by simp [hst], by simp [hst]⟩
      obtain ⟨k1, k2⟩ := knownStream_pending r uid fr _ O hp h1 h2 hpend
      rw [hS] at k2
      have kout : (knownStream r uid fr false).out = (handleFrame r uid fr).1.out := by rw [k1]; rfl
      have kdec : (knownStream r uid fr false).s.dec = r.s.dec := by rw [k1]; exact h4
      have kcfg : (knownStream r uid fr false).s.cfg = r.s.cfg := by rw [k1]; exact h5
      have hlen : ((sig (knownStream r uid fr false).out).length == (sig r.out).length) = true := by
        rw [kout, h3]; simp
      simp only [List.cons_append, runReq, hlen, if_true]
      have h0' : ¬ (0 < (knownStream r uid fr false).s.cfg.maxBody ∧
          (knownStream r uid fr false).s.cfg.maxBody < ({ st with recvBody := st.recvBody + d.length, body := st.body.add d } : Strm).recvBody) := by
        rw [kcfg]; exact hc
      have := ih (knownStream r uid fr false) _ k2 (fun f hf => hds f (by simp [hf])) hfin hst hresp h0'
      rw [kcfg] at this
      have htot : st.recvBody + tot (fr :: ds) = st.recvBody + d.length + tot ds := by
        simp only [tot, List.map_cons, List.sum_cons, hpl]; omega
      rw [htot]
      rcases this with ⟨a, b⟩ | ⟨a, r', st', b1, b2, b3, b4, b5, b6⟩
      · left
        refine ⟨?_, b⟩
        rw [a, kout, h3]
      · right
        refine ⟨a, r', st', b1, b2, ?_, ?_, ?_, ?_⟩
        · rw [b3]
        · rw [b4, kout, h3]
        · rw [b5, kdec]
        · rw [b6]

/-- the output `o` is the answer the verdict `v` of the message model calls for, on stream `sid` -/
def Answers (sid : Nat) (o : Out) : Msg.Verdict → Prop
  | .rst c => o = .rst sid c
  | .goAway c => ∃ l t, o = .goAway l c t
  | .dispatch => False

theorem errOut_answers (r : R) (st : Strm) (e : SErr) : Answers st.id (errOut r st e) (absErr e) := by
  cases e with
  | reset c => rfl
  | goAway c t => exact ⟨_, _, rfl⟩

theorem errOut_notWU (r : R) (st : Strm) (e : SErr) : isWU (errOut r st e) = false := by cases e <;> rfl

theorem runReq_refused (r : R) (uid : Nat) (fr : Frame) (rest : List Frame) (st1 : Strm) (e : SErr) (O : Strm → Prop)
    (hp : headersPrelude r fr = (r, true)) (he : (handleFrame r uid fr).2 = some e)
    (ht : Tbl (handleFrame r uid fr).1 uid st1 O) (hresp : st1.responded = false)
    (hout : sig (handleFrame r uid fr).1.out = sig r.out) :
    sig (runReq r uid (fr :: rest)).out = sig r.out ++ [errOut (handleFrame r uid fr).1 st1 e] := by
  have hk := knownStream_refused r uid fr st1 e hp he ht.get hresp
  have hlen := sig_len_snoc r.out _ (errOut_notWU (handleFrame r uid fr).1 st1 e) _ hout
  rw [← hk] at hlen
  simp only [runReq, hlen, Bool.false_eq_true, if_false]
  rw [hk, sig_append, hout]
  simp [sig, errOut_notWU]

theorem ctl_fields {a b : Strm} (h : a.ctl = b.ctl) :
    a.uid = b.uid ∧ a.id = b.id ∧ a.state = b.state ∧ a.recvBody = b.recvBody ∧ a.headersFinished = b.headersFinished ∧
    a.responded = b.responded ∧ a.body = b.body := by
  simp only [Strm.ctl, Ctl.mk.injEq] at h
  exact ⟨h.1, h.2.1, h.2.2.2.1, h.2.2.2.2.2.1, h.2.2.2.2.2.2.1, h.2.2.2.2.2.2.2.1, h.2.2.2.2.2.2.2.2.2.1⟩

/-- the stream after the request's header block has been accepted and before END_STREAM -/
structure Body (st0 st1 : Strm) (m : Msg.St) : Prop where
  fin : st1.headersFinished = true
  state : st1.state = .open
  resp : st1.responded = false
  msg : msgSt st1 = m
  good : st1.Good
  id : st1.id = st0.id

/-- **the HEADERS frame of the request** (END_HEADERS, no END_STREAM) on a fresh stream -/
theorem request_headers (r : R) (uid : Nat) (fr : Frame) (rest : List Frame) (st : Strm) (O : Strm → Prop) (es : Bool)
    (prio : Option (Nat × Nat)) (frag : Bytes)
    (ht : Tbl r uid st O) (hf : Fresh st) (htyp : fr.typ = Gen.c_FrameHeaders)
    (hb : fr.body = .headers es true prio frag) (heh : Frame.hasFlag fr.flags Gen.c_FlagEndHeaders = true)
    (hes : Frame.hasFlag fr.flags Gen.c_FlagEndStream = false)
    (hprio : ∀ dep w, prio = some (dep, w) → (dep == st.id) = false)
    (hp : headersPrelude r fr = (r, true))
    (fs : List Hpack.Field) (d : Hpack.DecState) (hdec : decRun (frag.length + 1) r.s.dec true 0 frag = (fs, .clean d)) :
    match Msg.loop (cfgOf r.s.cfg) Msg.St.init (fs.map kv) with
    | .error v => ∃ o, sig (runReq r uid (fr :: rest)).out = sig r.out ++ [o] ∧ Answers st.id o v
    | .ok m =>
      if Msg.pseudoOK m then
        ∃ r1 st1, runReq r uid (fr :: rest) = runReq r1 uid rest ∧ Tbl r1 uid st1 O ∧ Body st st1 m ∧ st1.recvBody = 0 ∧
          sig r1.out = sig r.out ∧ r1.s.dec = d ∧ r1.s.cfg = r.s.cfg
      else sig (runReq r uid (fr :: rest)).out = sig r.out ++ [.rst st.id Gen.c_ProtocolError] := by
  have hh := hhf_headers r.s st fr es true prio frag hb hf.fin hprio
  rw [hf.prev] at hh
  simp only [List.nil_append] at hh
  have hgood0 : Strm.Good { st with fieldSeen := false, prevHdr := [] } := by
    refine ⟨?_, ?_⟩
    · show 0 ≤ st.contentLength
      rw [hf.cl]; exact Int.le_refl 0
    · show st.uri = st.path
      have : (msgSt st).path = [] := by rw [hf.msg]; rfl
      rw [hf.uri]; exact this.symm
  have hbf := block_frame r uid fr st { st with fieldSeen := false, prevHdr := [] } O ht htyp (.inl hf.state) heh frag hh rfl
    hgood0 rfl fs d hdec
  have hm0 : msgSt { st with fieldSeen := false, prevHdr := [] } = Msg.St.init := hf.msg
  rw [hm0] at hbf
  cases hl : Msg.loop (cfgOf r.s.cfg) Msg.St.init (fs.map kv) with
  | error v =>
    simp only [hl] at hbf ⊢
    obtain ⟨e, st1, h1, h2, h3, h4, h5⟩ := hbf
    have c := ctl_fields h4
    refine ⟨_, runReq_refused r uid fr rest st1 e O hp h1 h3 (c.2.2.2.2.2.1.trans hf.resp) (by rw [h5]), ?_⟩
    rw [← h2, ← c.2.1]
    exact errOut_answers _ _ _
  | ok m =>
    simp only [hl] at hbf ⊢
    obtain ⟨st1, h1, h2, h3, h4, h5, h6, h7, h8⟩ := hbf
    have c := ctl_fields h4
    rw [validatePseudo_msg, h3] at h1
    cases hps : Msg.pseudoOK m
    · simp only [hps, Bool.false_eq_true, if_false] at h1 ⊢
      have := runReq_refused r uid fr rest _ _ O hp h1 h2 (c.2.2.2.2.2.1.trans hf.resp) (by rw [h6])
      rw [this]
      simp only [errOut]
      rw [show st1.id = st.id from c.2.1]
    · simp only [hps, if_true] at h1 ⊢
      have hst1 : st1.state = .idle := c.2.2.1.trans hf.state
      have e0 : (Gen.c_FrameHeaders == Gen.c_FrameResetStream) = false := rfl
      have hstate : (handleState fr { st1 with headersFinished := true }).state = .open := by
        simp [handleState, htyp, e0, hst1, hes]
      have hS := handleState_eq fr { st1 with headersFinished := true }
      rw [hstate] at hS
      have hresp1 : st1.responded = false := c.2.2.2.2.2.1.trans hf.resp
      have hpend : Pending (handleState fr { st1 with headersFinished := true }) := by
        rw [hS]; exact ⟨hresp1, by simp, by simp⟩
      obtain ⟨k1, k2⟩ := knownStream_pending r uid fr _ O hp h1 h2 hpend
      rw [hS] at k2
      have kout : (knownStream r uid fr false).out = r.out := by rw [k1]; exact h6
      have hlen : ((sig (knownStream r uid fr false).out).length == (sig r.out).length) = true := by rw [kout]; simp
      refine ⟨knownStream r uid fr false, _, by simp only [runReq, hlen, if_true], k2,
        ⟨rfl, rfl, hresp1, h3, h5, c.2.1⟩, c.2.2.2.1.trans hf.recv, by rw [kout], by rw [k1]; exact h7, by rw [k1]; exact h8⟩

theorem runReq_single (r : R) (uid : Nat) (fr : Frame) : runReq r uid [fr] = knownStream r uid fr false := by
  simp only [runReq]
  split <;> rfl

def over (cfg : Server.Cfg) (n : Nat) : Prop := 0 < cfg.maxBody ∧ cfg.maxBody < n

instance (cfg : Server.Cfg) (n : Nat) : Decidable (over cfg n) := by unfold over; exact inferInstance

/-- **the DATA frame that carries END_STREAM** -/
theorem last_data (r : R) (uid : Nat) (fr : Frame) (st0 st : Strm) (m : Msg.St) (O : Strm → Prop) (ht : Tbl r uid st O)
    (hB : Body st0 st m) (htyp : fr.typ = Gen.c_FrameData) (es : Bool) (d : Bytes) (hb : fr.body = .data es d)
    (hes : Frame.hasFlag fr.flags Gen.c_FlagEndStream = true) :
    if over r.s.cfg (st.recvBody + d.length) then
      sig (runReq r uid [fr]).out = sig r.out ++ [.rst st.id Gen.c_EnhanceYourCalm]
    else
      sig (runReq r uid [fr]).out = sig r.out ++
        [match lastClause m (st.recvBody + d.length) with
         | .dispatch => dispOut st.id m.view (st.body.add d)
         | _ => .rst st.id Gen.c_ProtocolError] := by
  have hne : fr.typ ≠ Gen.c_FrameHeaders := by rw [htyp]; decide
  have hp := headersPrelude_other r fr hne
  have hd := hf_data r uid fr st O ht htyp es d hb hB.fin hB.state
  by_cases hc : over r.s.cfg (st.recvBody + d.length)
  · have hc' : 0 < r.s.cfg.maxBody ∧ r.s.cfg.maxBody < st.recvBody + d.length := hc
    simp only [hc', and_self, if_true] at hd
    simp only [hc, if_true]
    have := runReq_refused r uid fr [] _ _ O hp hd.1 hd.2.1 hB.resp hd.2.2
    exact this
  · have hc' : ¬ (0 < r.s.cfg.maxBody ∧ r.s.cfg.maxBody < st.recvBody + d.length) := hc
    simp only [hc', if_false] at hd
    simp only [hc, if_false]
    obtain ⟨h1, h2, h3, _, _⟩ := hd
    have e1 : (Gen.c_FrameData == Gen.c_FrameResetStream) = false := rfl
    have e2 : (Gen.c_FrameData == Gen.c_FrameData) = true := rfl
    have hstate : (handleState fr { st with recvBody := st.recvBody + d.length, body := st.body.add d }).state = .halfClosed := by
      simp [handleState, htyp, e1, hB.state, hes]
    have hS := handleState_eq fr { st with recvBody := st.recvBody + d.length, body := st.body.add d }
    rw [hstate] at hS
    have hk := knownStream_decides r uid fr _ hp h1 h2.get (by rw [hS]; exact ⟨rfl, hB.fin, hB.resp⟩) (by rw [hS]; exact hB.good)
    rw [hS] at hk
    rw [runReq_single, hk, sig_append, h3]
    have hm : msgSt ({ st with recvBody := st.recvBody + d.length, body := st.body.add d, state := StState.halfClosed } : Strm) = m := hB.msg
    rw [hm]
    simp only
    cases lastClause m (st.recvBody + d.length) <;> simp [sig, isWU, dispOut]

/-- **the long shape without trailers**: `HEADERS(END_HEADERS), DATA*, DATA(END_STREAM)` on a fresh stream, frame after frame
through the body of the stream loop: exactly one answer besides WINDOW_UPDATEs — the dispatch record with
`Msg.requestView` iff `Msg.validate hs [] dataLen = .dispatch`, otherwise the RST_STREAM / GOAWAY `Msg.validate` calls for -/
theorem long_request_data (r : R) (uid : Nat) (frH frL : Frame) (ds : List Frame) (st : Strm) (O : Strm → Prop) (es es' : Bool)
    (prio : Option (Nat × Nat)) (frag dL : Bytes)
    (ht : Tbl r uid st O) (hf : Fresh st) (htyp : frH.typ = Gen.c_FrameHeaders)
    (hb : frH.body = .headers es true prio frag) (heh : Frame.hasFlag frH.flags Gen.c_FlagEndHeaders = true)
    (hes : Frame.hasFlag frH.flags Gen.c_FlagEndStream = false)
    (hprio : ∀ dep w, prio = some (dep, w) → (dep == st.id) = false)
    (hp : headersPrelude r frH = (r, true))
    (fs : List Hpack.Field) (d : Hpack.DecState) (hdec : decRun (frag.length + 1) r.s.dec true 0 frag = (fs, .clean d))
    (hds : ∀ fr ∈ ds, PlainData fr)
    (hLt : frL.typ = Gen.c_FrameData) (hLb : frL.body = .data es' dL) (hLe : Frame.hasFlag frL.flags Gen.c_FlagEndStream = true) :
    ∃ o, sig (runReq r uid (frH :: (ds ++ [frL]))).out = sig r.out ++ [o] ∧
      match Msg.validate (cfgOf r.s.cfg) (fs.map kv) [] (tot ds + dL.length) with
      | .dispatch => ∃ v body, Msg.requestView (cfgOf r.s.cfg) (fs.map kv) [] (tot ds + dL.length) = some v ∧ o = dispOut st.id v body
      | w => Answers st.id o w := by
  have hH := request_headers r uid frH (ds ++ [frL]) st O es prio frag ht hf htyp hb heh hes hprio hp fs d hdec
  cases hl : Msg.loop (cfgOf r.s.cfg) Msg.St.init (fs.map kv) with
  | error v =>
    simp only [hl] at hH
    obtain ⟨o, h1, h2⟩ := hH
    refine ⟨o, h1, ?_⟩
    rw [validate_hs_error _ _ _ _ v hl]
    cases v <;> first | exact h2 | exact h2.elim
  | ok m =>
    simp only [hl] at hH
    cases hps : Msg.pseudoOK m
    · simp only [hps, Bool.false_eq_true, if_false] at hH
      refine ⟨_, hH, ?_⟩
      rw [validate_pseudo _ _ _ _ m hl hps]
      rfl
    · simp only [hps, if_true] at hH
      obtain ⟨r1, st1, h1, h2, hB, h4, h5, h6, h7⟩ := hH
      have h0 : ¬ (0 < r1.s.cfg.maxBody ∧ r1.s.cfg.maxBody < st1.recvBody) := by rw [h4]; omega
      rcases data_frames uid O [frL] ds r1 st1 h2 hds hB.fin hB.state hB.resp h0 with ⟨a, b⟩ | ⟨a, r2, st2, b1, b2, b3, b4, b5, b6⟩
      · rw [h7, h4] at b
        refine ⟨_, by rw [h1, a, h5], ?_⟩
        have hov : 0 < (cfgOf r.s.cfg).maxBody ∧ (cfgOf r.s.cfg).maxBody < tot ds + dL.length := by
          simp only [cfgOf]; omega
        rw [validate_body _ _ _ _ m hl hps hov, hB.id]
        rfl
      · have hB2 : Body st st2 m := by
          rw [b3]
          exact ⟨hB.fin, hB.state, hB.resp, hB.msg, hB.good, hB.id⟩
        have hrecv : st2.recvBody = tot ds := by rw [b3]; simp [h4]
        have hL := last_data r2 uid frL st st2 m O b2 hB2 hLt es' dL hLb hLe
        rw [hrecv, b6, h7] at hL
        rw [h7, h4] at a
        by_cases hc : over r.s.cfg (tot ds + dL.length)
        · simp only [hc, if_true] at hL
          refine ⟨_, by rw [h1, b1, hL, b4, h5], ?_⟩
          have hov : 0 < (cfgOf r.s.cfg).maxBody ∧ (cfgOf r.s.cfg).maxBody < tot ds + dL.length := hc
          rw [validate_body _ _ _ _ m hl hps hov, hB2.id]
          rfl
        · simp only [hc, if_false] at hL
          refine ⟨_, by rw [h1, b1, hL, b4, h5], ?_⟩
          have hnov : ¬ (0 < (cfgOf r.s.cfg).maxBody ∧ (cfgOf r.s.cfg).maxBody < tot ds + dL.length) := hc
          have hve := validate_end (cfgOf r.s.cfg) (fs.map kv) [] (tot ds + dL.length) m (Msg.startTrailers m) hl hps hnov rfl
          have hlc : lastClause (Msg.startTrailers m) (tot ds + dL.length) = lastClause m (tot ds + dL.length) := rfl
          rw [hlc] at hve
          rw [hve.1]
          cases hcl : lastClause m (tot ds + dL.length) with
          | dispatch =>
            simp only
            exact ⟨_, _, hve.2 hcl, by rw [hB2.id]; rfl⟩
          | rst c =>
            simp only [lastClause] at hcl
            split at hcl
            · cases hcl; simp only [Answers, hB2.id]
            · cases hcl
          | goAway c =>
            simp only [lastClause] at hcl
            split at hcl <;> cases hcl

end H2.Server.Lock
