import H2.Client.Inter
/-! Inductive invariants of the request-resolution interleaving model (C12, C11). -/
namespace H2.Client.Inter

/-- where an unresolved request can be, and what a resolved one looks like -/
structure InvA (s : S) : Prop where
  i1 : s.wl = .closing ∨ s.wl = .draining ∨ s.wl = .exited → s.done = true
  i3 : ∀ i, (s.r i).ever = false → (s.r i).pc = .recheck ∨ (s.r i).pc = .waiting → (s.r i).inQ = true ∨ (s.r i).inTable = true
  i4 : ∀ i, (s.r i).inTable = true → (s.r i).ever = false → s.wl = .running ∨ s.wl = .stopping ∨ s.wl = .erred ∨ s.wl = .closing
  i5 : ∀ i, (s.r i).inQ = true → (s.r i).ever = false → (s.r i).pc = .waiting → s.wl ≠ .exited
  i6 : ∀ i, (s.r i).ever = true → (s.r i).errBuf.isSome = true ∨ (s.r i).pc = .taking ∨ (s.r i).pc = .got
  i7 : ∀ i, (s.r i).pc = .start → (s.r i).inQ = false ∧ (s.r i).inTable = false
  i8 : ∀ i, (s.r i).errBuf.isSome = true ∨ (s.r i).pc = .taking ∨ (s.r i).pc = .got → (s.r i).ever = true

theorem initA : InvA init := by
  constructor <;> simp [init]

theorem stepA {rv s a s'} (h : InvA s) (st : Step rv s a s') : InvA s' := by
  obtain ⟨h1, h3, h4, h5, h6, h7, h8⟩ := h
  cases st with
  | seeDone i hpc hd =>
    refine ⟨by simpa [upd] using h1, ?_, ?_, ?_, ?_, ?_, ?_⟩ <;> intro j <;> simp only [upd, res] <;> by_cases hj : j = i <;> simp only [hj, if_true, if_false] <;> grind
  | enqueue i hpc =>
    refine ⟨by simpa [upd] using h1, ?_, ?_, ?_, ?_, ?_, ?_⟩ <;> intro j <;> simp only [upd, res] <;> by_cases hj : j = i <;> simp only [hj, if_true, if_false] <;> grind
  | recheckD i hpc hd =>
    refine ⟨by simpa [upd] using h1, ?_, ?_, ?_, ?_, ?_, ?_⟩ <;> intro j <;> simp only [upd, res] <;> by_cases hj : j = i <;> simp only [hj, if_true, if_false] <;> grind
  | recheckN i hpc hd =>
    refine ⟨by simpa [upd] using h1, ?_, ?_, ?_, ?_, ?_, ?_⟩ <;> intro j <;> simp only [upd, res] <;> by_cases hj : j = i <;> simp only [hj, if_true, if_false] <;> grind
  | read i v hpc he =>
    refine ⟨by simpa [upd] using h1, ?_, ?_, ?_, ?_, ?_, ?_⟩ <;> intro j <;> simp only [upd, res] <;> by_cases hj : j = i <;> simp only [hj, if_true, if_false] <;> grind
  | takeBack i hpc =>
    refine ⟨by simpa [upd] using h1, ?_, ?_, ?_, ?_, ?_, ?_⟩ <;> intro j <;> simp only [upd, res] <;> by_cases hj : j = i <;> simp only [hj, if_true, if_false] <;> grind
  | wlTakeWrite i hw hq =>
    refine ⟨by simpa [upd] using h1, ?_, ?_, ?_, ?_, ?_, ?_⟩ <;> intro j <;> simp only [upd, res] <;> by_cases hj : j = i <;> simp only [hj, if_true, if_false] <;> grind
  | wlTakeReject i hw hq =>
    refine ⟨by simpa [upd] using h1, ?_, ?_, ?_, ?_, ?_, ?_⟩ <;> intro j <;> simp only [upd, res] <;> by_cases hj : j = i <;> simp only [hj, if_true, if_false] <;> grind
  | wlTakeSkip i hw hq hp =>
    refine ⟨by simpa [upd] using h1, ?_, ?_, ?_, ?_, ?_, ?_⟩ <;> intro j <;> simp only [upd, res] <;> by_cases hj : j = i <;> simp only [hj, if_true, if_false] <;> grind
  | wlWriteFail i hw hq =>
    refine ⟨by grind, ?_, ?_, ?_, ?_, ?_, ?_⟩ <;> intro j <;> simp only [upd, res] <;> by_cases hj : j = i <;> simp only [hj, if_true, if_false] <;> grind
  | wlBodyFail i hw hq =>
    refine ⟨by grind, ?_, ?_, ?_, ?_, ?_, ?_⟩ <;> intro j <;> simp only [upd, res] <;> by_cases hj : j = i <;> simp only [hj, if_true, if_false] <;> grind
  | wlFail hw =>
    refine ⟨by grind, ?_, ?_, ?_, ?_, ?_, ?_⟩ <;> intro j <;> grind
  | wlSeeDone hw hd =>
    refine ⟨by grind, ?_, ?_, ?_, ?_, ?_, ?_⟩ <;> intro j <;> grind
  | wlSetErr hw =>
    refine ⟨by grind, ?_, ?_, ?_, ?_, ?_, ?_⟩ <;> intro j <;> grind
  | wlClose hw =>
    refine ⟨by grind, ?_, ?_, ?_, ?_, ?_, ?_⟩ <;> intro j <;> grind
  | wlTakeAll hw =>
    refine ⟨by grind, ?_, ?_, ?_, ?_, ?_, ?_⟩ <;> intro j <;> simp only [res] <;> grind
  | wlDrainOne i hw hq =>
    refine ⟨by simpa [upd] using h1, ?_, ?_, ?_, ?_, ?_, ?_⟩ <;> intro j <;> simp only [upd, res] <;> by_cases hj : j = i <;> simp only [hj, if_true, if_false] <;> grind
  | wlDrainEnd hw hall =>
    refine ⟨by grind, ?_, ?_, ?_, ?_, ?_, ?_⟩ <;> intro j <;> grind
  | close =>
    refine ⟨by grind, ?_, ?_, ?_, ?_, ?_, ?_⟩ <;> intro j <;> grind
  | rdSetErr =>
    refine ⟨by grind, ?_, ?_, ?_, ?_, ?_, ?_⟩ <;> intro j <;> grind
  | finish i v ht hv =>
    refine ⟨by simpa [upd] using h1, ?_, ?_, ?_, ?_, ?_, ?_⟩ <;> intro j <;> simp only [upd, res] <;> by_cases hj : j = i <;> simp only [hj, if_true, if_false] <;> grind
  | refuse i v ht hv =>
    refine ⟨by simpa [upd] using h1, ?_, ?_, ?_, ?_, ?_, ?_⟩ <;> intro j <;> simp only [upd, res] <;> by_cases hj : j = i <;> simp only [hj, if_true, if_false] <;> grind
  | timer i =>
    refine ⟨by simpa [upd] using h1, ?_, ?_, ?_, ?_, ?_, ?_⟩ <;> intro j <;> simp only [upd, res] <;> by_cases hj : j = i <;> simp only [hj, if_true, if_false] <;> grind

theorem reachA {rv s} (h : Reach rv s) : InvA s := by
  induction h with
  | init => exact initA
  | step _ st ih => exact stepA ih st

/-- taken off the queue once, retryable only if never written or disclaimed by the server, one delivery -/
structure InvB (s : S) : Prop where
  b1 : ∀ i, (s.r i).pc = .start → (s.r i).inQ = false ∧ (s.r i).written = false ∧ (s.r i).result = none ∧ (s.r i).errBuf ≠ some .retryable
  b2 : ∀ i, (s.r i).inQ = true → (s.r i).written = false
  b3 : ∀ i, (s.r i).errBuf = some .retryable → ((s.r i).written = false ∨ (s.r i).disclaimed = true) ∧ (s.r i).inQ = false
  b4 : ∀ i, (s.r i).result = some .retryable → ((s.r i).written = false ∨ (s.r i).disclaimed = true) ∧ (s.r i).inQ = false
  b5 : ∀ i, (s.r i).reads = if (s.r i).pc = .taking ∨ (s.r i).pc = .got then 1 else 0
  b6 : ∀ i, (s.r i).disclaimed = true ∨ (s.r i).inTable = true → (s.r i).written = true

theorem initB : InvB init := by
  constructor <;> simp [init]

theorem stepB {s a s'} (h : InvB s) (st : Step recheckFixed s a s') : InvB s' := by
  obtain ⟨h1, h2, h3, h4, h5, h6⟩ := h
  cases st with
  | seeDone i hpc hd =>
    refine ⟨?_, ?_, ?_, ?_, ?_, ?_⟩ <;> intro j <;> simp only [upd, res, closeVal] <;> by_cases hj : j = i <;> simp only [hj, if_true, if_false] <;> grind
  | enqueue i hpc =>
    refine ⟨?_, ?_, ?_, ?_, ?_, ?_⟩ <;> intro j <;> simp only [upd, res] <;> by_cases hj : j = i <;> simp only [hj, if_true, if_false] <;> grind
  | recheckD i hpc hd =>
    refine ⟨?_, ?_, ?_, ?_, ?_, ?_⟩ <;> intro j <;> simp only [upd, res, recheckFixed] <;> by_cases hj : j = i <;> simp only [hj, if_true, if_false] <;> grind
  | recheckN i hpc hd =>
    refine ⟨?_, ?_, ?_, ?_, ?_, ?_⟩ <;> intro j <;> simp only [upd, res] <;> by_cases hj : j = i <;> simp only [hj, if_true, if_false] <;> grind
  | read i v hpc he =>
    refine ⟨?_, ?_, ?_, ?_, ?_, ?_⟩ <;> intro j <;> simp only [upd, res] <;> by_cases hj : j = i <;> simp only [hj, if_true, if_false] <;> grind
  | takeBack i hpc =>
    refine ⟨?_, ?_, ?_, ?_, ?_, ?_⟩ <;> intro j <;> simp only [upd, res] <;> by_cases hj : j = i <;> simp only [hj, if_true, if_false] <;> grind
  | wlTakeWrite i hw hq =>
    refine ⟨?_, ?_, ?_, ?_, ?_, ?_⟩ <;> intro j <;> simp only [upd, res] <;> by_cases hj : j = i <;> simp only [hj, if_true, if_false] <;> grind
  | wlTakeReject i hw hq =>
    refine ⟨?_, ?_, ?_, ?_, ?_, ?_⟩ <;> intro j <;> simp only [upd, res] <;> by_cases hj : j = i <;> simp only [hj, if_true, if_false] <;> grind
  | wlTakeSkip i hw hq hp =>
    refine ⟨?_, ?_, ?_, ?_, ?_, ?_⟩ <;> intro j <;> simp only [upd, res] <;> by_cases hj : j = i <;> simp only [hj, if_true, if_false] <;> grind
  | wlWriteFail i hw hq =>
    refine ⟨?_, ?_, ?_, ?_, ?_, ?_⟩ <;> intro j <;> simp only [upd, res] <;> by_cases hj : j = i <;> simp only [hj, if_true, if_false] <;> grind
  | wlBodyFail i hw hq =>
    refine ⟨?_, ?_, ?_, ?_, ?_, ?_⟩ <;> intro j <;> simp only [upd, res] <;> by_cases hj : j = i <;> simp only [hj, if_true, if_false] <;> grind
  | wlFail hw => exact ⟨h1, h2, h3, h4, h5, h6⟩
  | wlSeeDone hw hd => exact ⟨h1, h2, h3, h4, h5, h6⟩
  | wlSetErr hw => exact ⟨h1, h2, h3, h4, h5, h6⟩
  | wlClose hw => exact ⟨h1, h2, h3, h4, h5, h6⟩
  | wlTakeAll hw =>
    refine ⟨?_, ?_, ?_, ?_, ?_, ?_⟩ <;> intro j <;> simp only [res] <;> grind
  | wlDrainOne i hw hq =>
    refine ⟨?_, ?_, ?_, ?_, ?_, ?_⟩ <;> intro j <;> simp only [upd, res] <;> by_cases hj : j = i <;> simp only [hj, if_true, if_false] <;> grind
  | wlDrainEnd hw hall => exact ⟨h1, h2, h3, h4, h5, h6⟩
  | close => exact ⟨h1, h2, h3, h4, h5, h6⟩
  | rdSetErr => exact ⟨h1, h2, h3, h4, h5, h6⟩
  | finish i v ht hv =>
    refine ⟨?_, ?_, ?_, ?_, ?_, ?_⟩ <;> intro j <;> simp only [upd, res] <;> by_cases hj : j = i <;> simp only [hj, if_true, if_false] <;> grind
  | refuse i v ht hv =>
    refine ⟨?_, ?_, ?_, ?_, ?_, ?_⟩ <;> intro j <;> simp only [upd, res] <;> by_cases hj : j = i <;> simp only [hj, if_true, if_false] <;> grind
  | timer i =>
    refine ⟨?_, ?_, ?_, ?_, ?_, ?_⟩ <;> intro j <;> simp only [upd, res] <;> by_cases hj : j = i <;> simp only [hj, if_true, if_false] <;> grind

theorem reachB {s} (h : Reach recheckFixed s) : InvB s := by
  induction h with
  | init => exact initB
  | step _ st ih => exact stepB ih st

end H2.Client.Inter
