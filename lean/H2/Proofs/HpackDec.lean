import H2.Proofs.HpackStr
/-! The decoder model `Dec.next` (mirror of `nextField`) is the RFC step `Spec.step`. Core only. -/
namespace H2.Hpack
open H2

theorem evict_eq : ∀ (t : List (Bytes × Bytes)) (max : Nat), evict t max = Spec.evict t max := by
  intro t max
  induction h : t.length using Nat.strongRecOn generalizing t with
  | _ n ih =>
    cases t with
    | nil => simp [evict, Spec.evict]
    | cons e t' =>
      unfold evict Spec.evict
      split
      · rfl
      · exact ih _ (by subst h; simp [List.length_dropLast]) _ rfl

theorem insert_eq (t : List (Bytes × Bytes)) (e : Bytes × Bytes) (max : Nat) :
    insert t e max = Spec.insert t e max := by
  unfold insert Spec.insert; exact evict_eq _ _

theorem static_len : Gen.staticTable.length + 1 = Gen.maxIndex := by decide

/-- T1: the static table in `hpack.go` is the one of RFC 7541 Appendix A -/
theorem static_rfc : Gen.staticTable = Rfc.staticTable := by decide

theorem lookup_eq (t : List (Bytes × Bytes)) (i : Nat) : lookup t i = Spec.lookup t i := by
  unfold lookup Spec.lookup
  rw [← static_rfc]
  have := static_len
  by_cases h0 : i = 0
  · simp [h0]
  · simp only [h0, if_false]
    by_cases h1 : i < Gen.maxIndex
    · have : i ≤ Gen.staticTable.length := by omega
      simp [h1, this]
    · have h2 : ¬ i ≤ Gen.staticTable.length := by omega
      simp only [h1, h2, if_false]
      rw [show i - Gen.maxIndex = i - Gen.staticTable.length - 1 by omega]

end H2.Hpack

namespace H2.Hpack
open H2

theorem prefixBits_pos (m : Spec.Mode) : 0 < m.prefixBits := by cases m <;> decide

theorem readString_nil : readString [] = .needMore := rfl

/-- the literal part of `nextField` against the specification's parser -/
theorem readLiteral_eq (st : DecState) (m : Spec.Mode) (b : Bytes) :
    readLiteral st m.prefixBits b =
      match Spec.parseLiteral (Spec.validIn st) m b with
      | .incomplete => .inr true
      | .invalid => .inr false
      | .ok (.literal _ (.idx i) v _) r =>
        (match Spec.lookup st.dyn i with
          | some e => .inl (some (e.1, v, r))
          | none => .inr false)
      | .ok (.literal _ (.lit n _) v _) r => .inl (some (n, v, r))
      | .ok _ _ => .inr false := by
  cases b with
  | nil => simp [readLiteral, readName, Spec.parseLiteral, readInt]
  | cons b0 rest =>
    by_cases hz : b0 % 2 ^ m.prefixBits = 0
    · have hi := readInt_zero m.prefixBits b0 rest (prefixBits_pos m) hz
      simp only [readLiteral, readName, Spec.parseLiteral, hz, if_true, hi]
      cases rest with
      | nil => simp [readString_nil]
      | cons h t =>
        cases hs : readString (h :: t) with
        | needMore => simp
        | err => simp
        | ok n r' =>
          simp only
          cases r' with
          | nil => simp [readString_nil]
          | cons h' t' =>
            cases hs' : readString (h' :: t') with
            | needMore => simp
            | err => simp
            | ok v r'' => simp
    · simp only [readLiteral, readName, Spec.parseLiteral, hz, if_false]
      cases hi : readInt m.prefixBits (b0 :: rest) with
      | needMore => simp
      | overflow => simp
      | ok i r =>
        have hnz := readInt_nonzero m.prefixBits b0 rest (prefixBits_pos m) hz i r hi
        cases hl : Spec.lookup st.dyn i with
        | none => simp [hnz, Spec.validIn, lookup_eq, hl]
        | some e =>
          simp only [hnz, if_false, Spec.validIn, lookup_eq, hl, Option.isSome_some, Bool.not_true, Bool.false_eq_true]
          cases r with
          | nil => simp [readString_nil]
          | cons h' t' =>
            cases hs' : readString (h' :: t') with
            | needMore => simp
            | err => simp
            | ok v r'' => simp [hl]

end H2.Hpack

namespace H2.Hpack
open H2

theorem parseLiteral_shape (valid : Nat → Bool) (m : Spec.Mode) (b : Bytes) (r : Spec.Repr) (rest : Bytes)
    (h : Spec.parseLiteral valid m b = .ok r rest) : ∃ nr v vh, r = .literal m nr v vh := by
  unfold Spec.parseLiteral at h
  repeat' split at h
  all_goals first
    | (cases h; exact ⟨_, _, _, rfl⟩)
    | (cases h)

theorem nextFuel_eq : ∀ (fuel : Nat) (st : DecState) (bs : Bool) (fp : Nat) (b : Bytes),
    nextFuel fuel st bs fp b = Spec.stepFuel fuel st bs fp b := by
  intro fuel
  induction fuel with
  | zero => intro st bs fp b; simp [nextFuel, Spec.stepFuel]
  | succ fuel ih =>
    intro st bs fp b
    cases b with
    | nil => simp [nextFuel, Spec.stepFuel]
    | cons c rest =>
      unfold nextFuel Spec.stepFuel Spec.parse
      by_cases h128 : c ≥ 128
      · simp only [h128, if_true]
        cases hi : readInt 7 (c :: rest) with
        | needMore => simp
        | overflow => simp
        | ok i r =>
          simp only [Spec.apply, lookup_eq]
          cases Spec.lookup st.dyn i <;> simp
      · simp only [h128, if_false]
        by_cases h64 : c ≥ 64
        · simp only [h64, if_true]
          have hl := readLiteral_eq st .incremental (c :: rest)
          simp only [Spec.Mode.prefixBits] at hl
          rw [hl]
          cases hp : Spec.parseLiteral (Spec.validIn st) .incremental (c :: rest) with
          | incomplete => simp
          | invalid => simp
          | ok r rest' =>
            obtain ⟨nr, v, vh, rfl⟩ := parseLiteral_shape _ _ _ _ _ hp
            cases nr with
            | idx i =>
              simp only [Spec.apply]
              cases Spec.lookup st.dyn i <;> simp [insert_eq]
            | lit n nh => simp [Spec.apply, insert_eq]
        · simp only [h64, if_false]
          by_cases h32 : c ≥ 32
          · simp only [h32, if_true]
            cases hi : readInt 5 (c :: rest) with
            | needMore => simp
            | overflow => simp
            | ok n r =>
              simp only [Spec.apply]
              cases bs
              · simp
              · by_cases hfp : fp = 0
                · subst hfp
                  by_cases hn : n ≤ st.limit
                  · have : ¬ n > st.limit := by omega
                    simp [hn, this, ih, evict_eq]
                  · have : n > st.limit := by omega
                    simp [hn, this]
                · have : fp > 0 := by omega
                  simp [hfp, this]
          · simp only [h32, if_false]
            by_cases h16 : c ≥ 16
            · simp only [h16, if_true]
              have hl := readLiteral_eq st .never (c :: rest)
              simp only [Spec.Mode.prefixBits] at hl
              rw [hl]
              cases hp : Spec.parseLiteral (Spec.validIn st) .never (c :: rest) with
              | incomplete => simp
              | invalid => simp
              | ok r rest' =>
                obtain ⟨nr, v, vh, rfl⟩ := parseLiteral_shape _ _ _ _ _ hp
                cases nr with
                | idx i =>
                  simp only [Spec.apply]
                  cases Spec.lookup st.dyn i <;> simp
                | lit n nh => simp [Spec.apply]
            · simp only [h16, if_false]
              have hl := readLiteral_eq st .without (c :: rest)
              simp only [Spec.Mode.prefixBits] at hl
              rw [hl]
              cases hp : Spec.parseLiteral (Spec.validIn st) .without (c :: rest) with
              | incomplete => simp
              | invalid => simp
              | ok r rest' =>
                obtain ⟨nr, v, vh, rfl⟩ := parseLiteral_shape _ _ _ _ _ hp
                cases nr with
                | idx i =>
                  simp only [Spec.apply]
                  cases Spec.lookup st.dyn i <;> simp
                | lit n nh => simp [Spec.apply]

/-- **refinement**: the model of `nextField` computes exactly the RFC 7541 step -/
theorem next_eq_step (st : DecState) (bs : Bool) (fp : Nat) (b : Bytes) :
    Dec.next st bs fp b = Spec.step st bs fp b := nextFuel_eq _ _ _ _ _

end H2.Hpack

namespace H2.Hpack
open H2

theorem writeInt_head (n fl v : Nat) : ∃ x tl, writeInt n fl v = (fl + x) :: tl ∧ x < 2 ^ n := by
  unfold writeInt
  have : 0 < 2 ^ n := Nat.pow_pos (by decide)
  by_cases h : v < 2 ^ n - 1
  · exact ⟨v, [], by simp [h], by omega⟩
  · exact ⟨2 ^ n - 1, contBytes (v - (2 ^ n - 1)), by simp [h], by omega⟩

theorem writeString_head (s : Bytes) (huff : Bool) :
    ∃ h tl, writeString s huff = h :: tl ∧ decide (h ≥ 128) = huff := by
  unfold writeString
  cases huff
  · obtain ⟨tl, htl⟩ := writeInt7_head 0 s.length
    refine ⟨0 + (if s.length < 127 then s.length else 127), tl ++ s, by simp [htl], ?_⟩
    have : (if s.length < 127 then s.length else 127) < 128 := by split <;> omega
    simp [this]
  · obtain ⟨tl, htl⟩ := writeInt7_head 128 (Huffman.encode s).length
    refine ⟨128 + (if (Huffman.encode s).length < 127 then (Huffman.encode s).length else 127), tl ++ Huffman.encode s,
      by simp [htl], ?_⟩
    simp

theorem ser_eq (r : Spec.Repr) : Spec.ser r = match r with
    | .indexed i => writeInt 7 128 i
    | .literal m (.idx i) v vh => writeInt m.prefixBits m.flags i ++ writeString v vh
    | .literal m (.lit n nh) v vh => writeInt m.prefixBits m.flags 0 ++ writeString n nh ++ writeString v vh
    | .sizeUpdate n => writeInt 5 32 n := by
  cases r with
  | indexed i => simp [Spec.ser, writeInt_eq_encInt]
  | literal m nr v vh => cases nr <;> simp [Spec.ser, writeInt_eq_encInt, writeString_eq_encStr]
  | sizeUpdate n => simp [Spec.ser, writeInt_eq_encInt]

theorem mode_flags_mod (m : Spec.Mode) : m.flags % 2 ^ m.prefixBits = 0 := by cases m <;> decide

/-- parsing the literal part of a serialised literal representation -/
theorem parseLiteral_ser (valid : Nat → Bool) (m : Spec.Mode) (nr : Spec.NameRef) (v : Bytes) (vh : Bool) (rest : Bytes)
    (hwf : (Spec.Repr.literal m nr v vh).WF) (hv : ∀ i, nr = .idx i → valid i = true) :
    Spec.parseLiteral valid m (Spec.ser (.literal m nr v vh) ++ rest) = .ok (.literal m nr v vh) rest := by
  rw [ser_eq]
  cases nr with
  | idx i =>
    obtain ⟨hi0, hi, hvw, hvl⟩ := hwf
    simp only [List.append_assoc]
    unfold Spec.parseLiteral
    rw [readInt_writeInt _ _ _ _ (prefixBits_pos m) (mode_flags_mod m) hi]
    have : i ≠ 0 := by omega
    simp only [this, if_false, hv i rfl, Bool.not_true, Bool.false_eq_true]
    obtain ⟨h, tl, hh, hd⟩ := writeString_head v vh
    have hr := readString_writeString v rest vh hvw hvl
    rw [hh] at hr ⊢
    simp only [List.cons_append] at hr ⊢
    simp only [hr, hd]
  | lit n nh =>
    obtain ⟨hnw, hvw, hnl, hvl⟩ := hwf
    simp only [List.append_assoc]
    unfold Spec.parseLiteral
    rw [readInt_writeInt _ _ _ _ (prefixBits_pos m) (mode_flags_mod m) (by decide)]
    simp only [if_true]
    obtain ⟨h, tl, hh, hd⟩ := writeString_head n nh
    have hr := readString_writeString n (writeString v vh ++ rest) nh hnw hnl
    rw [hh] at hr ⊢
    simp only [List.cons_append] at hr ⊢
    simp only [hr]
    obtain ⟨h', tl', hh', hd'⟩ := writeString_head v vh
    have hr' := readString_writeString v rest vh hvw hvl
    rw [hh'] at hr' ⊢
    simp only [List.cons_append] at hr' ⊢
    simp only [hr', hd, hd']

/-- **round trip of the wire format**: what RFC 7541 assigns to a representation parses back to it -/
theorem parse_ser (valid : Nat → Bool) (r : Spec.Repr) (rest : Bytes) (hwf : r.WF)
    (hv : ∀ m i v vh, r = .literal m (.idx i) v vh → valid i = true) :
    Spec.parse valid (Spec.ser r ++ rest) = .ok r rest := by
  cases r with
  | indexed i =>
    have hr := readInt_writeInt 7 128 i rest (by decide) (by decide) hwf
    obtain ⟨x, tl, hx, hlt⟩ := writeInt_head 7 128 i
    rw [ser_eq]; simp only
    rw [hx] at hr ⊢
    simp only [List.cons_append] at hr ⊢
    unfold Spec.parse
    have : 128 + x ≥ 128 := by omega
    simp only [this, if_true, hr]
  | sizeUpdate n =>
    have hr := readInt_writeInt 5 32 n rest (by decide) (by decide) hwf
    obtain ⟨x, tl, hx, hlt⟩ := writeInt_head 5 32 n
    rw [ser_eq]; simp only
    rw [hx] at hr ⊢
    simp only [List.cons_append] at hr ⊢
    unfold Spec.parse
    have h1 : ¬ 32 + x ≥ 128 := by omega
    have h2 : ¬ 32 + x ≥ 64 := by omega
    have h3 : 32 + x ≥ 32 := by omega
    simp only [h1, h2, h3, if_true, if_false, hr]
  | literal m nr v vh =>
    have hp := parseLiteral_ser valid m nr v vh rest hwf (fun i hi => hv m i v vh (by rw [hi]))
    have hs : ∃ x tl, Spec.ser (.literal m nr v vh) ++ rest = (m.flags + x) :: tl ∧ x < 2 ^ m.prefixBits := by
      rw [ser_eq]
      cases nr with
      | idx i =>
        obtain ⟨x, tl, hx, hlt⟩ := writeInt_head m.prefixBits m.flags i
        exact ⟨x, _, by simp only [hx, List.cons_append]; rfl, hlt⟩
      | lit n nh =>
        obtain ⟨x, tl, hx, hlt⟩ := writeInt_head m.prefixBits m.flags 0
        exact ⟨x, _, by simp only [hx, List.cons_append]; rfl, hlt⟩
    obtain ⟨x, tl, hx, hlt⟩ := hs
    rw [hx] at hp ⊢
    unfold Spec.parse
    cases m with
    | incremental =>
      simp only [Spec.Mode.flags, Spec.Mode.prefixBits] at hlt hp ⊢
      have h1 : ¬ 64 + x ≥ 128 := by omega
      have h2 : 64 + x ≥ 64 := by omega
      simp only [h1, h2, if_true, if_false, hp]
    | without =>
      simp only [Spec.Mode.flags, Spec.Mode.prefixBits] at hlt hp ⊢
      have h1 : ¬ 0 + x ≥ 128 := by omega
      have h2 : ¬ 0 + x ≥ 64 := by omega
      have h3 : ¬ 0 + x ≥ 32 := by omega
      have h4 : ¬ 0 + x ≥ 16 := by omega
      simp only [h1, h2, h3, h4, if_false, hp]
    | never =>
      simp only [Spec.Mode.flags, Spec.Mode.prefixBits] at hlt hp ⊢
      have h1 : ¬ 16 + x ≥ 128 := by omega
      have h2 : ¬ 16 + x ≥ 64 := by omega
      have h3 : ¬ 16 + x ≥ 32 := by omega
      have h4 : 16 + x ≥ 16 := by omega
      simp only [h1, h2, h3, h4, if_true, if_false, hp]

end H2.Hpack

namespace H2.Hpack
open H2

theorem parseLiteral_suffix (valid : Nat → Bool) (m : Spec.Mode) (b : Bytes) (r : Spec.Repr) (rest : Bytes)
    (h : Spec.parseLiteral valid m b = .ok r rest) : ∃ w, w ≠ [] ∧ b = w ++ rest := by
  unfold Spec.parseLiteral at h
  cases hi : readInt m.prefixBits b with
  | needMore => simp [hi] at h
  | overflow => simp [hi] at h
  | ok i r1 =>
    obtain ⟨w1, hw1, hb1, _⟩ := readInt_suffix _ _ _ _ hi
    simp only [hi] at h
    by_cases hz : i = 0
    · simp only [hz, if_true] at h
      cases r1 with
      | nil => simp at h
      | cons h1 t1 =>
        simp only at h
        cases hs : readString (h1 :: t1) with
        | needMore => simp [hs] at h
        | err => simp [hs] at h
        | ok n r2 =>
          obtain ⟨w2, _, hb2⟩ := readString_suffix _ _ _ hs
          simp only [hs] at h
          cases r2 with
          | nil => simp at h
          | cons h2 t2 =>
            simp only at h
            cases hs2 : readString (h2 :: t2) with
            | needMore => simp [hs2] at h
            | err => simp [hs2] at h
            | ok v r3 =>
              obtain ⟨w3, _, hb3⟩ := readString_suffix _ _ _ hs2
              simp only [hs2] at h
              injection h with _ h2
              subst h2
              exact ⟨w1 ++ (w2 ++ w3), by simp [hw1], by rw [hb1, hb2, hb3]; simp⟩
    · simp only [hz, if_false] at h
      by_cases hv : valid i
      · simp only [hv, Bool.not_true, Bool.false_eq_true, if_false] at h
        cases r1 with
        | nil => simp at h
        | cons h1 t1 =>
          simp only at h
          cases hs : readString (h1 :: t1) with
          | needMore => simp [hs] at h
          | err => simp [hs] at h
          | ok v r2 =>
            obtain ⟨w2, _, hb2⟩ := readString_suffix _ _ _ hs
            simp only [hs] at h
            injection h with _ h2
            subst h2
            exact ⟨w1 ++ w2, by simp [hw1], by rw [hb1, hb2]; simp⟩
      · simp [hv] at h

theorem parse_suffix (valid : Nat → Bool) (b : Bytes) (r : Spec.Repr) (rest : Bytes)
    (h : Spec.parse valid b = .ok r rest) : ∃ w, w ≠ [] ∧ b = w ++ rest := by
  cases b with
  | nil => simp [Spec.parse] at h
  | cons c cs =>
    unfold Spec.parse at h
    by_cases h128 : c ≥ 128
    · simp only [h128, if_true] at h
      cases hi : readInt 7 (c :: cs) with
      | needMore => simp [hi] at h
      | overflow => simp [hi] at h
      | ok i r1 =>
        obtain ⟨w1, hw1, hb1, _⟩ := readInt_suffix _ _ _ _ hi
        simp only [hi] at h
        injection h with _ h2
        subst h2
        exact ⟨w1, hw1, hb1⟩
    · simp only [h128, if_false] at h
      by_cases h64 : c ≥ 64
      · simp only [h64, if_true] at h
        exact parseLiteral_suffix _ _ _ _ _ h
      · simp only [h64, if_false] at h
        by_cases h32 : c ≥ 32
        · simp only [h32, if_true] at h
          cases hi : readInt 5 (c :: cs) with
          | needMore => simp [hi] at h
          | overflow => simp [hi] at h
          | ok i r1 =>
            obtain ⟨w1, hw1, hb1, _⟩ := readInt_suffix _ _ _ _ hi
            simp only [hi] at h
            injection h with _ h2
            subst h2
            exact ⟨w1, hw1, hb1⟩
        · simp only [h32, if_false] at h
          by_cases h16 : c ≥ 16
          · simp only [h16, if_true] at h
            exact parseLiteral_suffix _ _ _ _ _ h
          · simp only [h16, if_false] at h
            exact parseLiteral_suffix _ _ _ _ _ h

theorem parse_progress (valid : Nat → Bool) (b : Bytes) (r : Spec.Repr) (rest : Bytes)
    (h : Spec.parse valid b = .ok r rest) : rest.length < b.length := by
  obtain ⟨w, hw, rfl⟩ := parse_suffix valid b r rest h
  have : 0 < w.length := List.length_pos_iff.mpr hw
  simp; omega

/-- more fuel than octets changes nothing -/
theorem stepFuel_fuel : ∀ (fuel : Nat) (st : DecState) (bs : Bool) (fp : Nat) (b : Bytes),
    b.length + 1 ≤ fuel → Spec.stepFuel fuel st bs fp b = Spec.stepFuel (b.length + 1) st bs fp b := by
  intro fuel
  induction fuel using Nat.strongRecOn with
  | _ fuel ih =>
    intro st bs fp b h
    cases fuel with
    | zero => omega
    | succ fuel =>
      cases b with
      | nil => simp [Spec.stepFuel]
      | cons c cs =>
        simp only [List.length_cons]
        unfold Spec.stepFuel
        cases hp : Spec.parse (Spec.validIn st) (c :: cs) with
        | incomplete => rfl
        | invalid => rfl
        | ok r rest =>
          have hlt := parse_progress _ _ _ _ hp
          simp only [List.length_cons] at hlt h
          simp only
          cases ha : Spec.apply st (if bs then fp else fp + 1) r with
          | none => rfl
          | some p =>
            obtain ⟨st', o⟩ := p
            cases o with
            | some f => rfl
            | none =>
              simp only
              rw [ih fuel (by omega) st' bs fp rest (by omega), ih (cs.length + 1) (by omega) st' bs fp rest (by omega)]

/-- the step on a complete representation followed by anything -/
theorem step_ser (st : DecState) (bs : Bool) (fp : Nat) (r : Spec.Repr) (rest : Bytes) (hwf : r.WF)
    (st' : DecState) (out : Option Field) (ha : Spec.apply st (if bs then fp else fp + 1) r = some (st', out)) :
    Spec.step st bs fp (Spec.ser r ++ rest) =
      match out with
      | some f => .ok st' (some f) rest
      | none => Spec.step st' bs fp rest := by
  have hv : ∀ m i v vh, r = .literal m (.idx i) v vh → Spec.validIn st i = true := by
    intro m i v vh hr
    subst hr
    simp only [Spec.apply] at ha
    unfold Spec.validIn
    cases hl : Spec.lookup st.dyn i with
    | none => simp [hl] at ha
    | some e => rfl
  have hp := parse_ser (Spec.validIn st) r rest hwf hv
  have hlt := parse_progress _ _ _ _ hp
  unfold Spec.step
  cases hb : Spec.ser r ++ rest with
  | nil => rw [hb] at hlt; simp at hlt
  | cons c cs =>
    rw [hb] at hp hlt
    simp only [List.length_cons] at hlt ⊢
    conv => lhs; unfold Spec.stepFuel
    simp only [hp, ha]
    cases out with
    | some f => rfl
    | none =>
      simp only
      exact stepFuel_fuel (cs.length + 1) st' bs fp rest (by omega)

end H2.Hpack

namespace H2.Hpack
open H2

/-- an `ok` step leaves a suffix of its input; when it yields a field at least one octet was consumed -/
theorem stepFuel_suffix : ∀ (fuel : Nat) (st : DecState) (bs : Bool) (fp : Nat) (b : Bytes) (st' : DecState)
    (o : Option Field) (rest : Bytes), Spec.stepFuel fuel st bs fp b = .ok st' o rest →
    ∃ w, b = w ++ rest ∧ (o.isSome → w ≠ []) := by
  intro fuel
  induction fuel with
  | zero => intro st bs fp b st' o rest h; simp [Spec.stepFuel] at h
  | succ fuel ih =>
    intro st bs fp b st' o rest h
    cases b with
    | nil =>
      simp only [Spec.stepFuel] at h
      injection h with _ h2 h3
      subst h2 h3
      exact ⟨[], by simp, by simp⟩
    | cons c cs =>
      unfold Spec.stepFuel at h
      cases hp : Spec.parse (Spec.validIn st) (c :: cs) with
      | incomplete => simp [hp] at h
      | invalid => simp [hp] at h
      | ok r rest1 =>
        obtain ⟨w1, hw1, hb1⟩ := parse_suffix _ _ _ _ hp
        simp only [hp] at h
        cases ha : Spec.apply st (if bs then fp else fp + 1) r with
        | none => simp [ha] at h
        | some p =>
          obtain ⟨st1, o1⟩ := p
          cases o1 with
          | some f =>
            simp only [ha] at h
            injection h with _ h2 h3
            subst h3
            exact ⟨w1, hb1, fun _ => hw1⟩
          | none =>
            simp only [ha] at h
            obtain ⟨w2, hb2, _⟩ := ih _ _ _ _ _ _ _ h
            exact ⟨w1 ++ w2, by rw [hb1, hb2]; simp, fun _ => by simp [hw1]⟩

/-- a well-formed representation whose meaning is undefined on the current table (index 0 or past the
table, size update above the limit or after a field) is rejected -/
theorem step_ser_reject (st : DecState) (bs : Bool) (fp : Nat) (r : Spec.Repr) (rest : Bytes) (hwf : r.WF)
    (ha : Spec.apply st (if bs then fp else fp + 1) r = none) :
    Spec.step st bs fp (Spec.ser r ++ rest) = .err := by
  by_cases hv : ¬ ∃ m i v vh, r = .literal m (.idx i) v vh ∧ Spec.validIn st i = false
  · have hv' : ∀ m i v vh, r = .literal m (.idx i) v vh → Spec.validIn st i = true := by
      intro m i v vh hr
      cases hx : Spec.validIn st i with
      | true => rfl
      | false => exact absurd ⟨m, i, v, vh, hr, hx⟩ hv
    have hp := parse_ser (Spec.validIn st) r rest hwf hv'
    have hlt := parse_progress _ _ _ _ hp
    unfold Spec.step
    cases hb : Spec.ser r ++ rest with
    | nil => rw [hb] at hlt; simp at hlt
    | cons c cs =>
      rw [hb] at hp
      simp only [List.length_cons]
      unfold Spec.stepFuel
      simp only [hp, ha]
  · -- a literal naming a missing entry: already the parser refuses it
    have hv := Classical.not_not.mp hv
    obtain ⟨m, i, v, vh, hr, hval'⟩ := hv
    subst hr
    obtain ⟨hi0, hi, hvw, hvl⟩ := hwf
    have hpl : Spec.parseLiteral (Spec.validIn st) m (Spec.ser (.literal m (.idx i) v vh) ++ rest) = .invalid := by
      rw [ser_eq]
      simp only [List.append_assoc]
      unfold Spec.parseLiteral
      rw [readInt_writeInt _ _ _ _ (prefixBits_pos m) (mode_flags_mod m) hi]
      have : i ≠ 0 := by omega
      simp [this, hval']
    have hs : ∃ x tl, Spec.ser (.literal m (.idx i) v vh) ++ rest = (m.flags + x) :: tl ∧ x < 2 ^ m.prefixBits := by
      rw [ser_eq]
      obtain ⟨x, tl, hx, hlt⟩ := writeInt_head m.prefixBits m.flags i
      exact ⟨x, _, by simp only [hx, List.cons_append]; rfl, hlt⟩
    obtain ⟨x, tl, hx, hlt⟩ := hs
    rw [hx] at hpl ⊢
    unfold Spec.step
    simp only [List.length_cons]
    unfold Spec.stepFuel Spec.parse
    cases m with
    | incremental =>
      simp only [Spec.Mode.flags, Spec.Mode.prefixBits] at hlt hpl ⊢
      have h1 : ¬ 64 + x ≥ 128 := by omega
      have h2 : 64 + x ≥ 64 := by omega
      simp only [h1, h2, if_true, if_false, hpl]
    | without =>
      simp only [Spec.Mode.flags, Spec.Mode.prefixBits] at hlt hpl ⊢
      have h1 : ¬ 0 + x ≥ 128 := by omega
      have h2 : ¬ 0 + x ≥ 64 := by omega
      have h3 : ¬ 0 + x ≥ 32 := by omega
      have h4 : ¬ 0 + x ≥ 16 := by omega
      simp only [h1, h2, h3, h4, if_false, hpl]
    | never =>
      simp only [Spec.Mode.flags, Spec.Mode.prefixBits] at hlt hpl ⊢
      have h1 : ¬ 16 + x ≥ 128 := by omega
      have h2 : ¬ 16 + x ≥ 64 := by omega
      have h3 : ¬ 16 + x ≥ 32 := by omega
      have h4 : 16 + x ≥ 16 := by omega
      simp only [h1, h2, h3, h4, if_true, if_false, hpl]

end H2.Hpack
