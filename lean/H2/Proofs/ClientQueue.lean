import H2.Client.Queue
/-! Lemmas about the control-frame queue / request lock model (`H2.Client.Queue`). -/
namespace H2.Client.Queue

/-- who holds the request's lock, in terms of the program counters -/
structure Inv (s : S) : Prop where
  rd : s.holder = some .rd ↔ (s.rd = .holding ∨ s.rd = .creditHeld ∨ s.rd = .releasing)
  wl : s.holder = some .wl ↔ s.wl = .sending

theorem inv {k : Cfg} {s : S} (h : Reach k s) : Inv s := by
  induction h with
  | init => constructor <;> simp
  | step _ st ih =>
    obtain ⟨h1, h2⟩ := ih
    cases st <;> constructor <;> simp_all <;> grind

theorem Steps.trans {k : Cfg} {a b c : S} (h1 : Steps k a b) (h2 : Steps k b c) : Steps k a c := by
  induction h2 with
  | refl => exact h1
  | tail _ st ih => exact Steps.tail ih st

theorem Steps.one {k : Cfg} {a b : S} (h : Step k a b) : Steps k a b := Steps.tail (Steps.refl a) h

theorem Reach.steps {k : Cfg} {a b : S} (ha : Reach k a) (h : Steps k a b) : Reach k b := by
  induction h with
  | refl => exact ha
  | tail _ st ih => exact Reach.step ih st

/-- the queue can be filled to any level up to its capacity by frames that ask for a reply -/
theorem reach_fill (k : Cfg) : ∀ n, n ≤ k.cap → Reach k { q := n }
  | 0, _ => Reach.init
  | n + 1, h => by
    have := Reach.step (reach_fill k n (by omega)) (Step.rdReply { q := n } rfl (by simp; omega))
    simpa using this

end H2.Client.Queue

namespace H2.Client.Queue

/-- in the repaired code nobody is ever about to queue a frame in a position where the write loop could
not make room: the read loop not with the request held, the write loop not at all -/
theorem inv_fixed {cap : Nat} {s : S} (h : Reach (Cfg.fixed cap) s) : s.rd ≠ .creditHeld ∧ s.wl ≠ .queueRst := by
  induction h with
  | init => simp
  | step _ st ih =>
    obtain ⟨h1, h2⟩ := ih
    cases st <;> simp_all [Cfg.fixed]

/-- the read loop, holding the request, lets go of it without needing room in the queue -/
theorem rd_releases {cap : Nat} {s : S} (h : Reach (Cfg.fixed cap) s) (hh : s.holder = some .rd) :
    ∃ s', Steps (Cfg.fixed cap) s s' ∧ s'.holder = none ∧ s'.wl = s.wl ∧ s'.q = s.q := by
  have i := inv h
  have j := inv_fixed h
  rcases i.rd.mp hh with hr | hr | hr
  · exact ⟨_, Steps.tail (Steps.one (Step.rdPlain s hr)) (Step.rdRelease _ rfl (by simpa using hh)), rfl, rfl, rfl⟩
  · exact absurd hr j.1
  · exact ⟨_, Steps.one (Step.rdRelease s hr hh), rfl, rfl, rfl⟩

end H2.Client.Queue
