import H2.Client.Model
/-! Helper lemmas for C11: what `afterGoAway` (`refuse`, `refuseAbove`) does to the table of waiting requests and to
their results. -/
namespace H2.Client

theorem eraseA_of_none {α} (l : List (Nat × α)) (k : Nat) (h : lookupA l k = none) : eraseA l k = l := by
  simp only [lookupA, Option.map_eq_none_iff, List.find?_eq_none] at h
  simp only [eraseA, List.filter_eq_self]
  intro p hp
  have := h p hp
  simpa using this

/-- `finish` takes the stream out of the table and leaves the GOAWAY bookkeeping alone -/
theorem finish_fields (c : Conn) (tag : String) (sid : Nat) (e : Err) :
    (finish c tag sid e).reqQueued = eraseA c.reqQueued sid ∧ (finish c tag sid e).closeRef = c.closeRef ∧
    (finish c tag sid e).goAway = c.goAway ∧ (finish c tag sid e).stateClosed = c.stateClosed := by
  simp only [finish, resolve, updReq, deletePending, takeReq]
  split
  · exact ⟨rfl, rfl, rfl, rfl⟩
  · rename_i h
    have : lookupA c.reqQueued sid = none := by
      cases hl : lookupA c.reqQueued sid with
      | none => rfl
      | some v => simp [hl] at h
    exact ⟨(eraseA_of_none _ _ this).symm, rfl, rfl, rfl⟩

theorem refuse_fields (c : Conn) (sid : Nat) (tag : String) :
    (refuse c sid tag).reqQueued = eraseA c.reqQueued sid ∧ (refuse c sid tag).closeRef = c.closeRef ∧
    (refuse c sid tag).goAway = c.goAway ∧ (refuse c sid tag).stateClosed = c.stateClosed := by
  simp only [refuse]
  split
  · exact ⟨rfl, rfl, rfl, rfl⟩
  · split
    · exact ⟨rfl, rfl, rfl, rfl⟩
    · exact finish_fields _ _ _ _

/-- what `afterGoAway` leaves in the table: nothing new, none of the streams above `closeRef` it went through,
every stream at or below `closeRef` -/
theorem refuseAbove_table (l : List (Nat × String)) :
    ∀ c : Conn,
      (refuseAbove c l).closeRef = c.closeRef ∧ (refuseAbove c l).goAway = c.goAway ∧
      (refuseAbove c l).stateClosed = c.stateClosed ∧
      (∀ p ∈ (refuseAbove c l).reqQueued, p ∈ c.reqQueued ∧ ∀ q ∈ l, q.1 > c.closeRef → p.1 ≠ q.1) ∧
      (∀ p ∈ c.reqQueued, p.1 ≤ c.closeRef → p ∈ (refuseAbove c l).reqQueued) := by
  induction l with
  | nil => intro c; exact ⟨rfl, rfl, rfl, fun p hp => ⟨hp, fun q hq => by simp at hq⟩, fun p hp _ => hp⟩
  | cons x xs ih =>
    intro c
    obtain ⟨sid, tag⟩ := x
    simp only [refuseAbove]
    split
    · rename_i hgt
      obtain ⟨r1, r2, r3, r4⟩ := refuse_fields c sid tag
      obtain ⟨i1, i2, i3, i4, i5⟩ := ih (refuse c sid tag)
      refine ⟨i1.trans r2, i2.trans r3, i3.trans r4, ?_, ?_⟩
      · intro p hp
        obtain ⟨hm, hne⟩ := i4 p hp
        rw [r1] at hm
        simp only [eraseA, List.mem_filter, bne_iff_ne, ne_eq] at hm
        refine ⟨hm.1, ?_⟩
        intro q hq hq2
        simp only [List.mem_cons] at hq
        rcases hq with rfl | hq
        · exact hm.2
        · exact hne q hq (by rw [r2]; exact hq2)
      · intro p hp hle
        apply i5 p
        · rw [r1]
          simp only [eraseA, List.mem_filter, bne_iff_ne, ne_eq]
          exact ⟨hp, by omega⟩
        · rw [r2]; exact hle
    · rename_i hle
      obtain ⟨i1, i2, i3, i4, i5⟩ := ih c
      refine ⟨i1, i2, i3, ?_, i5⟩
      intro p hp
      obtain ⟨hm, hne⟩ := i4 p hp
      refine ⟨hm, ?_⟩
      intro q hq hq2
      simp only [List.mem_cons] at hq
      rcases hq with rfl | hq
      · exact absurd hq2 hle
      · exact hne q hq hq2

/-! ### resolution -/

theorem getReq_updReq (c : Conn) (t tag : String) (f : Req → Req) (hf : ∀ r, (f r).tag = r.tag) :
    getReq (updReq c t f) tag = (getReq c tag).map fun r => if r.tag == t then f r else r := by
  simp only [getReq, updReq]
  induction c.reqs with
  | nil => rfl
  | cons x xs ih =>
    simp only [List.map_cons, List.find?_cons]
    have : ((if (x.tag == t) = true then f x else x).tag == tag) = (x.tag == tag) := by
      split
      · rw [hf]
      · rfl
    rw [this]
    cases x.tag == tag
    · exact ih
    · rfl

theorem resolve_tag (r : Req) (e : Err) : (r.resolve e).tag = r.tag := by
  simp only [Req.resolve]; split <;> rfl

/-- the request has a result, or its caller has taken it back -/
def Settled (c : Conn) (tag : String) : Prop :=
  ∀ q, getReq c tag = some q → q.done = true ∨ q.errBuf.isSome = true

theorem settled_resolve (c : Conn) (t tag : String) (e : Err) (h : Settled c tag) : Settled (resolve c t e) tag := by
  intro q hq
  rw [resolve, getReq_updReq c t tag _ (fun r => resolve_tag r e)] at hq
  cases hg : getReq c tag with
  | none => rw [hg] at hq; cases hq
  | some r =>
    rw [hg] at hq
    simp only [Option.map_some, Option.some.injEq] at hq
    have := h r hg
    subst hq
    split
    · simp only [Req.resolve]; split
      · exact this
      · right; rfl
    · exact this

theorem getReq_finish (c : Conn) (t tag : String) (sid : Nat) (e : Err) :
    getReq (finish c t sid e) tag = getReq (resolve c t e) tag := by
  simp only [finish, deletePending, takeReq, resolve, updReq, getReq]
  split <;> rfl

theorem settled_refuse_other (c : Conn) (sid : Nat) (t tag : String) (h : Settled c tag) : Settled (refuse c sid t) tag := by
  simp only [refuse]
  split
  · exact h
  · split
    · exact h
    · intro q hq
      rw [getReq_finish] at hq
      exact settled_resolve c t tag _ h q hq

/-- what `afterGoAway` does to one waiting request: it gets `goAwayErr` (and only leaves the table if its caller
has taken it back) -/
theorem refuse_resolves (c : Conn) (sid : Nat) (tag : String) (r : Req) (hr : getReq c tag = some r)
    (hd : r.done = false) (he : r.errBuf = none) :
    getReq (refuse c sid tag) tag = some { r with errBuf := some (goAwayErr r) } := by
  have ht : r.tag = tag := by
    have := List.find?_some hr
    simpa using this
  simp only [refuse, hr, hd, Bool.false_eq_true, if_false]
  rw [getReq_finish, resolve, getReq_updReq c tag tag _ (fun r => resolve_tag r _), hr]
  simp [ht, Req.resolve, hd, he]

theorem settled_refuse (c : Conn) (sid : Nat) (tag : String) : Settled (refuse c sid tag) tag := by
  intro q hq
  simp only [refuse] at hq
  split at hq
  · rename_i hn
    have : getReq { c with reqQueued := eraseA c.reqQueued sid } tag = getReq c tag := rfl
    rw [this, hn] at hq; cases hq
  · rename_i r hr
    split at hq
    · rename_i hd
      have : getReq { c with reqQueued := eraseA c.reqQueued sid } tag = getReq c tag := rfl
      rw [this, hr] at hq
      cases hq; left; exact hd
    · rw [getReq_finish, resolve, getReq_updReq c tag tag _ (fun r => resolve_tag r _), hr] at hq
      have ht : r.tag = tag := by
        have := List.find?_some hr
        simpa using this
      simp only [Option.map_some, ht, beq_self_eq_true, if_true, Option.some.injEq] at hq
      subst hq
      simp only [Req.resolve]
      split
      · rename_i h
        simp only [Bool.or_eq_true] at h
        exact h
      · right; rfl

theorem refuseAbove_settles (l : List (Nat × String)) :
    ∀ c : Conn, (∀ tag, Settled c tag → Settled (refuseAbove c l) tag) ∧
      (∀ p ∈ l, p.1 > c.closeRef → Settled (refuseAbove c l) p.2) := by
  induction l with
  | nil => intro c; exact ⟨fun _ h => h, fun p hp => by simp at hp⟩
  | cons x xs ih =>
    intro c
    obtain ⟨sid, tag⟩ := x
    simp only [refuseAbove]
    split
    · rename_i hgt
      obtain ⟨i1, i2⟩ := ih (refuse c sid tag)
      refine ⟨fun t h => i1 t (settled_refuse_other c sid tag t h), ?_⟩
      intro p hp hp2
      simp only [List.mem_cons] at hp
      rcases hp with rfl | hp
      · exact i1 _ (settled_refuse c sid tag)
      · exact i2 p hp (by rw [(refuse_fields c sid tag).2.1]; exact hp2)
    · rename_i hle
      obtain ⟨i1, i2⟩ := ih c
      refine ⟨i1, ?_⟩
      intro p hp hp2
      simp only [List.mem_cons] at hp
      rcases hp with rfl | hp
      · exact absurd hp2 hle
      · exact i2 p hp hp2


end H2.Client
