import H2.Proofs.StreamSMRefine
import H2.Proofs.MsgRefineLoop
set_option linter.unusedSimpArgs false
/-!
# C08 refinement — header-bearing frames: the block class the adapter computes with `walk` is `handleHeaderFrame`'s verdict
-/
namespace H2.Server.Lock.Refine
open H2.Frame (Frame Body)
open H2.Server
open H2.Server.StreamSM (Pos Fr Ctx Reaction Code TSt Cmp Inc Blk BlockOn)

/-- the class of an error of the field loop, as the abstract model names it -/
def blkRC (b : Blk) : Option RC := (StreamSM.blkErr b).map errAbsRC

/-- the field loop's own errors: GOAWAY(ENHANCE_YOUR_CALM), RST_STREAM(PROTOCOL_ERROR), RST_STREAM(ENHANCE_YOUR_CALM) -/
theorem fieldVerdict_codes (cfg : Cfg) (st : Strm) (f : Hpack.Field) (e : SErr) (h : fieldVerdict cfg st f = some e) :
    (∃ t, e = .goAway Gen.c_EnhanceYourCalm t) ∨ e = .reset Gen.c_ProtocolError ∨ e = .reset Gen.c_EnhanceYourCalm := by
  simp only [fieldVerdict] at h
  repeat' split at h
  all_goals first
    | (injection h with h; subst h; first | exact Or.inl ⟨_, rfl⟩ | exact Or.inr (Or.inl rfl) | exact Or.inr (Or.inr rfl))
    | cases h

theorem heldTooLong_eq (s : Srv) (t : Bytes) : Abs.Limits.fieldTooLong (msgCfg s).maxHeaderList t.length = heldTooLong s.cfg t := rfl

/-- **`walk` is `fieldLoop`**: the way the adapter's walk over the fragment ends is the field loop's verdict, and where the loop
accepts the frame the walk's C20 state is the projection of the stream -/
theorem walk_fieldLoop (fuel : Nat) (s : Srv) (st : Strm) (bs eh : Bool) (fp : Nat) (b : Bytes) (acc : List MsgSpec.Field)
    (hcl : 0 ≤ st.contentLength) :
    (fieldLoop fuel s st bs eh fp b).2.2.map errRC = blkRC (absBlk false (walk (msgCfg s) fuel s.dec (msgSt st) bs eh fp b acc)) ∧
    ((fieldLoop fuel s st bs eh fp b).2.2 = none →
      (walk (msgCfg s) fuel s.dec (msgSt st) bs eh fp b acc).1.isOk = true ∧
      (walk (msgCfg s) fuel s.dec (msgSt st) bs eh fp b acc).2.1 = msgSt (fieldLoop fuel s st bs eh fp b).2.1) := by
  induction fuel generalizing s st fp b acc with
  | zero => simp +decide [fieldLoop, walk, absBlk, blkRC, StreamSM.blkErr, errRC, errAbsRC]
  | succ n ih =>
    cases b with
    | nil => simp +decide [fieldLoop, walk, absBlk, blkRC, StreamSM.blkErr, errRC, errAbsRC, WalkEnd.isOk]
    | cons c cs =>
      simp only [fieldLoop, walk]
      cases hd : Hpack.Dec.next s.dec bs fp (c :: cs) with
      | needMore =>
        cases eh
        · simp only [Bool.not_false, if_true, heldTooLong_eq]
          by_cases hh : heldTooLong s.cfg (Hpack.Dec.skipUpdates s.dec bs fp (c :: cs)).2 = true
          · simp +decide [hh, absBlk, blkRC, StreamSM.blkErr, errRC, errAbsRC]
          · simp +decide [hh, absBlk, blkRC, StreamSM.blkErr, WalkEnd.isOk, msgSt]
        · simp +decide [absBlk, blkRC, StreamSM.blkErr, errRC, errAbsRC]
      | err => simp +decide [absBlk, blkRC, StreamSM.blkErr, errRC, errAbsRC]
      | ok dec fo rest =>
        cases fo with
        | none => simp +decide [absBlk, blkRC, StreamSM.blkErr, WalkEnd.isOk]
        | some f =>
          have hr := field_refines s.cfg { st with fieldSeen := true } f hcl
          have hm : msgSt { st with fieldSeen := true } = msgSt st := rfl
          have hc : cfgOf s.cfg = msgCfg s := rfl
          rw [hm, hc] at hr
          simp only [fieldStep, hr]
          cases hv : fieldVerdict s.cfg { st with fieldSeen := true } f with
          | some e =>
            rcases fieldVerdict_codes _ _ _ _ hv with ⟨t, rfl⟩ | rfl | rfl <;>
              simp +decide [absBlk, blkRC, StreamSM.blkErr, errRC, errAbsRC, absErr]
          | none =>
            simp only
            exact ih { s with dec := dec } (fieldUpdate { st with fieldSeen := true } f) (fp + 1) rest _
              (contentLength_nonneg _ f hcl)

/-- the stream record `handleHeaderFrame` hands to the field loop -/
def pre (st : Strm) (isCont eh : Bool) : Strm :=
  let st1 := if st.headersFinished && !eh then { st with headersFinished := false, regularSeen := true }
             else if st.headersFinished then { st with regularSeen := true } else st
  let st2 := if isCont then st1 else { st1 with fieldSeen := false }
  { st2 with prevHdr := [] }

/-- `handleHeaderFrame` with its three exits named; `es`/`eh` are the flag bits, `sd` the self-dependency test -/
def hhfOf (s : Srv) (st : Strm) (isCont es eh sd : Bool) (frag : Bytes) : Srv × Strm × Option SErr :=
  if st.headersFinished && !es && !eh then (s, st, some (.goAway Gen.c_ProtocolError "stream not open"))
  else if sd then (s, st, some (.goAway Gen.c_ProtocolError "stream that depends on itself"))
  else
    let x := fieldLoop ((st.prevHdr ++ frag).length + 1) s (pre st isCont eh) (!(pre st isCont eh).fieldSeen) eh 0 (st.prevHdr ++ frag)
    if st.headersFinished && !es && x.2.2.isNone then (x.1, x.2.1, some (.reset Gen.c_ProtocolError)) else x

theorem hhf_eq_headers (s : Srv) (st : Strm) (flags sid len : Nat) (prio : Option (Nat × Nat)) (frag : Bytes) :
    let fr : Frame := ⟨Gen.c_FrameHeaders, flags, sid, len,
      .headers (Frame.hasFlag flags Gen.c_FlagEndStream) (Frame.hasFlag flags Gen.c_FlagEndHeaders) prio frag⟩
    let y := hhfOf s st false (Frame.hasFlag flags Gen.c_FlagEndStream) (Frame.hasFlag flags Gen.c_FlagEndHeaders)
      (match prio with | some (dep, _) => dep == st.id | none => false) frag
    (handleHeaderFrame s st fr).1 = y.1 ∧ (handleHeaderFrame s st fr).2.2 = y.2.2 ∧
    ((handleHeaderFrame s st fr).2.2 = none → (handleHeaderFrame s st fr).2.1 = y.2.1) := by
  rcases prio with _ | ⟨dep, w⟩
  · cases hhf : st.headersFinished <;> cases hes : Frame.hasFlag flags Gen.c_FlagEndStream <;>
      cases heh : Frame.hasFlag flags Gen.c_FlagEndHeaders <;>
      simp [handleHeaderFrame, hhfOf, pre, hhf, hes, heh]
  · by_cases hd : dep = st.id <;> cases hhf : st.headersFinished <;> cases hes : Frame.hasFlag flags Gen.c_FlagEndStream <;>
      cases heh : Frame.hasFlag flags Gen.c_FlagEndHeaders <;>
      simp [handleHeaderFrame, hhfOf, pre, hhf, hes, heh, hd]

theorem hhf_eq_cont (s : Srv) (st : Strm) (flags sid len : Nat) (frag : Bytes) :
    let fr : Frame := ⟨Gen.c_FrameContinuation, flags, sid, len, .continuation (Frame.hasFlag flags Gen.c_FlagEndHeaders) frag⟩
    let y := hhfOf s st true (Frame.hasFlag flags Gen.c_FlagEndStream) (Frame.hasFlag flags Gen.c_FlagEndHeaders) false frag
    (handleHeaderFrame s st fr).1 = y.1 ∧ (handleHeaderFrame s st fr).2.2 = y.2.2 ∧
    ((handleHeaderFrame s st fr).2.2 = none → (handleHeaderFrame s st fr).2.1 = y.2.1) := by
  cases hhf : st.headersFinished <;> cases hes : Frame.hasFlag flags Gen.c_FlagEndStream <;>
    cases heh : Frame.hasFlag flags Gen.c_FlagEndHeaders <;>
    simp [handleHeaderFrame, hhfOf, pre, hhf, hes, heh]

/-- the field loop leaves the tables alone -/
theorem fieldLoop_tbl (fuel : Nat) (s : Srv) (st : Strm) (bs eh : Bool) (fp : Nat) (b : Bytes) :
    (fieldLoop fuel s st bs eh fp b).1.strms = s.strms ∧ (fieldLoop fuel s st bs eh fp b).1.lastID = s.lastID ∧
    (fieldLoop fuel s st bs eh fp b).1.lastRefused = s.lastRefused ∧ (fieldLoop fuel s st bs eh fp b).1.ring = s.ring ∧
    (fieldLoop fuel s st bs eh fp b).1.resetByUs = s.resetByUs := by
  induction fuel generalizing s st fp b with
  | zero => exact ⟨rfl, rfl, rfl, rfl, rfl⟩
  | succ n ih =>
    cases b with
    | nil => exact ⟨rfl, rfl, rfl, rfl, rfl⟩
    | cons c cs =>
      simp only [fieldLoop]
      cases hd : Hpack.Dec.next s.dec bs fp (c :: cs) with
      | needMore => simp only; (repeat' split) <;> exact ⟨rfl, rfl, rfl, rfl, rfl⟩
      | err => exact ⟨rfl, rfl, rfl, rfl, rfl⟩
      | ok dec fo rest =>
        cases fo with
        | none => exact ⟨rfl, rfl, rfl, rfl, rfl⟩
        | some f =>
          simp only [fieldStep]
          split
          · exact ⟨rfl, rfl, rfl, rfl, rfl⟩
          · exact ih _ _ _ _

theorem pre_msg (st : Strm) (isCont eh : Bool) :
    msgSt (pre st isCont eh) = (if st.headersFinished then Msg.startTrailers (msgSt st) else msgSt st) ∧
    (!(pre st isCont eh).fieldSeen) = (!(isCont && st.fieldSeen)) ∧ (pre st isCont eh).contentLength = st.contentLength ∧
    (pre st isCont eh).prevHdr = [] ∧
    (pre st isCont eh).headersFinished = (if st.headersFinished && !eh then false else st.headersFinished) ∧
    (pre st isCont eh).uid = st.uid ∧ (pre st isCont eh).id = st.id ∧ (pre st isCont eh).state = st.state ∧
    (pre st isCont eh).responded = st.responded ∧ (pre st isCont eh).handlerRunning = st.handlerRunning ∧
    (pre st isCont eh).pendLen = st.pendLen ∧ (pre st isCont eh).stream = st.stream ∧ (pre st isCont eh).recvBody = st.recvBody := by
  cases hhf : st.headersFinished <;> cases isCont <;> cases eh <;>
    simp [pre, hhf, msgSt, Msg.startTrailers]

/-- the fields of a stream no header frame changes -/
def K (st : Strm) : Nat × Nat × StState × Bool × Bool × Nat × Option BodyStream × Nat :=
  (st.uid, st.id, st.state, st.responded, st.handlerRunning, st.pendLen, st.stream, st.recvBody)

theorem ctl_K {a b : Strm} (h : a.ctl = b.ctl) : K a = K b := by
  simp only [Strm.ctl, Ctl.mk.injEq] at h
  simp only [K, h]

theorem handleHeaderFrame_K (s : Srv) (st : Strm) (fr : Frame) : K (handleHeaderFrame s st fr).2.1 = K st := by
  simp only [handleHeaderFrame]
  repeat' split
  all_goals first
    | rfl
    | (refine (ctl_K (fieldLoop_ctl _ _ _ _ _ _ _).1).trans ?_; rfl)

theorem handleHeaderFrame_tbl (s : Srv) (st : Strm) (fr : Frame) :
    (handleHeaderFrame s st fr).1.strms = s.strms ∧ (handleHeaderFrame s st fr).1.lastID = s.lastID ∧
    (handleHeaderFrame s st fr).1.lastRefused = s.lastRefused ∧ (handleHeaderFrame s st fr).1.ring = s.ring ∧
    (handleHeaderFrame s st fr).1.resetByUs = s.resetByUs := by
  simp only [handleHeaderFrame]
  repeat' split
  all_goals first
    | exact ⟨rfl, rfl, rfl, rfl, rfl⟩
    | exact fieldLoop_tbl _ _ _ _ _ _ _

theorem K_resume {a b : Strm} (h : K a = K b) : resume a = resume b := by
  simp only [K, Prod.mk.injEq] at h
  simp only [resume, hasMoreToSend, h]

theorem fieldLoop_cl (fuel : Nat) (s : Srv) (st : Strm) (bs eh : Bool) (fp : Nat) (b : Bytes) (h : 0 ≤ st.contentLength) :
    0 ≤ (fieldLoop fuel s st bs eh fp b).2.1.contentLength := by
  induction fuel generalizing s st fp b with
  | zero => exact h
  | succ n ih =>
    cases b with
    | nil => exact h
    | cons c cs =>
      simp only [fieldLoop]
      cases hd : Hpack.Dec.next s.dec bs fp (c :: cs) with
      | needMore => simp only; (repeat' split) <;> exact h
      | err => exact h
      | ok dec fo rest =>
        cases fo with
        | none => exact h
        | some f =>
          simp only [fieldStep]
          have h' : 0 ≤ (fieldUpdate { st with fieldSeen := true } f).contentLength := contentLength_nonneg _ f h
          split
          · exact h'
          · exact ih _ _ _ _ h'

/-- **`handleHeaderFrame` against the abstract `handleHeaderFrame`**, the block class being the adapter's (without the
pseudo-header test, which `handleFrame` makes afterwards) -/
theorem hhfOf_spec (s : Srv) (st : Strm) (isCont es eh sd : Bool) (frag : Bytes) (hcl : 0 ≤ st.contentLength) :
    let w := walk (msgCfg s) ((st.prevHdr ++ frag).length + 1) s.dec
      (if st.headersFinished then Msg.startTrailers (msgSt st) else msgSt st) (!(isCont && st.fieldSeen)) eh 0 (st.prevHdr ++ frag) []
    let y := hhfOf s st isCont es eh sd frag
    (y.2.2.map errRC = match StreamSM.handleHeaderFrame (absT st) es eh sd (absBlk false w) with
        | .error e => some (errAbsRC e) | .ok _ => none) ∧
    (y.2.2 = none →
      w.1.isOk = true ∧ w.2.1 = msgSt y.2.1 ∧ 0 ≤ y.2.1.contentLength ∧ (eh = true → y.2.1.prevHdr = []) ∧
      y.2.1.headersFinished = (if st.headersFinished && !eh then false else st.headersFinished)) := by
  intro w y
  obtain ⟨p1, p2, p3, p4, p5, -⟩ := pre_msg st isCont eh
  have A := walk_fieldLoop ((st.prevHdr ++ frag).length + 1) s (pre st isCont eh) (!(pre st isCont eh).fieldSeen) eh 0
    (st.prevHdr ++ frag) [] (by rw [p3]; exact hcl)
  rw [p1] at A
  have hw : walk (msgCfg s) ((st.prevHdr ++ frag).length + 1) s.dec
      (if st.headersFinished then Msg.startTrailers (msgSt st) else msgSt st) (!(pre st isCont eh).fieldSeen) eh 0 (st.prevHdr ++ frag) [] = w := by
    rw [p2]
  rw [hw] at A
  obtain ⟨A1, A2⟩ := A
  have G := fieldLoop_cl ((st.prevHdr ++ frag).length + 1) s (pre st isCont eh) (!(pre st isCont eh).fieldSeen) eh 0 (st.prevHdr ++ frag)
    (by rw [p3]; exact hcl)
  have C := (fieldLoop_ctl ((st.prevHdr ++ frag).length + 1) s (pre st isCont eh) (!(pre st isCont eh).fieldSeen) eh 0 (st.prevHdr ++ frag)).1
  have S := fieldLoop_state ((st.prevHdr ++ frag).length + 1) s (pre st isCont eh) (!(pre st isCont eh).fieldSeen) eh 0 (st.prevHdr ++ frag)
  simp only [y, hhfOf, StreamSM.handleHeaderFrame, absT]
  by_cases h1 : (st.headersFinished && !es && !eh) = true
  · simp +decide [h1, errRC, errAbsRC]
  · simp only [h1, Bool.false_eq_true, if_false]
    cases sd
    · simp only [Bool.false_eq_true, if_false]
      generalize hx : fieldLoop ((st.prevHdr ++ frag).length + 1) s (pre st isCont eh) (!(pre st isCont eh).fieldSeen) eh 0 (st.prevHdr ++ frag) = x at A1 A2 G S C
      cases hb : StreamSM.blkErr (absBlk false w) with
      | some e =>
        rw [blkRC, hb] at A1
        cases hx2 : x.2.2 with
        | none => rw [hx2] at A1; simp at A1
        | some e' =>
          rw [hx2] at A1
          simp only [Option.map_some, Option.some.injEq] at A1
          simp [hx2, A1]
      | none =>
        rw [blkRC, hb] at A1
        have hx2 : x.2.2 = none := by cases h : x.2.2 <;> simp_all
        obtain ⟨a1, a2⟩ := A2 hx2
        by_cases h2 : (st.headersFinished && !es) = true
        · simp +decide [hx2, h2, errRC, errAbsRC]
        · have hpv : eh = true → x.2.1.prevHdr = [] := by
            intro he
            have := S hx2
            split at this
            · rw [this.2.1, p4]
            · rw [he] at this; exact absurd this.1 (by decide)
            · exact this.elim
          have hhf : x.2.1.headersFinished = (if st.headersFinished && !eh then false else st.headersFinished) := by
            have := congrArg Ctl.headersFinished C
            simp only [Strm.ctl] at this
            rw [this, p5]
          simp +decide [hx2, h2, a1, a2, G, hhf]
          exact hpv
    · simp +decide [errRC, errAbsRC]

/-- `handleFrame` on a header-bearing frame that `verifyState` and the finished-stream test let through -/
def hfHdr (r : R) (u : Nat) (st : Strm) (fr : Frame) : R × Option SErr :=
  let x := handleHeaderFrame r.s st fr
  let r1 := ({ r with s := x.1 } : R).updStrm u fun _ => x.2.1
  match x.2.2 with
  | some e => (r1, some e)
  | none =>
    if Frame.hasFlag fr.flags Gen.c_FlagEndHeaders then
      (r1.updStrm u fun s => { s with headersFinished := x.2.1.prevHdr.isEmpty },
        if !x.2.1.prevHdr.isEmpty then some (.goAway Gen.c_ProtocolError "END_HEADERS received on an incomplete stream")
        else validatePseudo x.2.1)
    else (r1, none)

theorem handleFrame_hdr {r : R} {u : Nat} {st : Strm} {fr : Frame} (hg : r.getStrm u = some st) (hv : verifyState st fr = none)
    (htyp : fr.typ = Gen.c_FrameHeaders ∨ fr.typ = Gen.c_FrameContinuation)
    (hrank : (decide (st.state.rank ≥ StState.halfClosed.rank) && !continuingHeaders st fr) = false) :
    handleFrame r u fr = hfHdr r u st fr := by
  have ht : (fr.typ == Gen.c_FrameHeaders || fr.typ == Gen.c_FrameContinuation) = true := by
    rcases htyp with h | h <;> simp [h]
  simp only [handleFrame, hg, hv, ht, if_true, hrank, Bool.false_eq_true, if_false, hfHdr]
  rcases handleHeaderFrame r.s st fr with ⟨s', st', e⟩
  cases e <;> simp only
  split
  · split <;> rfl
  · rfl

end H2.Server.Lock.Refine
