import H2.Proofs.StreamSMRefine.Base
set_option linter.unusedSimpArgs false
/-!
# C08 refinement — the read loop's checks and the unknown-stream branch of the stream loop
-/
namespace H2.Server.Lock.Refine
open H2.Frame (Frame Body)
open H2.Server
open H2.Server.StreamSM (Pos Fr Ctx Reaction Code TSt Cmp Inc Blk BlockOn)

def absT (st : Strm) : StreamSM.T := ⟨absTSt st.state, st.headersFinished, st.responded, st.handlerRunning⟩

def cmpOf (s : Srv) (sid : Nat) : Cmp :=
  if sid > s.lastID then (if sid > s.lastRefused then .above else .gap) else if sid == s.lastID then .equal else .below

theorem absPos_tab {s : Srv} {sid : Nat} {st : Strm} (hodd : sid % 2 = 1) (hl : lookup s sid = some st) :
    absPos s sid = (absT st).pos := by
  simp [absPos, hodd, hl, absT, StreamSM.T.pos]

theorem absPos_out {s : Srv} {sid : Nat} (hodd : sid % 2 = 1) (hl : lookup s sid = none) :
    absPos s sid = .out (s.resetByUs.contains sid) (s.ring.contains sid) (cmpOf s sid) := by
  simp [absPos, hodd, hl, cmpOf]

theorem absPos_even {s : Srv} {sid : Nat} (hev : sid % 2 = 0) : absPos s sid = .even := by
  simp [absPos, hev]

/-- the stream-loop part of `react`: what happens once the read loop has let the frame through -/
def reactSL (p : Pos) (f : Fr) (c : Ctx) : Reaction × Pos :=
  match p with
  | .even => (.connErr .protocol, p)
  | .out byUs inRing cmp => StreamSM.unknown byUs inRing cmp f c
  | .tab st hf responded running => StreamSM.afterLookup ⟨st, hf, responded, running⟩ f c

theorem react_eq (p : Pos) (f : Fr) (c : Ctx) :
    StreamSM.react p f c = match StreamSM.rl p f c with | some r => (r, p) | none => reactSL p f c := by
  unfold StreamSM.react reactSL
  cases StreamSM.rl p f c <;> cases p <;> rfl

/-- the stream loop does not read the CONTINUATION bookkeeping -/
theorem reactSL_block (p : Pos) (f : Fr) (c : Ctx) (b : BlockOn) : reactSL p f { c with block := b } = reactSL p f c := by
  obtain ⟨bl, a1, a2, a3, a4⟩ := c
  cases p <;> rfl

def isConn : Reaction → Bool
  | .connErr _ => true
  | _ => false

theorem addKnown_contains (k : List Nat) (sid : Nat) : (if k.contains sid then k else k ++ [sid]).contains sid = true := by
  cases h : k.contains sid
  · simp
  · simpa using h

theorem writeReset_contains (r : R) (sid code : Nat) : (writeReset r sid code).s.resetByUs.contains sid = true := by
  simp only [writeReset, R.emit]
  exact addKnown_contains _ _

/-- the ring remembers the id `closeStream` puts in -/
theorem markClosed_contains (ring : List Nat) (id : Nat) : (markClosed ring id).contains id = true := by
  simp only [markClosed]
  cases h : ring.contains id
  · simp only [Bool.false_eq_true, if_false]; split <;> simp
  · simpa using h

/-! ## the unknown-stream branch -/

theorem absPos_congr {s s' : Srv} (h1 : s'.strms = s.strms) (h2 : s'.lastID = s.lastID) (h3 : s'.lastRefused = s.lastRefused)
    (h4 : s'.ring = s.ring) (h5 : s'.resetByUs = s.resetByUs) (x : Nat) : absPos s' x = absPos s x := by
  simp only [absPos, lookup, h1, h2, h3, h4, h5]

@[simp] theorem closeIfDone_out (r : R) : (closeIfDone r).out = r.out := by
  simp only [closeIfDone, stopLoop]; split <;> rfl
@[simp] theorem stopLoop_out (r : R) : (stopLoop r).out = r.out := rfl
@[simp] theorem writeGoAway_out (r : R) (sid code : Nat) (tag : String) :
    (writeGoAway r sid code tag).out = r.out ++ [.goAway ((if sid > r.s.lastID then sid else r.s.lastID) % 2 ^ 31) code tag] := rfl
@[simp] theorem writeReset_out (r : R) (sid code : Nat) : (writeReset r sid code).out = r.out ++ [.rst sid code] := rfl
@[simp] theorem consumeConnWindow_pX (sid : Nat) (r : R) (n : Nat) : fm (pX sid) (consumeConnWindow r n).out = fm (pX sid) r.out :=
  consumeConnWindow_fm (pX sid) _ (pX_only sid) (by decide) r n

theorem consumeConnWindow_pos (r : R) (n x : Nat) : absPos (consumeConnWindow r n).s x = absPos r.s x := by
  apply absPos_congr <;> (simp only [consumeConnWindow, R.emit]; repeat' split) <;> rfl

@[simp] theorem rcOf_nil : rcOf [] = .ok := rfl
@[simp] theorem rcOf_ga (c : Nat) (l : List XE) : rcOf (.ga c :: l) = .conn c := rfl
@[simp] theorem rcOf_rs (c : Nat) : rcOf [.rs c] = .strm c := rfl

theorem cmpOf_cases (s : Srv) (sid : Nat) :
    (sid > s.lastID ∧ sid > s.lastRefused ∧ cmpOf s sid = .above) ∨ (sid > s.lastID ∧ ¬ sid > s.lastRefused ∧ cmpOf s sid = .gap) ∨
    (¬ sid > s.lastID ∧ True ∧ cmpOf s sid = .equal) ∨ (¬ sid > s.lastID ∧ True ∧ cmpOf s sid = .below) := by
  unfold cmpOf
  by_cases h1 : sid > s.lastID <;> by_cases h2 : sid > s.lastRefused <;> by_cases h3 : sid = s.lastID <;> simp [h1, h2, h3]

theorem lookup_congr {s s' : Srv} (e1 : s'.strms = s.strms) (e2 : s'.lastID = s.lastID) (x : Nat) : lookup s' x = lookup s x := by
  simp only [lookup, e1, e2]

/-- a refused stream: remembered as reset by this side, `lastRefused` at least its id -/
theorem refuse_pos (r : R) (sid code : Nat) (hodd : sid % 2 = 1) (hl : lookup r.s sid = none) :
    absPos (writeReset { r with s := { r.s with lastRefused := max r.s.lastRefused sid } } sid code).s sid =
      .out true (r.s.ring.contains sid) (if cmpOf r.s sid == .above then .gap else cmpOf r.s sid) := by
  have hl2 : lookup (writeReset { r with s := { r.s with lastRefused := max r.s.lastRefused sid } } sid code).s sid = none :=
    (lookup_congr (s := r.s) rfl rfl sid).trans hl
  rw [absPos_out hodd hl2, writeReset_contains]
  congr 1
  show cmpOf { r.s with lastRefused := max r.s.lastRefused sid, resetByUs := _ } sid = _
  simp only [cmpOf]
  by_cases h1 : sid > r.s.lastID <;> by_cases h2 : sid > r.s.lastRefused <;> by_cases h3 : sid = r.s.lastID <;>
    simp +decide [h1, h2, h3] <;> omega

/-- the state `unknownStream` leaves when it creates the stream -/
def created (r : R) (fr : Frame) : R :=
  { r with s := { r.s with strms := r.s.strms ++ [{ uid := r.s.nextUid, id := fr.stream, window := r.s.curInitWin, origType := fr.typ }],
                           nextUid := r.s.nextUid + 1, openStreams := r.s.openStreams + 1, lastID := fr.stream } }

/-- **the unknown-stream branch**: for a frame whose stream is not in the table (odd id), either the abstract model
and the full model both go on to create the stream (and the full model's state is `created`), or the full model's
outputs are of the class the abstract model gives, and unless that is a connection error the stream's place
afterwards is the abstract model's. `c` is any context with the adapter's `refuse`. -/
theorem unknown_refines (r : R) (fr : Frame) (wc : Bool) (hwf : FrWF fr)
    (hl : lookup r.s fr.stream = none) (hodd : fr.stream % 2 = 1) (hout : fm (pX fr.stream) r.out = [])
    (c : Ctx) (hrefuse : c.refuse = (decide (r.s.openStreams ≥ (r.s.cfg.maxStreams : Int)) || wc)) :
    let a := StreamSM.unknown (r.s.resetByUs.contains fr.stream) (r.s.ring.contains fr.stream) (cmpOf r.s fr.stream) (absFrame r.s fr) c
    let u := unknownStream r fr wc
    (u.2 = none ∧ rcOf (fm (pX fr.stream) u.1.out) = absRC a.1 ∧ (isConn a.1 = false → absPos u.1.s fr.stream = a.2)) ∨
    (u.2 = some r.s.nextUid ∧ u.1 = created r fr ∧ fr.typ = Gen.c_FrameHeaders ∧
      r.s.resetByUs.contains fr.stream = false ∧ r.s.ring.contains fr.stream = false ∧ cmpOf r.s fr.stream = .above ∧
      a = StreamSM.afterLookup ⟨.idle, false, false, false⟩ (absFrame r.s fr) { c with isLast := true }) := by
  obtain ⟨typ, flags, sid, len, body⟩ := fr
  simp only at hl hodd hout ⊢
  cases body with
  | data es b =>
    simp only [FrWF] at hwf
    obtain ⟨rfl, rfl⟩ := hwf
    by_cases hb : sid ∈ r.s.resetByUs <;> by_cases hr : sid ∈ r.s.ring <;>
      rcases cmpOf_cases r.s sid with ⟨h1, h2, hc⟩ | ⟨h1, h2, hc⟩ | ⟨h1, h2, hc⟩ | ⟨h1, h2, hc⟩
    all_goals
      simp +decide [unknownStream, StreamSM.unknown, absFrame, hb, hr, h1, hc, StreamSM.isRst, StreamSM.isHeaders, absRC, isConn, hout, pX,
        absPos_out hodd hl, hl, consumeConnWindow_pos]
  | priority dep w =>
    simp only [FrWF] at hwf
    subst hwf
    by_cases hb : sid ∈ r.s.resetByUs <;> by_cases hr : sid ∈ r.s.ring <;>
      rcases cmpOf_cases r.s sid with ⟨h1, h2, hc⟩ | ⟨h1, h2, hc⟩ | ⟨h1, h2, hc⟩ | ⟨h1, h2, hc⟩
    all_goals
      simp +decide [unknownStream, StreamSM.unknown, absFrame, hb, hr, h1, hc, StreamSM.isRst, StreamSM.isHeaders, absRC, isConn, hout, pX,
        absPos_out hodd hl, hl, consumeConnWindow_pos]
    all_goals (by_cases hd : dep = sid <;> simp +decide [hd, hout, pX, absPos_out hodd hl, hc, hb, hr, absRC, isConn])
  | rstStream code =>
    simp only [FrWF] at hwf
    subst hwf
    by_cases hb : sid ∈ r.s.resetByUs <;> by_cases hr : sid ∈ r.s.ring <;>
      rcases cmpOf_cases r.s sid with ⟨h1, h2, hc⟩ | ⟨h1, h2, hc⟩ | ⟨h1, h2, hc⟩ | ⟨h1, h2, hc⟩
    all_goals
      simp +decide [unknownStream, StreamSM.unknown, absFrame, hb, hr, h1, hc, StreamSM.isRst, StreamSM.isHeaders, absRC, isConn, hout, pX,
        absPos_out hodd hl, hl, consumeConnWindow_pos]
  | settings sv =>
    simp only [FrWF] at hwf
    subst hwf
    by_cases hb : sid ∈ r.s.resetByUs <;> by_cases hr : sid ∈ r.s.ring <;>
      rcases cmpOf_cases r.s sid with ⟨h1, h2, hc⟩ | ⟨h1, h2, hc⟩ | ⟨h1, h2, hc⟩ | ⟨h1, h2, hc⟩
    all_goals
      simp +decide [unknownStream, StreamSM.unknown, absFrame, hb, hr, h1, hc, StreamSM.isRst, StreamSM.isHeaders, absRC, isConn, hout, pX,
        absPos_out hodd hl, hl, consumeConnWindow_pos]
  | pushPromise a b2 c2 =>
    simp only [FrWF] at hwf
    subst hwf
    by_cases hb : sid ∈ r.s.resetByUs <;> by_cases hr : sid ∈ r.s.ring <;>
      rcases cmpOf_cases r.s sid with ⟨h1, h2, hc⟩ | ⟨h1, h2, hc⟩ | ⟨h1, h2, hc⟩ | ⟨h1, h2, hc⟩
    all_goals
      simp +decide [unknownStream, StreamSM.unknown, absFrame, hb, hr, h1, hc, StreamSM.isRst, StreamSM.isHeaders, absRC, isConn, hout, pX,
        absPos_out hodd hl, hl, consumeConnWindow_pos]
  | ping a b2 =>
    simp only [FrWF] at hwf
    subst hwf
    by_cases hb : sid ∈ r.s.resetByUs <;> by_cases hr : sid ∈ r.s.ring <;>
      rcases cmpOf_cases r.s sid with ⟨h1, h2, hc⟩ | ⟨h1, h2, hc⟩ | ⟨h1, h2, hc⟩ | ⟨h1, h2, hc⟩
    all_goals
      simp +decide [unknownStream, StreamSM.unknown, absFrame, hb, hr, h1, hc, StreamSM.isRst, StreamSM.isHeaders, absRC, isConn, hout, pX,
        absPos_out hodd hl, hl, consumeConnWindow_pos]
  | goAway a b2 c2 =>
    simp only [FrWF] at hwf
    subst hwf
    by_cases hb : sid ∈ r.s.resetByUs <;> by_cases hr : sid ∈ r.s.ring <;>
      rcases cmpOf_cases r.s sid with ⟨h1, h2, hc⟩ | ⟨h1, h2, hc⟩ | ⟨h1, h2, hc⟩ | ⟨h1, h2, hc⟩
    all_goals
      simp +decide [unknownStream, StreamSM.unknown, absFrame, hb, hr, h1, hc, StreamSM.isRst, StreamSM.isHeaders, absRC, isConn, hout, pX,
        absPos_out hodd hl, hl, consumeConnWindow_pos]
  | windowUpdate inc =>
    simp only [FrWF] at hwf
    subst hwf
    by_cases hb : sid ∈ r.s.resetByUs <;> by_cases hr : sid ∈ r.s.ring <;>
      rcases cmpOf_cases r.s sid with ⟨h1, h2, hc⟩ | ⟨h1, h2, hc⟩ | ⟨h1, h2, hc⟩ | ⟨h1, h2, hc⟩
    all_goals
      simp +decide [unknownStream, StreamSM.unknown, absFrame, hb, hr, h1, hc, StreamSM.isRst, StreamSM.isHeaders, absRC, isConn, hout, pX,
        absPos_out hodd hl, hl, consumeConnWindow_pos]
  | continuation eh frag =>
    simp only [FrWF] at hwf
    obtain ⟨rfl, rfl⟩ := hwf
    by_cases hb : sid ∈ r.s.resetByUs <;> by_cases hr : sid ∈ r.s.ring <;>
      rcases cmpOf_cases r.s sid with ⟨h1, h2, hc⟩ | ⟨h1, h2, hc⟩ | ⟨h1, h2, hc⟩ | ⟨h1, h2, hc⟩
    all_goals
      simp +decide [unknownStream, StreamSM.unknown, absFrame, hb, hr, h1, hc, StreamSM.isRst, StreamSM.isHeaders, absRC, isConn, hout, pX,
        absPos_out hodd hl, hl, consumeConnWindow_pos]
  | headers es eh prio frag =>
    simp only [FrWF] at hwf
    obtain ⟨rfl, rfl, rfl⟩ := hwf
    have hl' : ∀ s' : Srv, s'.strms = r.s.strms → s'.lastID = r.s.lastID → lookup s' sid = none := by
      intro s' e1 e2; simpa only [lookup, e1, e2] using hl
    by_cases hb : sid ∈ r.s.resetByUs <;> by_cases hr : sid ∈ r.s.ring <;>
      rcases cmpOf_cases r.s sid with ⟨h1, h2, hc⟩ | ⟨h1, h2, hc⟩ | ⟨h1, h2, hc⟩ | ⟨h1, h2, hc⟩ <;>
      by_cases hq : (decide (r.s.openStreams ≥ (r.s.cfg.maxStreams : Int)) || wc) = true <;>
      by_cases hle : sid ≤ r.s.lastID ∨ sid ≤ r.s.lastRefused
    all_goals first | (exfalso; omega) | skip
    all_goals
      simp +decide [unknownStream, StreamSM.unknown, absFrame, hb, hr, h1, hc, StreamSM.isRst, StreamSM.isHeaders, absRC, isConn, hout, pX,
        absPos_out hodd hl, hl, hrefuse, hq, created, hle, refuse_pos r sid _ hodd hl]

end H2.Server.Lock.Refine
