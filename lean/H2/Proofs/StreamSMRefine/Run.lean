import H2.Proofs.StreamSMRefine.Rl
import H2.Proofs.ServerFlowFull
set_option linter.unusedSimpArgs false
/-!
# C08 refinement — run level: which hypotheses of `frame_refines` hold in every reachable state

`PQ`: every stream of the table has `0 ≤ contentLength` and is not `reserved` — preserved by every function of the model
(`…_pq`), so it holds after every run (`run_pq`). Table ids / uids distinct, `uid < nextUid`, `id ≤ lastID` come from
`reachable_tbl` (`ServerFlowFull.lean`).
-/
namespace H2.Server.Lock.Refine
open H2.Frame (Frame Body)
open H2.Server

def PS (st : Strm) : Prop := 0 ≤ st.contentLength ∧ st.state ≠ .reserved
def PQ (r : R) : Prop := ∀ st ∈ r.s.strms, PS st

section
variable {r r' : R}

theorem PQ.congr (h : PQ r) (e : r'.s.strms = r.s.strms) : PQ r' := by intro st hm; rw [e] at hm; exact h st hm
theorem PQ.sub (h : PQ r) (hs : ∀ x ∈ r'.s.strms, x ∈ r.s.strms) : PQ r' := fun st hm => h st (hs st hm)
theorem PQ.upd (h : PQ r) (u : Nat) (f : Strm → Strm) (hf : ∀ x, PS x → PS (f x)) : PQ (r.updStrm u f) := by
  intro st hm
  simp only [R.updStrm, List.mem_map] at hm
  obtain ⟨x, hx, rfl⟩ := hm
  split
  · exact hf x (h x hx)
  · exact h x hx
theorem PQ.updc (h : PQ r) (u : Nat) (st' : Strm) (hs : PS st') : PQ (r.updStrm u fun _ => st') := by
  intro st hm
  simp only [R.updStrm, List.mem_map] at hm
  obtain ⟨x, hx, rfl⟩ := hm
  split
  · exact hs
  · exact h x hx
theorem PQ.upd' (h : PQ r) (u : Nat) (f : Strm → Strm) (hf : ∀ x, (f x).contentLength = x.contentLength ∧ (f x).state = x.state) :
    PQ (r.updStrm u f) := h.upd u f fun x hx => ⟨by rw [(hf x).1]; exact hx.1, by rw [(hf x).2]; exact hx.2⟩
theorem PQ.get (h : PQ r) {u : Nat} {st : Strm} (hg : r.getStrm u = some st) : PS st := h st (List.mem_of_find?_eq_some hg)
theorem PQ.emit (h : PQ r) (o : Out) : PQ (r.emit o) := h

theorem writeReset_pq (sid code : Nat) (h : PQ r) : PQ (writeReset r sid code) := h.congr rfl
theorem writeGoAway_pq (sid code : Nat) (tag : String) (h : PQ r) : PQ (writeGoAway r sid code tag) := by
  apply h.congr; simp only [writeGoAway, R.emit]; split <;> rfl
theorem ps_closed {x : Strm} (h : PS x) : PS { x with state := .closed } := ⟨h.1, by simp⟩
theorem writeError_pq (u : Nat) (e : SErr) (h : PQ r) : PQ (writeError r u e) := by
  simp only [writeError]
  split
  · exact h
  · cases e
    · exact (writeGoAway_pq _ _ _ h).upd _ _ fun _ hx => ps_closed hx
    · exact (writeReset_pq _ _ h).upd _ _ fun _ hx => ps_closed hx
theorem releaseStream_pq (st : Strm) (h : PQ r) : PQ (releaseStream r st) := by
  apply h.congr; simp only [releaseStream]; split <;> rfl
theorem closeStream_pq (u : Nat) (h : PQ r) : PQ (closeStream r u) := by
  simp only [closeStream]
  split
  · exact h
  · have h1 : ∀ (x : R), x.s.strms = delFirst r.s.strms ‹Strm›.id → PQ x := fun x e =>
      h.sub (by intro y hy; rw [e] at hy; exact (delFirst_sublist _ _).subset hy)
    split
    · exact h1 _ rfl
    · exact releaseStream_pq _ (h1 _ rfl)

theorem refill_pq (u : Nat) (st : Strm) (hs : PS st) (h : PQ r) : PQ (refill r u st).1 ∧ PS (refill r u st).2.1 := by
  simp only [refill]
  repeat' split
  all_goals first
    | exact ⟨h, hs⟩
    | exact ⟨writeReset_pq _ _ (h.updc _ _ hs), hs⟩
    | exact ⟨h.updc _ _ (by first | exact hs | exact ⟨hs.1, hs.2⟩), by first | exact hs | exact ⟨hs.1, hs.2⟩⟩
    | exact ⟨(h.updc _ _ (by first | exact hs | exact ⟨hs.1, hs.2⟩)).emit _, by first | exact hs | exact ⟨hs.1, hs.2⟩⟩

theorem closeBody_pq (u : Nat) (h : PQ r) : PQ (closeBody r u) := h.upd' _ _ fun _ => ⟨rfl, rfl⟩
theorem sendFrame_pq (u : Nat) (st : Strm) (n : Nat) (h : PQ r) : PQ (sendFrame r u st n).1 := by
  intro x hx
  simp only [sendFrame, R.updStrm, R.emit, List.mem_map] at hx
  obtain ⟨y, hy, rfl⟩ := hx
  split <;> exact h y hy

theorem sendDataFuel_pq (fuel : Nat) (u : Nat) (h : PQ r) : PQ (sendDataFuel fuel r u).1 := by
  induction fuel generalizing r with
  | zero => exact h
  | succ n ih =>
    simp only [sendDataFuel]
    split
    · exact h
    · rename_i st0 hg
      obtain ⟨a, b⟩ := refill_pq u st0 (h.get hg) h
      repeat' split
      all_goals first
        | exact closeBody_pq _ a
        | exact a
        | exact closeBody_pq _ (sendFrame_pq _ _ _ a)
        | exact ih (sendFrame_pq _ _ _ a)

theorem sendData_pq (u : Nat) (h : PQ r) : PQ (sendData r u).1 := by
  simp only [sendData]; split
  · exact h
  · exact sendDataFuel_pq _ _ h

theorem closeDone_pq (u : Nat) (h : PQ r) : PQ (closeDone r u) :=
  closeStream_pq _ (h.upd _ _ fun _ hx => ps_closed hx)

theorem flushOne_pq (acc : R × List Nat) (u : Nat) (h : PQ acc.1) : PQ (flushOne acc u).1 := by
  simp only [flushOne]
  repeat' split
  all_goals first | exact h | exact sendData_pq _ h

theorem flushStreams_pq (h : PQ r) : PQ (flushStreams r) := by
  simp only [flushStreams]
  have h1 : ∀ (l : List Nat) (acc : R × List Nat), PQ acc.1 → PQ (l.foldl flushOne acc).1 := by
    intro l; induction l with
    | nil => intro acc ha; exact ha
    | cons a l ih => intro acc ha; exact ih _ (flushOne_pq acc a ha)
  have h2 : ∀ (l : List Nat) (x : R), PQ x → PQ (l.foldl closeDone x) := by
    intro l; induction l with
    | nil => intro x hx; exact hx
    | cons a l ih => intro x hx; exact ih _ (closeDone_pq a hx)
  exact h2 _ _ (h1 _ (r, []) h)

theorem responseHeaders_pq (st : Strm) (resp : Resp) (hb : Bool) (h : PQ r) : PQ (responseHeaders r st resp hb) := by
  apply h.congr; simp only [responseHeaders, R.emit]; split <;> rfl

theorem finishRequest_pq (u : Nat) (resp : Resp) (h : PQ r) : PQ (finishRequest r u resp).1 := by
  simp only [finishRequest]
  repeat' split
  all_goals first
    | exact h
    | exact responseHeaders_pq _ _ _ h
    | exact sendData_pq _ ((responseHeaders_pq _ _ _ h).upd' _ _ fun _ => ⟨rfl, rfl⟩)

theorem consumeConnWindow_pq (n : Nat) (h : PQ r) : PQ (consumeConnWindow r n) := h.congr (ccw_keeps r n).1
theorem consumeRecvWindow_pq (x : Strm) (fr : Frame) (n : Nat) (h : PQ r) : PQ (consumeRecvWindow r x fr n) :=
  h.congr (crw_keeps r x fr n).1

theorem handleHeaderFrame_ps (s : Srv) (st : Strm) (fr : Frame) (hs : PS st) : PS (handleHeaderFrame s st fr).2.1 := by
  have hk := handleHeaderFrame_K s st fr
  simp only [K, Prod.mk.injEq] at hk
  refine ⟨?_, by rw [hk.2.2.1]; exact hs.2⟩
  simp only [handleHeaderFrame]
  repeat' split
  all_goals first
    | exact hs.1
    | exact fieldLoop_cl _ _ _ _ _ _ _ hs.1

theorem handleFrame_pq (u : Nat) (fr : Frame) (h : PQ r) : PQ (handleFrame r u fr).1 := by
  simp only [handleFrame]
  split
  · exact h
  · rename_i st hg
    have hs := h.get hg
    have hh : PQ (({ r with s := (handleHeaderFrame r.s st fr).1 } : R).updStrm u fun _ => (handleHeaderFrame r.s st fr).2.1) :=
      PQ.updc (r := { r with s := (handleHeaderFrame r.s st fr).1 }) (h.congr (handleHeaderFrame_tbl r.s st fr).1) _ _
        (handleHeaderFrame_ps r.s st fr hs)
    repeat' split
    all_goals first
      | exact h
      | exact hh
      | exact hh.upd' _ _ fun _ => ⟨rfl, rfl⟩
      | exact consumeConnWindow_pq _ (h.updc _ _ (by exact ⟨hs.1, hs.2⟩))
      | exact consumeRecvWindow_pq _ _ _ ((h.updc _ _ (by exact ⟨hs.1, hs.2⟩)).upd' _ _ fun _ => ⟨rfl, rfl⟩)
      | exact h.upd' _ _ fun _ => ⟨rfl, rfl⟩

theorem closeIdleBelow_pq (fuel : Nat) (id : Nat) (h : PQ r) : PQ (closeIdleBelow fuel r id) := by
  induction fuel generalizing r with
  | zero => exact h
  | succ n ih =>
    simp only [closeIdleBelow]
    repeat' split
    all_goals first
      | exact h
      | exact ih (writeReset_pq _ _ (closeStream_pq _ (h.upd _ _ fun _ hx => ps_closed hx)))

theorem stopLoop_pq (h : PQ r) : PQ (stopLoop r) := h.congr rfl
theorem rlStop_pq (h : PQ r) : PQ (rlStop r) := h.congr rfl
theorem closeIfDone_pq (h : PQ r) : PQ (closeIfDone r) := by simp only [closeIfDone]; split <;> first | exact stopLoop_pq h | exact h
theorem closeIfClosing_pq (h : PQ r) : PQ (closeIfClosing r) := by simp only [closeIfClosing]; split <;> first | exact stopLoop_pq h | exact h

theorem unknownStream_pq (fr : Frame) (wc : Bool) (h : PQ r) : PQ (unknownStream r fr wc).1 := by
  simp only [unknownStream]
  repeat' split
  all_goals first
    | exact h
    | exact consumeConnWindow_pq _ h
    | exact closeIfDone_pq (writeGoAway_pq _ _ _ h)
    | exact stopLoop_pq (writeGoAway_pq _ _ _ h)
    | exact writeReset_pq _ _ (h.congr rfl)
    | (intro st hm
       simp only [List.mem_append, List.mem_singleton] at hm
       rcases hm with hm | rfl
       · exact h st hm
       · exact ⟨by simp, by simp⟩)

theorem headersPrelude_pq (fr : Frame) (h : PQ r) : PQ (headersPrelude r fr).1 := by
  simp only [headersPrelude]
  repeat' split
  all_goals first | exact h | exact writeError_pq _ _ h | exact closeIdleBelow_pq _ _ h

theorem onFrameError_pq (u : Nat) (e : Option SErr) (h : PQ r) : PQ (onFrameError r u e).1 := by
  simp only [onFrameError]
  repeat' split
  all_goals first | exact h | exact (writeError_pq _ _ h).upd _ _ fun _ hx => ps_closed hx

theorem dispatchOrSend_pq (u : Nat) (st : Strm) (h : PQ r) : PQ (dispatchOrSend r u st) := by
  simp only [dispatchOrSend]
  split
  · have h1 : PQ (r.updStrm u fun s => { s with responded := true }) := h.upd' _ _ fun _ => ⟨rfl, rfl⟩
    split
    · exact (writeReset_pq _ _ h1).upd _ _ fun _ hx => ps_closed hx
    · simp only [dispatch]
      refine PQ.emit ?_ _
      exact h1.upd' _ _ fun _ => ⟨rfl, rfl⟩
  · split
    · split
      · exact (sendData_pq _ h).upd _ _ fun _ hx => ps_closed hx
      · exact sendData_pq _ h
    · exact h

theorem handleState_ps (fr : Frame) (x : Strm) (hx : PS x) : PS (handleState fr x) := by
  simp only [handleState]
  (repeat' split) <;> first | exact hx | exact ⟨hx.1, by simp⟩ | (refine ⟨hx.1, ?_⟩; simp; try (split <;> simp))

theorem closeIfClosed_pq (u : Nat) (h : PQ r) : PQ (closeIfClosed r u) := by
  simp only [closeIfClosed]
  repeat' split
  all_goals first | exact h | exact closeStream_pq _ h

theorem knownStream_pq (u : Nat) (fr : Frame) (wc : Bool) (h : PQ r) : PQ (knownStream r u fr wc) := by
  simp only [knownStream]
  have h1 := headersPrelude_pq fr h
  split
  · exact h1
  · have h2 := onFrameError_pq u (handleFrame (headersPrelude r fr).1 u fr).2 (handleFrame_pq u fr h1)
    split
    · exact stopLoop_pq h2
    · have h3 := h2.upd u (handleState fr) (handleState_ps fr)
      split
      · exact h3
      · have h4 := closeIfClosed_pq u (dispatchOrSend_pq u ‹Strm› h3)
        split
        · exact stopLoop_pq h4
        · exact h4

theorem slStreamFrame_pq (fr : Frame) (h : PQ r) : PQ (slStreamFrame r fr) := by
  simp only [slStreamFrame]
  repeat' split
  all_goals first
    | exact knownStream_pq _ _ _ h
    | exact unknownStream_pq _ _ h
    | exact knownStream_pq _ _ _ (unknownStream_pq _ _ h)

theorem applyDelta_ps (d : Int) (l : List Strm) (h : ∀ x ∈ l, PS x) : ∀ x ∈ (applyDelta d l).1, PS x := by
  induction l with
  | nil => intro x hx; cases hx
  | cons a l ih =>
    simp only [applyDelta]
    split
    · intro x hx
      rcases List.mem_cons.mp hx with rfl | hx
      · exact h a (List.mem_cons_self ..)
      · exact h x (List.mem_cons_of_mem _ hx)
    · intro x hx
      rcases List.mem_cons.mp hx with rfl | hx
      · exact h a (List.mem_cons_self ..)
      · exact ih (fun y hy => h y (List.mem_cons_of_mem _ hy)) x hx

theorem slFrame_pq (fr : Frame) (h : PQ r) : PQ (slFrame r fr) := by
  simp only [slFrame]
  split
  · exact h
  · have h0 : PQ ({ r with fwd := r.fwd ++ [fr] } : R) := h.congr rfl
    split
    · split
      · rename_i st _
        have ha : PQ (applyTableSize ({ r with fwd := r.fwd ++ [fr] } : R) st) := h0.congr rfl
        split
        · have hd : ∀ (x : R), x.s.strms = (applyDelta ((st.windowSize : Int) - (applyTableSize ({ r with fwd := r.fwd ++ [fr] } : R) st).s.curInitWin)
              (applyTableSize ({ r with fwd := r.fwd ++ [fr] } : R) st).s.strms).1 → PQ x := by
            intro x e y hy; rw [e] at hy; exact applyDelta_ps _ _ ha y hy
          split
          · exact stopLoop_pq (writeGoAway_pq _ _ _ (hd _ rfl))
          · exact closeIfClosing_pq (flushStreams_pq (hd _ rfl))
        · exact closeIfClosing_pq ha
      · split
        · exact stopLoop_pq (writeGoAway_pq _ _ _ (h0.congr rfl))
        · exact closeIfClosing_pq (flushStreams_pq (h0.congr rfl))
      · exact closeIfClosing_pq h0
    · exact slStreamFrame_pq fr h0

theorem slHandlerDone_pq (sid : Nat) (resp : Resp) (h : PQ r) : PQ (slHandlerDone r sid resp) := by
  simp only [slHandlerDone]
  have h0 : PQ (if resp.kind == "panic" then r.emit .handlerPanicLogged else r) := by split <;> exact h
  generalize (if resp.kind == "panic" then r.emit .handlerPanicLogged else r) = r0 at h0
  split
  · exact h0
  · split
    · split
      · exact releaseStream_pq _ (h0.congr rfl)
      · exact h0
    · have h1 := finishRequest_pq ‹Strm›.uid resp (h0.upd' ‹Strm›.uid (fun s => { s with handlerRunning := false }) fun _ => ⟨rfl, rfl⟩)
      repeat' split
      all_goals first
        | exact stopLoop_pq (closeDone_pq _ h1)
        | exact closeDone_pq _ h1
        | exact stopLoop_pq h1
        | exact h1

theorem contCheck_pq (fr : Frame) (h : PQ r) : PQ (contCheck r fr).1 := by
  simp only [contCheck]
  repeat' split
  all_goals first | exact h | exact writeGoAway_pq _ _ _ h | exact h.congr rfl

theorem handleSettings_pq (st : Frame.SettingsVal) (h : PQ r) : PQ (handleSettings r st) := h.congr rfl

theorem rlFrame_pq (fr : Frame) (h : PQ r) : PQ (rlFrame r fr) := by
  simp only [rlFrame, rlConnFrame]
  have hc := contCheck_pq fr h
  repeat' split
  all_goals first
    | exact rlStop_pq hc
    | exact rlStop_pq (writeGoAway_pq _ _ _ hc)
    | exact slFrame_pq _ hc
    | exact slFrame_pq _ (handleSettings_pq _ hc)
    | exact hc
    | exact hc.emit _

theorem rlDrain_pq (fuel : Nat) (h : PQ r) : PQ (rlDrain fuel r) := by
  induction fuel generalizing r with
  | zero => exact h
  | succ n ih =>
    simp only [rlDrain]
    repeat' split
    all_goals first
      | exact h
      | exact ih (rlFrame_pq _ (h.congr rfl))
      | exact ih (h.congr rfl)
      | exact rlStop_pq (writeGoAway_pq _ _ _ (h.congr rfl))
      | exact rlStop_pq (writeGoAway_pq _ _ _ h)
      | exact rlStop_pq h

theorem settle_pq (h : PQ r) : PQ (settle r) := by
  simp only [settle]; split
  · exact h.congr rfl
  · exact h

theorem stepR_pq (s : Srv) (ev : Event) (h : PQ { s := s }) : PQ (stepR s ev) := by
  simp only [stepR]
  apply settle_pq
  cases ev with
  | bytes b => exact rlDrain_pq _ (h.congr rfl)
  | done sid resp => exact slHandlerDone_pq sid resp h
  | cut => exact rlStop_pq h
  | idle => exact stopLoop_pq (writeGoAway_pq _ _ _ h)

end

theorem runFrom_pq (s : Srv) (evs : List Event) (h : PQ { s := s }) : PQ { s := (runFrom s evs).1 } := by
  induction evs generalizing s with
  | nil => exact h
  | cons ev evs ih => exact ih _ (stepR_pq s ev h)

/-- **in every reachable state** every stream of the table has `0 ≤ contentLength` and is not `reserved` -/
theorem run_pq (cfg : Cfg) (evs : List Event) : PQ { s := (run cfg evs).1 } :=
  runFrom_pq _ evs (by intro st hm; cases hm)

/-- `SInv` in a reachable state (between events; `ib`: whatever octets the next event has put into the read buffer): the
table facts come from `reachable_tbl`, `contentLength`/`reserved` from `run_pq`; what is NOT yet proved at run level is
asked for: no idle or closed stream in the table (true while no GOAWAY has been written) and no table id in `resetByUs` -/
theorem reachable_sinv (cfg : Cfg) (evs : List Event) (ib : Bytes)
    (hlive : ∀ st ∈ (run cfg evs).1.strms, st.state ≠ .idle ∧ st.state ≠ .closed)
    (hnrb : ∀ st ∈ (run cfg evs).1.strms, (run cfg evs).1.resetByUs.contains st.id = false) :
    SInv { (run cfg evs).1 with inbuf := ib } := by
  have t := reachable_tbl cfg evs
  have q := run_pq cfg evs
  refine ⟨t.un, t.idn, t.ult, t.ile, ?_, fun st hm => (q st hm).1, hnrb⟩
  intro st hm
  have h1 := (q st hm).2
  have h2 := hlive st hm
  cases hs : st.state <;> simp_all

/-- **Step refinement in reachable states**: `frame_refines` with the table invariants discharged -/
theorem reachable_frame_refines (cfg : Cfg) (evs : List Event) (ib : Bytes) (fr : Frame) (hwf : FrWF fr) (h0 : fr.stream ≠ 0)
    (hsl : (run cfg evs).1.slStopped = false)
    (hlive : ∀ st ∈ (run cfg evs).1.strms, st.state ≠ .idle ∧ st.state ≠ .closed)
    (hnrb : ∀ st ∈ (run cfg evs).1.strms, (run cfg evs).1.resetByUs.contains st.id = false)
    (hnr : ∀ st, lookup (run cfg evs).1 fr.stream = some st → resume st = false) :
    let s : Srv := { (run cfg evs).1 with inbuf := ib }
    absReaction (StreamSM.react (absPos s fr.stream) (absFrame s fr) (absCtx s fr.stream (some fr))).1 =
      fullReaction (rlFrame { s := s } fr).out fr.stream ∧
    (isConn (StreamSM.react (absPos s fr.stream) (absFrame s fr) (absCtx s fr.stream (some fr))).1 = false →
      absPos (rlFrame { s := s } fr).s fr.stream =
        (StreamSM.react (absPos s fr.stream) (absFrame s fr) (absCtx s fr.stream (some fr))).2) :=
  frame_refines _ fr (reachable_sinv cfg evs ib hlive hnrb) hwf h0 hsl hnr

end H2.Server.Lock.Refine
