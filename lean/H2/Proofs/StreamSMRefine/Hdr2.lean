import H2.Proofs.StreamSMRefine.Hdr
set_option linter.unusedSimpArgs false
/-!
# C08 refinement — `HFspec` for HEADERS and CONTINUATION frames on a stream of the table
-/
namespace H2.Server.Lock.Refine
open H2.Frame (Frame Body)
open H2.Server
open H2.Server.StreamSM (Pos Fr Ctx Reaction Code TSt Cmp Inc Blk BlockOn)

/-- an accepted header frame leaves `headersFinished = END_HEADERS` and nothing else changed -/
theorem hhfA_ok {t t0 : StreamSM.T} {es eh sd : Bool} {blk : Blk} (h : StreamSM.handleHeaderFrame t es eh sd blk = .ok t0) :
    t0 = { t with hf := eh } := by
  obtain ⟨st, hf, rs, rn⟩ := t
  cases hf <;> cases es <;> cases eh <;> cases sd <;> cases blk <;>
    simp [StreamSM.handleHeaderFrame, StreamSM.blkErr] at h <;> (subst h; rfl)

/-- the pseudo-header test at END_HEADERS, which the adapter folds into the block class -/
theorem hhfA_blk (t : StreamSM.T) (es eh sd : Bool) (w : WalkEnd × Msg.St × List MsgSpec.Field) :
    StreamSM.handleHeaderFrame t es eh sd (absBlk eh w) =
      match StreamSM.handleHeaderFrame t es eh sd (absBlk false w) with
      | .error e => .error e
      | .ok t' => if w.1.isOk && eh && !Msg.pseudoOK w.2.1 then .error (.strm .protocol) else .ok t' := by
  obtain ⟨st, hf, rs, rn⟩ := t
  obtain ⟨we, m, fs⟩ := w
  cases hp : Msg.pseudoOK m <;> cases we <;> cases hf <;> cases es <;> cases eh <;> cases sd <;>
    simp [StreamSM.handleHeaderFrame, StreamSM.blkErr, absBlk, WalkEnd.isOk, hp] <;>
    (rename_i v; cases v <;> simp [StreamSM.blkErr] <;> split <;> simp [StreamSM.blkErr])

theorem validatePseudo_abs (st : Strm) : (validatePseudo st = none ↔ Msg.pseudoOK (msgSt st) = true) ∧
    (∀ e, validatePseudo st = some e → e = .reset Gen.c_ProtocolError) := by
  simp only [validatePseudo, Msg.pseudoOK, msgSt]
  cases st.pMethod <;> cases st.pScheme <;> cases st.pPath <;> cases hp : st.path.isEmpty <;> simp [hp]

theorem absT_K {a b : Strm} (h : K a = K b) (hf : Bool) (hh : a.headersFinished = hf) :
    absT a = { absT b with hf := hf } := by
  simp only [K, Prod.mk.injEq] at h
  simp only [absT, h, hh]

/-- `hfHdr` (= `handleFrame` once `verifyState` has let the frame through) against the abstract `handleHeaderFrame` with the
adapter's block class -/
theorem hfHdr_HF {r : R} {u sid : Nat} {st : Strm} (h : TB r u sid st) (fr : Frame) (isCont es eh sd : Bool) (frag : Bytes)
    (hcl : 0 ≤ st.contentLength) (heh : eh = Frame.hasFlag fr.flags Gen.c_FlagEndHeaders)
    (hE : (handleHeaderFrame r.s st fr).1 = (hhfOf r.s st isCont es eh sd frag).1 ∧
          (handleHeaderFrame r.s st fr).2.2 = (hhfOf r.s st isCont es eh sd frag).2.2 ∧
          ((handleHeaderFrame r.s st fr).2.2 = none → (handleHeaderFrame r.s st fr).2.1 = (hhfOf r.s st isCont es eh sd frag).2.1))
    (w : WalkEnd × Msg.St × List MsgSpec.Field)
    (hw : w = walk (msgCfg r.s) ((st.prevHdr ++ frag).length + 1) r.s.dec
      (if st.headersFinished then Msg.startTrailers (msgSt st) else msgSt st) (!(isCont && st.fieldSeen)) eh 0 (st.prevHdr ++ frag) []) :
    fm (pX sid) (hfHdr r u st fr).1.out = fm (pX sid) r.out ∧
    (hfHdr r u st fr).1.s.lastID = r.s.lastID ∧ (hfHdr r u st fr).1.s.lastRefused = r.s.lastRefused ∧
    (hfHdr r u st fr).1.s.ring = r.s.ring ∧ (hfHdr r u st fr).1.s.resetByUs = r.s.resetByUs ∧
    ∃ st', TB (hfHdr r u st fr).1 u sid st' ∧ st'.state = st.state ∧ resume st' = resume st ∧
      match StreamSM.handleHeaderFrame (absT st) es eh sd (absBlk eh w) with
      | .error e => (hfHdr r u st fr).2.map errRC = some (errAbsRC e)
      | .ok t' => (hfHdr r u st fr).2 = none ∧ absT st' = t' ∧ clm st' = (w.2.1.hasCL && w.2.1.cl != st.recvBody) := by
  obtain ⟨E1, E2, E3⟩ := hE
  obtain ⟨S1, S2⟩ := hhfOf_spec r.s st isCont es eh sd frag hcl
  rw [← hw] at S1 S2
  rw [← E2] at S1 S2
  have hK := handleHeaderFrame_K r.s st fr
  obtain ⟨T1, T2, T3, T4, T5⟩ := handleHeaderFrame_tbl r.s st fr
  have hKf := hK
  simp only [K, Prod.mk.injEq] at hKf
  obtain ⟨k1, k2, k3, k4, k5, k6, k7, k8⟩ := hKf
  have tb1 : TB (({ r with s := (handleHeaderFrame r.s st fr).1 } : R).updStrm u fun _ => (handleHeaderFrame r.s st fr).2.1) u sid
      (handleHeaderFrame r.s st fr).2.1 :=
    h.set _ k1 k2 (by simp only [R.updStrm, T1]) T2
  rw [hhfA_blk]
  simp only [hfHdr]
  cases hx : (handleHeaderFrame r.s st fr).2.2 with
  | some e =>
    rw [hx] at S1
    simp only [Option.map_some] at S1
    refine ⟨rfl, T2, T3, T4, T5, _, tb1, k3, K_resume hK, ?_⟩
    cases hA : StreamSM.handleHeaderFrame (absT st) es eh sd (absBlk false w) with
    | error e0 => rw [hA] at S1; simpa using S1
    | ok t0 => rw [hA] at S1; simp at S1
  | none =>
    rw [hx] at S1
    obtain ⟨s1, s2, s3, s4, s5⟩ := S2 hx
    rw [← E3 hx] at s2 s3 s4 s5
    cases hA : StreamSM.handleHeaderFrame (absT st) es eh sd (absBlk false w) with
    | error e0 => rw [hA] at S1; simp at S1
    | ok t0 =>
      have ht0 := hhfA_ok hA
      have hclm : ∀ x : Strm, x.hasCL = (handleHeaderFrame r.s st fr).2.1.hasCL → x.contentLength = (handleHeaderFrame r.s st fr).2.1.contentLength →
          x.recvBody = st.recvBody → clm x = (w.2.1.hasCL && w.2.1.cl != st.recvBody) := by
        intro x e1 e2 e3
        simp only [clm, e1, e2, e3, s2, msgSt]
        congr 1
        rw [Bool.eq_iff_iff]; simp only [bne_iff_ne, ne_eq]; omega
      simp only
      cases hehb : Frame.hasFlag fr.flags Gen.c_FlagEndHeaders with
      | false =>
        have he : eh = false := heh.trans hehb
        subst he
        simp only [Bool.false_eq_true, if_false, Bool.and_false, Bool.false_and]
        refine ⟨rfl, T2, T3, T4, T5, _, tb1, k3, K_resume hK, trivial, ?_, hclm _ rfl rfl k8⟩
        rw [ht0]; exact absT_K hK _ (by rw [s5]; simp)
      | true =>
        have he : eh = true := heh.trans hehb
        subst he
        have hp := s4 rfl
        simp only [if_true, hp, List.isEmpty_nil, Bool.not_true, Bool.false_eq_true, if_false, s1, Bool.and_true, Bool.true_and]
        have tb2 := tb1.upd (fun s => { s with headersFinished := true }) rfl rfl
        obtain ⟨v1, v2⟩ := validatePseudo_abs (handleHeaderFrame r.s st fr).2.1
        rw [← s2] at v1
        cases hv : validatePseudo (handleHeaderFrame r.s st fr).2.1 with
        | none =>
          have := v1.mp hv
          simp only [this, Bool.not_true, Bool.false_eq_true, if_false]
          refine ⟨rfl, T2, T3, T4, T5, _, tb2, k3, (K_resume hK : resume _ = _), trivial, ?_, hclm _ rfl rfl k8⟩
          rw [ht0]
          exact absT_K (show K { (handleHeaderFrame r.s st fr).2.1 with headersFinished := true } = K st from hK) true rfl
        | some e =>
          have e1 := v2 e hv
          subst e1
          have : Msg.pseudoOK w.2.1 = false := by
            cases hq : Msg.pseudoOK w.2.1
            · rfl
            · rw [v1.mpr hq] at hv; cases hv
          simp only [this, Bool.not_false, if_true]
          exact ⟨rfl, T2, T3, T4, T5, _, tb2, k3, (K_resume hK : resume _ = _), by decide⟩

def selfDep (prio : Option (Nat × Nat)) (id : Nat) : Bool :=
  match prio with | some (dep, _) => dep == id | none => false

theorem absHF_headers_pass (t : StreamSM.T) (es eh sd : Bool) (blk : Blk) (h : t.st = .idle ∨ t.st = .open) :
    StreamSM.handleFrame t (.headers es eh sd blk) = StreamSM.handleHeaderFrame t es eh sd blk := by
  obtain ⟨st, hf, rs, rn⟩ := t
  rcases h with h | h <;> simp only at h <;> subst h <;>
    simp +decide [StreamSM.handleFrame, StreamSM.verifyState, StreamSM.closedRank, StreamSM.continuingHeaders]

theorem absHF_cont_pass (t : StreamSM.T) (eh f1 : Bool) (blk : Blk)
    (h : t.st = .open ∨ ((t.st = .halfClosed ∨ t.st = .closed) ∧ t.hf = false)) :
    StreamSM.handleFrame t (.cont eh f1 blk) = StreamSM.handleHeaderFrame t f1 eh false blk := by
  obtain ⟨st, hf, rs, rn⟩ := t
  rcases h with h | ⟨h | h, h'⟩ <;> simp only at h <;> subst h
  · simp +decide [StreamSM.handleFrame, StreamSM.verifyState, StreamSM.closedRank, StreamSM.continuingHeaders]
  · simp only at h'; subst h'
    simp +decide [StreamSM.handleFrame, StreamSM.verifyState, StreamSM.closedRank, StreamSM.continuingHeaders]
  · simp only at h'; subst h'
    simp +decide [StreamSM.handleFrame, StreamSM.verifyState, StreamSM.closedRank, StreamSM.continuingHeaders]

/-- **HEADERS on a stream of the table** (request block, trailers with and without END_STREAM, self-dependency, every block
class): `handleFrame` against the abstract model -/
theorem hf_headers {r : R} {u sid : Nat} {st : Strm} (h : TB r u sid st) (fr : Frame) (hwf : FrWF fr) (hres : st.state ≠ .reserved)
    (hs : fr.stream = sid) (hcl : 0 ≤ st.contentLength) (es eh : Bool) (prio : Option (Nat × Nat)) (frag : Bytes)
    (hb : fr.body = .headers es eh prio frag) (cm : Bool)
    (hcm : cm = ((walkFrame r.s (some st) fr).2.1.hasCL && (walkFrame r.s (some st) fr).2.1.cl != st.recvBody)) :
    HFspec r u sid st fr (absFrame r.s fr) cm := by
  subst hcm
  obtain ⟨typ, flags, sid', len, body⟩ := fr
  simp only at hb hs; subst hs; subst hb
  simp only [FrWF] at hwf; obtain ⟨rfl, rfl, rfl⟩ := hwf
  have hid := h.id
  have hl := h.l
  have hw : walkFrame r.s (some st) ⟨Gen.c_FrameHeaders, flags, sid', len,
      .headers (Frame.hasFlag flags Gen.c_FlagEndStream) (Frame.hasFlag flags Gen.c_FlagEndHeaders) prio frag⟩ =
      walk (msgCfg r.s) ((st.prevHdr ++ frag).length + 1) r.s.dec
        (if st.headersFinished then Msg.startTrailers (msgSt st) else msgSt st) (!(false && st.fieldSeen))
        (Frame.hasFlag flags Gen.c_FlagEndHeaders) 0 (st.prevHdr ++ frag) [] := by
    simp [walkFrame, headerPart]
  have hA : absFrame r.s ⟨Gen.c_FrameHeaders, flags, sid', len,
      .headers (Frame.hasFlag flags Gen.c_FlagEndStream) (Frame.hasFlag flags Gen.c_FlagEndHeaders) prio frag⟩ =
      .headers (Frame.hasFlag flags Gen.c_FlagEndStream) (Frame.hasFlag flags Gen.c_FlagEndHeaders)
        (selfDep prio st.id)
        (absBlk (Frame.hasFlag flags Gen.c_FlagEndHeaders) (walkFrame r.s (some st) ⟨Gen.c_FrameHeaders, flags, sid', len,
          .headers (Frame.hasFlag flags Gen.c_FlagEndStream) (Frame.hasFlag flags Gen.c_FlagEndHeaders) prio frag⟩)) := by
    simp only [absFrame, hl, hid, selfDep]
    rcases prio with _ | ⟨d, w⟩ <;> rfl
  cases hst : st.state <;> first | exact absurd hst hres | skip
  case halfClosed | closed =>
    all_goals
      unfold HFspec
      rw [hA]
      simp +decide [handleFrame, h.g, verifyState, continuingHeaders, hst, StreamSM.handleFrame, StreamSM.verifyState, absT, absTSt,
        StreamSM.continuingHeaders, StState.rank, errRC, errAbsRC, StreamSM.closedRank]
      exact ⟨st, h, hst, rfl⟩
  all_goals
    have hv : verifyState st ⟨Gen.c_FrameHeaders, flags, sid', len,
        .headers (Frame.hasFlag flags Gen.c_FlagEndStream) (Frame.hasFlag flags Gen.c_FlagEndHeaders) prio frag⟩ = none := by
      simp +decide [verifyState, hst]
    have hrank : (decide (st.state.rank ≥ StState.halfClosed.rank) && !continuingHeaders st ⟨Gen.c_FrameHeaders, flags, sid', len,
        .headers (Frame.hasFlag flags Gen.c_FlagEndStream) (Frame.hasFlag flags Gen.c_FlagEndHeaders) prio frag⟩) = false := by
      simp +decide [hst, StState.rank]
    unfold HFspec
    rw [handleFrame_hdr h.g hv (Or.inl rfl) hrank, hA, absHF_headers_pass _ _ _ _ _ (by simp [absT, absTSt, hst])]
    exact hfHdr_HF h _ false _ _ _ frag hcl rfl (hhf_eq_headers r.s st flags sid' len prio frag) _ hw

/-- **CONTINUATION on a stream of the table** -/
theorem hf_cont {r : R} {u sid : Nat} {st : Strm} (h : TB r u sid st) (fr : Frame) (hwf : FrWF fr) (hres : st.state ≠ .reserved)
    (hs : fr.stream = sid) (hcl : 0 ≤ st.contentLength) (eh : Bool) (frag : Bytes)
    (hb : fr.body = .continuation eh frag) (cm : Bool)
    (hcm : cm = ((walkFrame r.s (some st) fr).2.1.hasCL && (walkFrame r.s (some st) fr).2.1.cl != st.recvBody)) :
    HFspec r u sid st fr (absFrame r.s fr) cm := by
  subst hcm
  obtain ⟨typ, flags, sid', len, body⟩ := fr
  simp only at hb hs; subst hs; subst hb
  simp only [FrWF] at hwf; obtain ⟨rfl, rfl⟩ := hwf
  have hl := h.l
  have hw : walkFrame r.s (some st) ⟨Gen.c_FrameContinuation, flags, sid', len,
      .continuation (Frame.hasFlag flags Gen.c_FlagEndHeaders) frag⟩ =
      walk (msgCfg r.s) ((st.prevHdr ++ frag).length + 1) r.s.dec
        (if st.headersFinished then Msg.startTrailers (msgSt st) else msgSt st) (!(true && st.fieldSeen))
        (Frame.hasFlag flags Gen.c_FlagEndHeaders) 0 (st.prevHdr ++ frag) [] := by
    simp [walkFrame, headerPart]
  have hA : absFrame r.s ⟨Gen.c_FrameContinuation, flags, sid', len, .continuation (Frame.hasFlag flags Gen.c_FlagEndHeaders) frag⟩ =
      .cont (Frame.hasFlag flags Gen.c_FlagEndHeaders) (Frame.hasFlag flags Gen.c_FlagEndStream)
        (absBlk (Frame.hasFlag flags Gen.c_FlagEndHeaders) (walkFrame r.s (some st) ⟨Gen.c_FrameContinuation, flags, sid', len,
          .continuation (Frame.hasFlag flags Gen.c_FlagEndHeaders) frag⟩)) := by
    simp only [absFrame, hl]
  have pass : (st.state = .open ∨ ((st.state = .halfClosed ∨ st.state = .closed) ∧ st.headersFinished = false)) →
      HFspec r u sid' st ⟨Gen.c_FrameContinuation, flags, sid', len, .continuation (Frame.hasFlag flags Gen.c_FlagEndHeaders) frag⟩
        (absFrame r.s ⟨Gen.c_FrameContinuation, flags, sid', len, .continuation (Frame.hasFlag flags Gen.c_FlagEndHeaders) frag⟩)
        ((walkFrame r.s (some st) ⟨Gen.c_FrameContinuation, flags, sid', len,
            .continuation (Frame.hasFlag flags Gen.c_FlagEndHeaders) frag⟩).2.1.hasCL &&
          (walkFrame r.s (some st) ⟨Gen.c_FrameContinuation, flags, sid', len,
            .continuation (Frame.hasFlag flags Gen.c_FlagEndHeaders) frag⟩).2.1.cl != st.recvBody) := by
    intro hp
    have hv : verifyState st ⟨Gen.c_FrameContinuation, flags, sid', len,
        .continuation (Frame.hasFlag flags Gen.c_FlagEndHeaders) frag⟩ = none := by
      rcases hp with hp | ⟨hp | hp, hp'⟩ <;> simp +decide [verifyState, hp, continuingHeaders, *]
    have hrank : (decide (st.state.rank ≥ StState.halfClosed.rank) && !continuingHeaders st ⟨Gen.c_FrameContinuation, flags, sid', len,
        .continuation (Frame.hasFlag flags Gen.c_FlagEndHeaders) frag⟩) = false := by
      rcases hp with hp | ⟨hp | hp, hp'⟩ <;> simp +decide [hp, StState.rank, continuingHeaders, *]
    unfold HFspec
    rw [handleFrame_hdr h.g hv (Or.inr rfl) hrank, hA, absHF_cont_pass _ _ _ _
      (by rcases hp with hp | ⟨hp | hp, hp'⟩ <;> simp [absT, absTSt, hp, *])]
    exact hfHdr_HF h _ true _ _ false frag hcl rfl (hhf_eq_cont r.s st flags sid' len frag) _ hw
  cases hst : st.state <;> first | exact absurd hst hres | skip
  case «open» => exact pass (Or.inl hst)
  all_goals cases hhf : st.headersFinished
  case halfClosed.false => exact pass (Or.inr ⟨Or.inl hst, hhf⟩)
  case closed.false => exact pass (Or.inr ⟨Or.inr hst, hhf⟩)
  all_goals
    unfold HFspec
    rw [hA]
    simp +decide [handleFrame, h.g, verifyState, continuingHeaders, hst, hhf, StreamSM.handleFrame, StreamSM.verifyState, absT, absTSt,
      StreamSM.continuingHeaders, StState.rank, errRC, errAbsRC, StreamSM.closedRank]
    exact ⟨st, h, hst, rfl⟩

end H2.Server.Lock.Refine
