import H2.Proofs.StreamSMRefine.Step
set_option linter.unusedSimpArgs false
/-!
# C08 refinement — one parsed frame through the read loop (`rlFrame`): exactly what `Lock.StreamSM.checkFrame` compares
-/
namespace H2.Server.Lock.Refine
open H2.Frame (Frame Body)
open H2.Server
open H2.Server.StreamSM (Pos Fr Ctx Reaction Code TSt Cmp Inc Blk BlockOn)

/-- the read loop's verdict, read off the full state and the frame -/
def rlOf (s : Srv) (fr : Frame) : Bool :=
  if s.expectCont != 0 then !(fr.typ == Gen.c_FrameContinuation && fr.stream == s.expectCont)
  else if fr.typ == Gen.c_FrameContinuation then true
  else if fr.typ == Gen.c_FramePing || fr.typ == Gen.c_FramePushPromise then true
  else fr.stream % 2 == 0

theorem absPos_cases_odd (s : Srv) (sid : Nat) (hodd : sid % 2 = 1) :
    (∃ a b c d, absPos s sid = .tab a b c d) ∨ (∃ a b c, absPos s sid = .out a b c) := by
  cases hl : lookup s sid with
  | some st => exact Or.inl ⟨_, _, _, _, absPos_tab hodd hl⟩
  | none => exact Or.inr ⟨_, _, _, absPos_out hodd hl⟩

theorem rl_abs (s : Srv) (fr : Frame) (hwf : FrWF fr) :
    StreamSM.rl (absPos s fr.stream) (absFrame s fr) (absCtx s fr.stream (some fr)) =
      if rlOf s fr then some (.connErr .protocol) else none := by
  obtain ⟨typ, flags, sid, len, body⟩ := fr
  cases body <;> simp only [FrWF] at hwf <;>
    first | subst hwf | (obtain ⟨rfl, rfl⟩ := hwf) | (obtain ⟨rfl, rfl, rfl⟩ := hwf)
  all_goals
    have hs2 : (sid = s.expectCont) = (s.expectCont = sid) := propext eq_comm
    by_cases he : s.expectCont = 0 <;> by_cases hs : s.expectCont = sid <;> by_cases hp : sid % 2 = 0
  all_goals dsimp only
  all_goals first
    | (rw [absPos_even hp]; simp +decide [StreamSM.rl, absFrame, absCtx, rlOf, he, hs2, hs, hp]; done)
    | (have hodd : sid % 2 = 1 := by omega
       rcases absPos_cases_odd s sid hodd with ⟨a, b, c, d, e⟩ | ⟨a, b, c, e⟩ <;> rw [e] <;>
         simp +decide [StreamSM.rl, absFrame, absCtx, rlOf, he, hs2, hs, hp] <;> done)
    | (exfalso; omega)

theorem SInv.ec {s : Srv} (h : SInv s) (e : Nat) : SInv { s with expectCont := e } :=
  ⟨h.un, h.idn, h.ult, h.ile, h.live, h.cl, h.nrb⟩

/-- a frame the read loop lets through: `contCheck` only moves `expectCont` -/
theorem contCheck_pass (s : Srv) (fr : Frame) (hr : rlOf s fr = false) :
    (∃ e, contCheck { s := s } fr = ({ s := { s with expectCont := e } }, false)) ∧
    fr.typ ≠ Gen.c_FramePing ∧ fr.typ ≠ Gen.c_FramePushPromise := by
  simp only [rlOf] at hr
  by_cases he : s.expectCont = 0
  · simp only [he, bne_self_eq_false, Bool.false_eq_true, if_false] at hr
    by_cases hc : fr.typ = Gen.c_FrameContinuation
    · simp [hc] at hr
    · by_cases hpi : fr.typ = Gen.c_FramePing
      · simp +decide [hc, hpi] at hr
      · by_cases hpp : fr.typ = Gen.c_FramePushPromise
        · simp +decide [hc, hpp] at hr
        · refine ⟨?_, hpi, hpp⟩
          simp only [contCheck, he, bne_self_eq_false, Bool.false_eq_true, if_false]
          have hc' : (fr.typ == Gen.c_FrameContinuation) = false := by simpa using hc
          simp only [hc', Bool.false_eq_true, if_false]
          split
          · exact ⟨_, rfl⟩
          · exact ⟨s.expectCont, rfl⟩
  · have hne : (s.expectCont != 0) = true := by simpa using he
    simp only [hne, if_true, Bool.not_eq_false', Bool.and_eq_true, beq_iff_eq] at hr
    obtain ⟨hc, hs⟩ := hr
    refine ⟨?_, by rw [hc]; decide, by rw [hc]; decide⟩
    simp only [contCheck, hne, if_true, hc, hs, bne_self_eq_false, Bool.or_self, Bool.false_eq_true, if_false]
    split
    · exact ⟨_, rfl⟩
    · exact ⟨s.expectCont, rfl⟩

@[simp] theorem rlStop_out (r : R) : (rlStop r).out = r.out := rfl

/-- **Step refinement, one parsed frame through the read loop** — the statement of `Lock.StreamSM.checkFrame`: in a state
with `SInv`, stream loop running, for every parsed frame with a stream id whose stream (if in the table) has no response
data waiting to go out, the reaction string of `StreamSM.react` on the adapter's abstraction equals the one read off the
full model's outputs for the frame, and unless the reaction is a connection error the abstract next place is `absPos` of
the state after. -/
theorem frame_refines (s : Srv) (fr : Frame) (hI : SInv s) (hwf : FrWF fr) (h0 : fr.stream ≠ 0) (hsl : s.slStopped = false)
    (hnr : ∀ st, lookup s fr.stream = some st → resume st = false) :
    absReaction (StreamSM.react (absPos s fr.stream) (absFrame s fr) (absCtx s fr.stream (some fr))).1 =
      fullReaction (rlFrame { s := s } fr).out fr.stream ∧
    (isConn (StreamSM.react (absPos s fr.stream) (absFrame s fr) (absCtx s fr.stream (some fr))).1 = false →
      absPos (rlFrame { s := s } fr).s fr.stream =
        (StreamSM.react (absPos s fr.stream) (absFrame s fr) (absCtx s fr.stream (some fr))).2) := by
  rw [react_eq, rl_abs s fr hwf]
  by_cases hr : rlOf s fr = true
  · -- the read loop answers itself: GOAWAY(PROTOCOL_ERROR)
    simp only [hr, if_true]
    refine ⟨reaction_str ?_, fun h => by simp [isConn] at h⟩
    rw [fullRC_eq]
    simp only [rlOf] at hr
    by_cases he : s.expectCont = 0
    · by_cases hc : fr.typ = Gen.c_FrameContinuation
      · simp +decide [rlFrame, contCheck, he, hc, pX, absRC]
      · by_cases hh : (fr.typ == Gen.c_FrameHeaders && !Frame.hasFlag fr.flags Gen.c_FlagEndHeaders) = true <;>
        by_cases hev : fr.stream % 2 = 0 <;> by_cases hpi : fr.typ = Gen.c_FramePing <;>
        by_cases hpp : fr.typ = Gen.c_FramePushPromise <;>
          simp +decide [he, hc, hev, hpi, hpp] at hr <;>
          simp +decide [rlFrame, contCheck, he, hc, hh, h0, hev, hpi, hpp, pX, absRC]
    · have hne : (s.expectCont != 0) = true := by simpa using he
      simp only [hne, if_true] at hr
      have : (fr.typ != Gen.c_FrameContinuation || fr.stream != s.expectCont) = true := by
        simp only [Bool.not_and, Bool.or_eq_true, Bool.not_eq_true', bne_iff_ne, ne_eq, beq_eq_false_iff_ne] at hr ⊢
        exact hr
      simp +decide [rlFrame, contCheck, he, this, pX, absRC]
  · -- the frame goes on to the stream loop
    have hr' : rlOf s fr = false := by simpa using hr
    simp only [hr', Bool.false_eq_true, if_false]
    obtain ⟨⟨e, hcc⟩, hnp, hnpp⟩ := contCheck_pass s fr hr'
    by_cases hev : fr.stream % 2 = 0
    · have hrl : rlFrame { s := s } fr = rlStop (writeGoAway { s := { s with expectCont := e } } 0 Gen.c_ProtocolError "invalid stream id") := by
        simp [rlFrame, hcc, h0, hev]
      rw [absPos_even hev, hrl]
      refine ⟨reaction_str ?_, fun h => by simp [isConn, reactSL] at h⟩
      rw [fullRC_eq]; simp +decide [reactSL, pX, absRC]
    · have hodd : fr.stream % 2 = 1 := by omega
      have hrl : rlFrame { s := s } fr = slStreamFrame { s := { s with expectCont := e }, fwd := [fr] } fr := by
        simp [rlFrame, hcc, h0, hev, hnp, hnpp, slFrame, hsl]
      have := sl_refines { s := { s with expectCont := e }, fwd := [fr] } fr (hI.ec e) hwf hodd rfl hnr
      have hb := reactSL_block (absPos s fr.stream) (absFrame s fr) (absCtx s fr.stream (some fr))
        (absCtx { s with expectCont := e } fr.stream (some fr)).block
      rw [hrl, ← hb]
      exact this

end H2.Server.Lock.Refine
