import H2.Proofs.StreamSMRefine.Unknown
set_option linter.unusedSimpArgs false
/-!
# C08 refinement — a frame on a stream that is in the table
-/
namespace H2.Server.Lock.Refine
open H2.Frame (Frame Body)
open H2.Server
open H2.Server.StreamSM (Pos Fr Ctx Reaction Code TSt Cmp Inc Blk BlockOn)

/-! ## the table around one stream object -/

/-- `st` is the stream object `u`, it is the one the stream loop finds for the id `sid`, and the table holds
each object and each id once -/
structure TB (r : R) (u sid : Nat) (st : Strm) : Prop where
  g : r.getStrm u = some st
  l : lookup r.s sid = some st
  un : (r.s.strms.map (·.uid)).Nodup
  idn : (r.s.strms.map (·.id)).Nodup

section
variable {r r' : R} {u sid : Nat} {st : Strm}

theorem TB.mem (h : TB r u sid st) : st ∈ r.s.strms := List.mem_of_find?_eq_some h.g
theorem TB.uid (h : TB r u sid st) : st.uid = u := by simpa using List.find?_some h.g
theorem TB.le (h : TB r u sid st) : sid ≤ r.s.lastID := by
  have := h.l; simp only [lookup] at this; by_cases hh : sid ≤ r.s.lastID
  · exact hh
  · simp [hh] at this
theorem TB.id (h : TB r u sid st) : st.id = sid := by
  have := h.l; simp only [lookup, h.le, if_true] at this; simpa using List.find?_some this
theorem TB.uniq (h : TB r u sid st) : ∀ x ∈ r.s.strms, x.uid = u → x = st := find_uid_unique _ _ _ h.un h.g

theorem TB.congr (h : TB r u sid st) (e1 : r'.s.strms = r.s.strms) (e2 : r'.s.lastID = r.s.lastID) : TB r' u sid st :=
  ⟨by simpa only [R.getStrm, e1] using h.g, (lookup_congr e1 e2 sid).trans h.l, by rw [e1]; exact h.un, by rw [e1]; exact h.idn⟩

theorem find_id_map (l : List Strm) (u sid : Nat) (st st' : Strm) (hu : (l.map (·.uid)).Nodup)
    (hf : l.find? (·.id == sid) = some st) (hst : st.uid = u) (hid : st'.id = sid)
    (hi : ∀ x ∈ l, x.uid = u → x = st) :
    (l.map fun x => if x.uid == u then st' else x).find? (·.id == sid) = some st' := by
  induction l with
  | nil => simp at hf
  | cons a l ih =>
    simp only [List.map_cons, List.find?_cons] at hf ⊢
    by_cases ha : a.uid = u
    · have : a = st := hi a (List.mem_cons_self ..) ha
      simp [ha, hid]
    · simp only [beq_iff_eq, ha, if_false]
      by_cases hs : a.id = sid
      · simp only [hs, beq_self_eq_true] at hf
        have : a = st := by simpa using hf
        exact absurd (this ▸ hst) ha
      · have hs' : (a.id == sid) = false := by simpa using hs
        simp only [hs'] at hf ⊢
        simp only [List.map_cons, List.nodup_cons] at hu
        simpa using ih hu.2 hf (fun x hx => hi x (List.mem_cons_of_mem _ hx))

/-- replacing the stream object by one with the same uid and id -/
theorem TB.set (h : TB r u sid st) (st' : Strm) (hu : st'.uid = st.uid) (hi : st'.id = st.id)
    (e1 : r'.s.strms = r.s.strms.map fun x => if x.uid == u then st' else x) (e2 : r'.s.lastID = r.s.lastID) :
    TB r' u sid st' := by
  refine ⟨?_, ?_, ?_, ?_⟩
  · have := find_map_uid r.s.strms u (fun x => if x.uid == u then st' else x)
      (by intro x; by_cases hx : x.uid = u <;> simp [hx, hu, h.uid]) st h.g
    simpa [R.getStrm, e1, h.uid] using this
  · have hl := h.l
    simp only [lookup, h.le, if_true] at hl
    simp only [lookup, e2, h.le, if_true, e1]
    exact find_id_map _ _ _ _ _ h.un hl h.uid (hi.trans h.id) h.uniq
  · rw [e1, map_const_pi (·.uid) _ _ _ (fun x hx hxu => by rw [hxu, hu, h.uid])]; exact h.un
  · rw [e1, map_const_pi (·.id) _ _ _ (fun x hx hxu => by rw [h.uniq x hx hxu, hi])]; exact h.idn

theorem upd_eq_set (h : TB r u sid st) (f : Strm → Strm) :
    (r.updStrm u f).s.strms = r.s.strms.map fun x => if x.uid == u then f st else x := by
  simp only [R.updStrm]
  apply List.map_congr_left
  intro x hx
  by_cases hxu : x.uid = u
  · simp [hxu, h.uniq x hx hxu]
  · simp [hxu]

theorem TB.upd (h : TB r u sid st) (f : Strm → Strm) (hu : (f st).uid = st.uid) (hi : (f st).id = st.id) :
    TB (r.updStrm u f) u sid (f st) :=
  h.set (f st) hu hi (upd_eq_set h f) rfl

theorem TB.pos (h : TB r u sid st) (hodd : sid % 2 = 1) : absPos r.s sid = (absT st).pos := absPos_tab hodd h.l

theorem find_delFirst_none (l : List Strm) (sid : Nat) (hn : (l.map (·.id)).Nodup) :
    (delFirst l sid).find? (·.id == sid) = none := by
  induction l with
  | nil => rfl
  | cons a l ih =>
    simp only [List.map_cons, List.nodup_cons] at hn
    simp only [delFirst]
    by_cases ha : a.id = sid
    · simp only [ha, beq_self_eq_true, if_true]
      rw [List.find?_eq_none]
      intro x hx hxs
      exact hn.1 (List.mem_map.mpr ⟨x, hx, by rw [ha]; simpa using hxs⟩)
    · have ha' : (a.id == sid) = false := by simpa using ha
      simp only [ha', Bool.false_eq_true, if_false, List.find?_cons, ih hn.2]

/-- what `closeStream` does to the tables -/
theorem closeStream_tb (hg : r.getStrm u = some st) :
    (closeStream r u).s.strms = delFirst r.s.strms st.id ∧ (closeStream r u).s.ring = markClosed r.s.ring st.id ∧
    (closeStream r u).s.resetByUs = r.s.resetByUs ∧ (closeStream r u).s.lastID = r.s.lastID ∧
    (closeStream r u).s.lastRefused = r.s.lastRefused ∧ (closeStream r u).out = r.out := by
  simp only [closeStream, hg]
  split
  · exact ⟨rfl, rfl, rfl, rfl, rfl, rfl⟩
  · simp only [releaseStream]; split <;> exact ⟨rfl, rfl, rfl, rfl, rfl, rfl⟩

/-- closing the stream: it is out of the table and in the ring -/
theorem TB.close (h : TB r u sid st) (hodd : sid % 2 = 1) :
    absPos (closeStream r u).s sid = .out (r.s.resetByUs.contains sid) true (cmpOf r.s sid) ∧
    (closeStream r u).out = r.out := by
  obtain ⟨e1, e2, e3, e4, e5, e6⟩ := closeStream_tb h.g
  refine ⟨?_, e6⟩
  have hl : lookup (closeStream r u).s sid = none := by
    simp only [lookup, e1, e4, h.le, if_true, h.id]
    exact find_delFirst_none _ _ h.idn
  rw [absPos_out hodd hl, e2, e3, h.id, markClosed_contains]
  simp only [cmpOf, e4, e5]

/-- the stream would go on sending its response -/
def resume (st : Strm) : Bool := st.responded && !st.handlerRunning && hasMoreToSend st

theorem handleState_keys (fr : Frame) (x : Strm) :
    (handleState fr x).uid = x.uid ∧ (handleState fr x).id = x.id ∧ (handleState fr x).headersFinished = x.headersFinished ∧
    (handleState fr x).responded = x.responded ∧ (handleState fr x).handlerRunning = x.handlerRunning ∧
    resume (handleState fr x) = resume x ∧ (handleState fr x).hasCL = x.hasCL ∧ (handleState fr x).recvBody = x.recvBody ∧
    (handleState fr x).contentLength = x.contentLength := by
  simp only [handleState]
  (repeat' split) <;> exact ⟨rfl, rfl, rfl, rfl, rfl, rfl, rfl, rfl, rfl⟩

/-- the rest of `knownStream` once `handleFrame` has accepted the frame -/
def tail (r : R) (u : Nat) (fr : Frame) (wc : Bool) : R :=
  let r := r.updStrm u (handleState fr)
  match r.getStrm u with
  | none => r
  | some st =>
    let r := closeIfClosed (dispatchOrSend r u st) u
    if wc && canCloseAfterGoAway r.s then stopLoop r else r

def dispOut (st : Strm) : Out :=
  .dispatch st.id st.method st.uri st.host
    ((match st.contentType with | some v => [(Gen.s_StringContentType, v)] | none => []) ++
      (match st.userAgent with | some v => [(Gen.s_StringUserAgent, v)] | none => []) ++ st.fields) st.body

theorem dispatch_eq (r : R) (u : Nat) (st : Strm) :
    dispatch r u st = (r.updStrm u fun s => { s with handlerRunning := true }).emit (dispOut st) := rfl

theorem closeIfClosed_of {x : R} {s2 : Strm} (hg : x.getStrm u = some s2) :
    closeIfClosed x u = if s2.state == .closed then closeStream x u else x := by
  simp only [closeIfClosed, hg]

theorem dispatchOrSend_A (r : R) (u : Nat) (st : Strm)
    (hA : (st.state == .halfClosed && st.headersFinished && !st.responded) = true)
    (hB : (st.hasCL && (st.recvBody : Int) != st.contentLength) = true) :
    dispatchOrSend r u st = (writeReset (r.updStrm u fun s => { s with responded := true }) st.id Gen.c_ProtocolError).updStrm u
      fun s => { s with state := .closed } := by
  simp only [dispatchOrSend, hA, hB, if_true]

theorem dispatchOrSend_B (r : R) (u : Nat) (st : Strm)
    (hA : (st.state == .halfClosed && st.headersFinished && !st.responded) = true)
    (hB : ¬ (st.hasCL && (st.recvBody : Int) != st.contentLength) = true) :
    dispatchOrSend r u st = ((r.updStrm u fun s => { s with responded := true }).updStrm u
      fun s => { s with handlerRunning := true }).emit (dispOut st) := by
  simp only [dispatchOrSend, hA, hB, if_true, Bool.false_eq_true, if_false, dispatch_eq]

theorem tail2 (h : TB r u sid st) (hodd : sid % 2 = 1) (hnr : resume st = false) :
    let r' := closeIfClosed (dispatchOrSend r u st) u
    if st.state == .halfClosed && st.headersFinished && !st.responded then
      if st.hasCL && (st.recvBody : Int) != st.contentLength then
        fm (pX sid) r'.out = fm (pX sid) r.out ++ [.rs Gen.c_ProtocolError] ∧ absPos r'.s sid = .out true true (cmpOf r.s sid)
      else
        fm (pX sid) r'.out = fm (pX sid) r.out ++ [.dp] ∧ absPos r'.s sid = .tab .halfClosed true true true
    else if st.state == .closed then
      fm (pX sid) r'.out = fm (pX sid) r.out ∧ absPos r'.s sid = .out (r.s.resetByUs.contains sid) true (cmpOf r.s sid)
    else fm (pX sid) r'.out = fm (pX sid) r.out ∧ absPos r'.s sid = (absT st).pos := by
  intro r'
  obtain rfl := h.id
  by_cases hA : (st.state == .halfClosed && st.headersFinished && !st.responded) = true
  · simp only [hA, if_true]
    have t1 := h.upd (fun s => { s with responded := true }) rfl rfl
    by_cases hB : (st.hasCL && (st.recvBody : Int) != st.contentLength) = true
    · simp only [hB, if_true]
      have t2 : TB (writeReset (r.updStrm u fun s => { s with responded := true }) st.id Gen.c_ProtocolError) u st.id _ :=
        t1.congr rfl rfl
      have t3 := t2.upd (fun s => { s with state := .closed }) rfl rfl
      have hr' : r' = closeStream ((writeReset (r.updStrm u fun s => { s with responded := true }) st.id Gen.c_ProtocolError).updStrm u
          fun s => { s with state := .closed }) u := by
        show closeIfClosed (dispatchOrSend r u st) u = _
        rw [dispatchOrSend_A r u st hA hB, closeIfClosed_of t3.g]
        rfl
      obtain ⟨p1, p2⟩ := t3.close hodd
      rw [hr', p2]
      refine ⟨?_, ?_⟩
      · simp [R.updStrm, pX, h.id]
      · rw [p1]
        show Pos.out ((writeReset _ st.id _).s.resetByUs.contains st.id) true _ = _
        rw [writeReset_contains]
        rfl
    · simp only [hB, Bool.false_eq_true, if_false]
      have t2 := t1.upd (fun s => { s with handlerRunning := true }) rfl rfl
      have hA0 := hA
      simp only [Bool.and_eq_true, beq_iff_eq, Bool.not_eq_true'] at hA
      have hr' : r' = ((r.updStrm u fun s => { s with responded := true }).updStrm u fun s => { s with handlerRunning := true }).emit
          (dispOut st) := by
        have t2' : TB (((r.updStrm u fun s => { s with responded := true }).updStrm u fun s => { s with handlerRunning := true }).emit
          (dispOut st)) u st.id _ := t2.congr rfl rfl
        show closeIfClosed (dispatchOrSend r u st) u = _
        rw [dispatchOrSend_B r u st hA0 hB, closeIfClosed_of t2'.g]
        simp [hA.1.1]
      rw [hr']
      refine ⟨?_, ?_⟩
      · simp [R.updStrm, R.emit, pX, h.id, dispOut]
      · have t2' : TB (((r.updStrm u fun s => { s with responded := true }).updStrm u fun s => { s with handlerRunning := true }).emit
          (dispOut st)) u st.id _ := t2.congr rfl rfl
        rw [t2'.pos hodd]
        simp [absT, StreamSM.T.pos, hA.1.1, hA.1.2, absTSt]
  · simp only [hA, Bool.false_eq_true, if_false]
    have hd : dispatchOrSend r u st = r := by
      simp only [resume] at hnr
      simp only [dispatchOrSend, hA, hnr, Bool.false_eq_true, if_false]
    by_cases hC : (st.state == .closed) = true
    · simp only [hC, if_true]
      have hr' : r' = closeStream r u := by
        simp only [r', hd, closeIfClosed, h.g, hC, if_true]
      obtain ⟨p1, p2⟩ := h.close hodd
      rw [hr', p1, p2]; exact ⟨rfl, rfl⟩
    · simp only [hC, Bool.false_eq_true, if_false]
      have hr' : r' = r := by
        simp only [r', hd, closeIfClosed, h.g, hC, Bool.false_eq_true, if_false]
      rw [hr', h.pos hodd]; exact ⟨rfl, rfl⟩

theorem tail_spec (h : TB r u sid st) (hodd : sid % 2 = 1) (fr : Frame) (wc : Bool) (hnr : resume st = false) :
    let st1 := handleState fr st
    let r' := tail r u fr wc
    if st1.state == .halfClosed && st1.headersFinished && !st1.responded then
      if st1.hasCL && (st1.recvBody : Int) != st1.contentLength then
        fm (pX sid) r'.out = fm (pX sid) r.out ++ [.rs Gen.c_ProtocolError] ∧ absPos r'.s sid = .out true true (cmpOf r.s sid)
      else
        fm (pX sid) r'.out = fm (pX sid) r.out ++ [.dp] ∧ absPos r'.s sid = .tab .halfClosed true true true
    else if st1.state == .closed then
      fm (pX sid) r'.out = fm (pX sid) r.out ∧ absPos r'.s sid = .out (r.s.resetByUs.contains sid) true (cmpOf r.s sid)
    else fm (pX sid) r'.out = fm (pX sid) r.out ∧ absPos r'.s sid = (absT st1).pos := by
  intro st1 r'
  obtain ⟨k1, k2, k3, k4, k5, k6, k7, k8, k9⟩ := handleState_keys fr st
  have h1 : TB (r.updStrm u (handleState fr)) u sid st1 := h.upd _ k1 k2
  have h2 := tail2 h1 hodd (by rw [k6]; exact hnr)
  have hr' : r' = (if wc && canCloseAfterGoAway (closeIfClosed (dispatchOrSend (r.updStrm u (handleState fr)) u st1) u).s
      then stopLoop (closeIfClosed (dispatchOrSend (r.updStrm u (handleState fr)) u st1) u)
      else closeIfClosed (dispatchOrSend (r.updStrm u (handleState fr)) u st1) u) := by
    simp only [r', tail, h1.g]
  have hs : ∀ x : R, (if wc && canCloseAfterGoAway x.s then stopLoop x else x).out = x.out ∧
      absPos (if wc && canCloseAfterGoAway x.s then stopLoop x else x).s sid = absPos x.s sid := by
    intro x; split <;> exact ⟨rfl, rfl⟩
  rw [hr', (hs _).1, (hs _).2]
  exact h2

/-! ## `handleFrame` -/

def errRC : SErr → RC
  | .goAway code _ => .conn code
  | .reset code => .strm code

def errAbsRC : StreamSM.Err → RC
  | .conn c => .conn c.num
  | .strm c => .strm c.num

/-- the content-length test of the dispatch condition -/
def clm (st : Strm) : Bool := st.hasCL && (st.recvBody : Int) != st.contentLength

/-- what the refinement needs of `handleFrame` on the stream object `u` (= `st`, id `sid`) for the abstract frame `f`
and the content-length verdict `cm` of the adapter's context -/
def HFspec (r : R) (u sid : Nat) (st : Strm) (fr : Frame) (f : Fr) (cm : Bool) : Prop :=
  fm (pX sid) (handleFrame r u fr).1.out = fm (pX sid) r.out ∧
  (handleFrame r u fr).1.s.lastID = r.s.lastID ∧ (handleFrame r u fr).1.s.lastRefused = r.s.lastRefused ∧
  (handleFrame r u fr).1.s.ring = r.s.ring ∧ (handleFrame r u fr).1.s.resetByUs = r.s.resetByUs ∧
  ∃ st', TB (handleFrame r u fr).1 u sid st' ∧ st'.state = st.state ∧ resume st' = resume st ∧
    match StreamSM.handleFrame (absT st) f with
    | .error e => (handleFrame r u fr).2.map errRC = some (errAbsRC e)
    | .ok t' => (handleFrame r u fr).2 = none ∧ absT st' = t' ∧ clm st' = cm

/-- frames without header fragment and without payload accounting: RST_STREAM, PRIORITY, and the types the stream loop rejects -/
theorem hf_simple (h : TB r u sid st) (fr : Frame) (hwf : FrWF fr) (hres : st.state ≠ .reserved) (hs : fr.stream = sid)
    (hb : (∃ c, fr.body = .rstStream c) ∨ (∃ d w, fr.body = .priority d w) ∨ (∃ a, fr.body = .settings a) ∨
      (∃ a b c, fr.body = .goAway a b c) ∨ (∃ a b, fr.body = .ping a b) ∨ (∃ a b c, fr.body = .pushPromise a b c))
    (cm : Bool) (hcm : cm = clm st) : HFspec r u sid st fr (absFrame r.s fr) cm := by
  obtain ⟨typ, flags, sid', len, body⟩ := fr
  simp only at hb hs; subst hs
  have hid := h.id
  unfold HFspec
  rcases hb with ⟨c, rfl⟩ | ⟨d, w, rfl⟩ | ⟨a, rfl⟩ | ⟨a, b, c, rfl⟩ | ⟨a, b, rfl⟩ | ⟨a, b, c, rfl⟩
  all_goals
    simp only [FrWF] at hwf; subst hwf
    cases hst : st.state <;> first | exact absurd hst hres | skip
  all_goals cases hhf : st.headersFinished
  all_goals
    simp +decide [handleFrame, h.g, verifyState, continuingHeaders, hst, hhf, StreamSM.handleFrame, StreamSM.verifyState, absT, absTSt,
      StreamSM.continuingHeaders, StState.rank, errRC, errAbsRC, absFrame, hid]
  all_goals first
    | exact ⟨st, h, (by first | rfl | exact hst), rfl⟩
    | exact ⟨st, h, (by first | rfl | exact hst), rfl, by simp [hst, hhf], hcm.symm⟩
    | (by_cases hd : d = sid' <;> simp +decide [hd, errRC, errAbsRC] <;>
        first | exact ⟨st, h, (by first | rfl | exact hst), rfl⟩ | exact ⟨st, h, (by first | rfl | exact hst), rfl, by simp [hst, hhf], hcm.symm⟩)

theorem hf_wu (h : TB r u sid st) (fr : Frame) (hwf : FrWF fr) (hres : st.state ≠ .reserved) (hs : fr.stream = sid)
    (inc : Nat) (hb : fr.body = .windowUpdate inc) (cm : Bool) (hcm : cm = clm st) :
    HFspec r u sid st fr (absFrame r.s fr) cm := by
  obtain ⟨typ, flags, sid', len, body⟩ := fr
  simp only at hb hs; subst hs; subst hb
  have hid := h.id
  have hl := h.l
  unfold HFspec
  simp only [FrWF] at hwf; subst hwf
  have t1 := h.upd (fun s => { s with window := st.window + inc }) rfl rfl
  cases hst : st.state <;> first | exact absurd hst hres | skip
  all_goals cases hhf : st.headersFinished
  all_goals by_cases h0 : inc = 0
  all_goals by_cases h1 : st.window + (inc : Int) < 2147483647
  all_goals by_cases h2 : st.window + (inc : Int) = 2147483647
  all_goals by_cases h3 : (2147483647 : Int) < st.window + (inc : Int)
  all_goals first | (exfalso; omega) | skip
  all_goals
    simp +decide [handleFrame, h.g, verifyState, continuingHeaders, hst, hhf, StreamSM.handleFrame, StreamSM.verifyState, absT, absTSt,
      StreamSM.continuingHeaders, StState.rank, errRC, errAbsRC, absFrame, hid, hl, h0, h1, h2, h3]
  all_goals first
    | exact ⟨st, h, (by first | rfl | exact hst), rfl⟩
    | exact ⟨_, h.upd _ rfl rfl, (by first | rfl | exact hst), rfl⟩
    | exact ⟨_, h.upd _ rfl rfl, (by first | rfl | exact hst), rfl, by simp [hst, hhf], hcm.symm⟩
    | exact ⟨rfl, rfl, rfl, rfl, _, h.upd _ rfl rfl, (by first | rfl | exact hst), rfl⟩
    | exact ⟨rfl, rfl, rfl, rfl, _, h.upd _ rfl rfl, (by first | rfl | exact hst), rfl, by simp [hst, hhf], hcm.symm⟩

theorem ccw_keeps (r : R) (n : Nat) :
    (consumeConnWindow r n).s.strms = r.s.strms ∧ (consumeConnWindow r n).s.lastID = r.s.lastID ∧
    (consumeConnWindow r n).s.lastRefused = r.s.lastRefused ∧ (consumeConnWindow r n).s.ring = r.s.ring ∧
    (consumeConnWindow r n).s.resetByUs = r.s.resetByUs := by
  simp only [consumeConnWindow, R.emit]; (repeat' split) <;> exact ⟨rfl, rfl, rfl, rfl, rfl⟩

theorem crw_keeps (r : R) (x : Strm) (fr : Frame) (n : Nat) :
    (consumeRecvWindow r x fr n).s.strms = r.s.strms ∧ (consumeRecvWindow r x fr n).s.lastID = r.s.lastID ∧
    (consumeRecvWindow r x fr n).s.lastRefused = r.s.lastRefused ∧ (consumeRecvWindow r x fr n).s.ring = r.s.ring ∧
    (consumeRecvWindow r x fr n).s.resetByUs = r.s.resetByUs := by
  simp only [consumeRecvWindow]
  split
  · exact ⟨rfl, rfl, rfl, rfl, rfl⟩
  · split <;> exact ccw_keeps _ _

@[simp] theorem consumeRecvWindow_pX (sid : Nat) (r : R) (x : Strm) (fr : Frame) (n : Nat) :
    fm (pX sid) (consumeRecvWindow r x fr n).out = fm (pX sid) r.out :=
  consumeRecvWindow_fm (pX sid) _ (pX_only sid) (by decide) r x fr n

@[simp] theorem updStrm_cfg (r : R) (u : Nat) (f : Strm → Strm) : (r.updStrm u f).s.cfg = r.s.cfg := rfl
@[simp] theorem updStrm_lastID (r : R) (u : Nat) (f : Strm → Strm) : (r.updStrm u f).s.lastID = r.s.lastID := rfl
@[simp] theorem updStrm_lastRefused (r : R) (u : Nat) (f : Strm → Strm) : (r.updStrm u f).s.lastRefused = r.s.lastRefused := rfl
@[simp] theorem updStrm_ring (r : R) (u : Nat) (f : Strm → Strm) : (r.updStrm u f).s.ring = r.s.ring := rfl
@[simp] theorem updStrm_rbu (r : R) (u : Nat) (f : Strm → Strm) : (r.updStrm u f).s.resetByUs = r.s.resetByUs := rfl
@[simp] theorem updStrm_out (r : R) (u : Nat) (f : Strm → Strm) : (r.updStrm u f).out = r.out := rfl

theorem hf_data (h : TB r u sid st) (fr : Frame) (hwf : FrWF fr) (hres : st.state ≠ .reserved) (hs : fr.stream = sid)
    (es : Bool) (b : Bytes) (hb : fr.body = .data es b) (cm : Bool)
    (hcm : cm = clm { st with recvBody := st.recvBody + b.length }) :
    HFspec r u sid st fr (absFrame r.s fr) cm := by
  obtain ⟨typ, flags, sid', len, body⟩ := fr
  simp only at hb hs; subst hs; subst hb
  have hid := h.id
  have hl := h.l
  unfold HFspec
  simp only [FrWF] at hwf; obtain ⟨rfl, rfl⟩ := hwf
  cases hst : st.state <;> first | exact absurd hst hres | skip
  all_goals cases hhf : st.headersFinished
  all_goals by_cases hov : 0 < r.s.cfg.maxBody ∧ r.s.cfg.maxBody < st.recvBody + b.length
  all_goals
    simp +decide [handleFrame, h.g, verifyState, continuingHeaders, hst, hhf, StreamSM.handleFrame, StreamSM.verifyState, absT, absTSt,
      StreamSM.continuingHeaders, StState.rank, errRC, errAbsRC, absFrame, hl, hov, StreamSM.closedRank,
      (ccw_keeps _ _).2, (crw_keeps _ _ _ _).2]
  all_goals first
    | exact ⟨st, h, (by first | rfl | exact hst), rfl⟩
    | exact ⟨_, (h.upd _ rfl rfl).congr (ccw_keeps _ _).1 (ccw_keeps _ _).2.1, (by first | rfl | exact hst), rfl⟩
    | (refine ⟨_, ((h.upd _ rfl rfl).upd _ rfl rfl).congr (crw_keeps _ _ _ _).1 (crw_keeps _ _ _ _).2.1, (by first | rfl | exact hst), rfl, ?_, ?_⟩
       · simp
       · rw [hcm]; simp [clm])

end
end H2.Server.Lock.Refine
