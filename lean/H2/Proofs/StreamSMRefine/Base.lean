import H2.Server.Lock.StreamSM
import H2.Proofs.ServerSlotsFull
/-!
# C08 — the lockstep comparison of `Lock/StreamSM.lean` as theorems: vocabulary

* `RC` / `fullRC` / `absRC`: the reaction classes the adapter compares, as data instead of strings
  (`fullReaction_eq`, `absReaction_eq`: the adapter's strings are the images of these under one function `RC.str`,
  so equality of classes gives equality of the strings the lockstep compares).
* `pX` / `rcOf`: the class of an output list is a function of its projection onto GOAWAY / RST_STREAM(sid) /
  dispatch(sid) records, so the `…_fm` lemmas of `ServerOnce.lean` carry it through the functions that only
  write WINDOW_UPDATE or DATA.
* `FrWF`: what `Frame.readFrame` guarantees about the redundant fields of a parsed frame (`readFrame_wf`).
* list facts about `find?`, the table update `R.updStrm`, `delFirst`, `markClosed`.
-/
namespace H2.Server.Lock.Refine
open H2.Frame (Frame Body)
open H2.Server
open H2.Server.StreamSM (Pos Fr Ctx Reaction Code TSt Cmp Inc Blk BlockOn)

/-! ## reaction classes -/

inductive RC where
  | conn (code : Nat) | strm (code : Nat) | dispatch | ok
deriving DecidableEq, Repr

def RC.str : RC → String
  | .conn code => s!"conn{code}"
  | .strm code => s!"stream{code}"
  | .dispatch => "dispatch"
  | .ok => "ok"

def fullRC (outs : List Out) (sid : Nat) : RC :=
  match outHasGoAway outs with
  | some code => .conn code
  | none =>
    match outRst outs sid with
    | some code => .strm code
    | none => if outDispatch outs sid then .dispatch else .ok

def absRC : Reaction → RC
  | .process | .ignore => .ok
  | .dispatch => .dispatch
  | .streamErr c => .strm c.num
  | .connErr c => .conn c.num

theorem fullReaction_eq (outs : List Out) (sid : Nat) : fullReaction outs sid = (fullRC outs sid).str := by
  unfold fullReaction fullRC
  cases outHasGoAway outs with
  | some c => rfl
  | none =>
    cases outRst outs sid with
    | some c => rfl
    | none => cases outDispatch outs sid <;> rfl

theorem absReaction_eq (r : Reaction) : absReaction r = (absRC r).str := by
  cases r <;> rfl

/-- equality of classes is equality of the strings the adapter compares -/
theorem reaction_str {r : Reaction} {outs : List Out} {sid : Nat} (h : absRC r = fullRC outs sid) :
    absReaction r = fullReaction outs sid := by
  rw [absReaction_eq, fullReaction_eq, h]

/-- the records the class of an output list depends on -/
inductive XE where
  | ga (code : Nat) | rs (code : Nat) | dp
deriving DecidableEq, Repr

def pX (sid : Nat) : Out → Option XE
  | .goAway _ c _ => some (.ga c)
  | .rst s c => if s == sid then some (.rs c) else none
  | .dispatch s _ _ _ _ _ => if s == sid then some .dp else none
  | _ => none

theorem pX_only (sid : Nat) : Only (pX sid) [.goAway, .rst, .dispatch] := by
  intro o h; cases o <;> simp_all [Out.kind, pX]

def rcOf (l : List XE) : RC :=
  match l.findSome? (fun e => match e with | .ga c => some c | _ => none) with
  | some c => .conn c
  | none =>
    match l.findSome? (fun e => match e with | .rs c => some c | _ => none) with
    | some c => .strm c
    | none => if l.any (fun e => match e with | .dp => true | _ => false) then .dispatch else .ok

theorem findSome_fm {α β : Type} (p : Out → Option α) (g : α → Option β) (f : Out → Option β)
    (h : ∀ o, f o = (p o).bind g) (l : List Out) : l.findSome? f = (fm p l).findSome? g := by
  induction l with
  | nil => rfl
  | cons o l ih =>
    simp only [List.findSome?_cons, fm, List.filterMap_cons, h o]
    cases hp : p o with
    | none => simpa [fm] using ih
    | some a =>
      simp only [Option.bind, List.findSome?_cons]
      cases g a with
      | none => simpa [fm] using ih
      | some b => rfl

theorem any_fm {α : Type} (p : Out → Option α) (g : α → Bool) (f : Out → Bool)
    (h : ∀ o, f o = match p o with | some a => g a | none => false) (l : List Out) : l.any f = (fm p l).any g := by
  induction l with
  | nil => rfl
  | cons o l ih =>
    simp only [List.any_cons, fm, List.filterMap_cons, h o]
    cases hp : p o with
    | none => simpa [fm] using ih
    | some a => simp only [List.any_cons]; rw [ih]; rfl

theorem fullRC_eq (outs : List Out) (sid : Nat) : fullRC outs sid = rcOf (fm (pX sid) outs) := by
  have e1 : outHasGoAway outs = (fm (pX sid) outs).findSome? (fun e => match e with | .ga c => some c | _ => none) := by
    unfold outHasGoAway
    apply findSome_fm
    intro o
    cases o <;> simp only [pX] <;> first | rfl | (split <;> rfl)
  have e2 : outRst outs sid = (fm (pX sid) outs).findSome? (fun e => match e with | .rs c => some c | _ => none) := by
    unfold outRst
    apply findSome_fm
    intro o
    cases o <;> simp only [pX] <;> first | rfl | (split <;> rfl)
  have e3 : outDispatch outs sid = (fm (pX sid) outs).any (fun e => match e with | .dp => true | _ => false) := by
    unfold outDispatch
    apply any_fm
    intro o
    cases o with
    | rst s c => by_cases h : s = sid <;> simp [pX, h]
    | dispatch s m p a f b => by_cases h : s = sid <;> simp [pX, h]
    | _ => rfl
  unfold fullRC rcOf
  rw [e1, e2, e3]

/-! ## parsed frames -/

/-- what the parser guarantees about the redundant fields of a frame: `typ` is the type of the body, and the flags the
body records are the bits of `flags` -/
def FrWF (fr : Frame) : Prop :=
  match fr.body with
  | .data es _ => fr.typ = Gen.c_FrameData ∧ es = Frame.hasFlag fr.flags Gen.c_FlagEndStream
  | .headers es eh _ _ => fr.typ = Gen.c_FrameHeaders ∧ es = Frame.hasFlag fr.flags Gen.c_FlagEndStream ∧
      eh = Frame.hasFlag fr.flags Gen.c_FlagEndHeaders
  | .priority _ _ => fr.typ = Gen.c_FramePriority
  | .rstStream _ => fr.typ = Gen.c_FrameResetStream
  | .settings _ => fr.typ = Gen.c_FrameSettings
  | .pushPromise _ _ _ => fr.typ = Gen.c_FramePushPromise
  | .ping _ _ => fr.typ = Gen.c_FramePing
  | .goAway _ _ _ => fr.typ = Gen.c_FrameGoAway
  | .windowUpdate _ => fr.typ = Gen.c_FrameWindowUpdate
  | .continuation eh _ => fr.typ = Gen.c_FrameContinuation ∧ eh = Frame.hasFlag fr.flags Gen.c_FlagEndHeaders

set_option linter.unusedSimpArgs false in
theorem deserialize_wf (typ flags stream len : Nat) (p : Bytes) (body : Body) (ht : typ ≤ Gen.c_FrameContinuation)
    (h : Frame.deserialize typ flags p = .inl body) : FrWF ⟨typ, flags, stream, len, body⟩ := by
  have hc : typ = 0 ∨ typ = 1 ∨ typ = 2 ∨ typ = 3 ∨ typ = 4 ∨ typ = 5 ∨ typ = 6 ∨ typ = 7 ∨ typ = 8 ∨ typ = 9 := by
    simp only [Gen.c_FrameContinuation] at ht; omega
  rcases hc with rfl | rfl | rfl | rfl | rfl | rfl | rfl | rfl | rfl | rfl
  all_goals
    simp +decide only [Frame.deserialize, Gen.c_FrameData, Gen.c_FrameHeaders, Gen.c_FramePriority, Gen.c_FrameResetStream,
      Gen.c_FrameSettings, Gen.c_FramePushPromise, Gen.c_FramePing, Gen.c_FrameGoAway, Gen.c_FrameWindowUpdate,
      Gen.c_FrameContinuation, if_true, if_false] at h
    repeat' split at h
  all_goals first
    | (injection h with h; subst h
       simp +decide only [FrWF, Gen.c_FrameData, Gen.c_FrameHeaders, Gen.c_FramePriority, Gen.c_FrameResetStream, Gen.c_FrameSettings,
         Gen.c_FramePushPromise, Gen.c_FramePing, Gen.c_FrameGoAway, Gen.c_FrameWindowUpdate, Gen.c_FrameContinuation, and_self,
         true_and])
    | cases h

theorem readFrame_wf (max : Nat) (b : Bytes) (fr : Frame) (n : Nat) (h : Frame.readFrame max b = .ok fr n) : FrWF fr := by
  unfold Frame.readFrame at h
  dsimp only at h
  repeat' split at h
  all_goals first
    | (rename_i body hd
       simp only [Frame.ReadRes.ok.injEq] at h
       obtain ⟨rfl, _⟩ := h
       exact deserialize_wf _ _ _ _ _ _ (by omega) hd)
    | cases h

end H2.Server.Lock.Refine
