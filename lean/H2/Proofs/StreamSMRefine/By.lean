import H2.Proofs.StreamSMRefine.Run3
set_option linter.unusedSimpArgs false
/-!
# C08 refinement — bystanders: a frame on stream `a` moves the place of another id `b` only as the environment events of
`StreamSM` do (`newer`, `higherRefused`, `evictRing`, `forgetReset`)

`FE a u r r'`: what a frame on stream `a` (stream object `u`) may do to the tables, seen from the other ids.
-/
namespace H2.Server.Lock.Refine
open H2.Frame (Frame Body)
open H2.Server
open H2.Server.StreamSM (Pos Cmp)

/-- the effect on the tables of handling a frame for stream `a` / object `u`, as far as other ids can see it -/
structure FE (a u : Nat) (r r' : R) : Prop where
  sub : ∀ x ∈ r'.s.strms, x.uid ≠ u → x ∈ r.s.strms
  sup : ∀ x ∈ r.s.strms, x.uid ≠ u → x ∈ r'.s.strms
  fid : (∀ x ∈ r.s.strms, x.uid = u → x.id = a) → ∀ x ∈ r'.s.strms, x.uid = u → x.id = a
  rb : ∀ y, y ≠ a → r'.s.resetByUs.contains y = true → r.s.resetByUs.contains y = true
  ring : ∀ y, y ≠ a → r'.s.ring.contains y = true → r.s.ring.contains y = true
  last : r'.s.lastID = r.s.lastID ∨ (r'.s.lastID = a ∧ r.s.lastID < a)
  refd : r'.s.lastRefused = r.s.lastRefused ∨ (r'.s.lastRefused = a ∧ r.s.lastRefused < a)

section
variable {a u : Nat} {r r' r'' : R}

theorem FE.refl (a u : Nat) (r : R) : FE a u r r :=
  ⟨fun _ h _ => h, fun _ h _ => h, fun h => h, fun _ _ h => h, fun _ _ h => h, Or.inl rfl, Or.inl rfl⟩

theorem FE.trans (h1 : FE a u r r') (h2 : FE a u r' r'') : FE a u r r'' := by
  refine ⟨fun x hx hu => h1.sub x (h2.sub x hx hu) hu, fun x hx hu => h2.sup x (h1.sup x hx hu) hu,
    fun h => h2.fid (h1.fid h), fun y hy h => h1.rb y hy (h2.rb y hy h), fun y hy h => h1.ring y hy (h2.ring y hy h), ?_, ?_⟩
  · rcases h1.last with e1 | ⟨e1, l1⟩ <;> rcases h2.last with e2 | ⟨e2, l2⟩
    · exact Or.inl (e2.trans e1)
    · exact Or.inr ⟨e2, by rw [← e1]; exact l2⟩
    · exact Or.inr ⟨e2.trans e1, l1⟩
    · exact Or.inr ⟨e2, l1⟩
  · rcases h1.refd with e1 | ⟨e1, l1⟩ <;> rcases h2.refd with e2 | ⟨e2, l2⟩
    · exact Or.inl (e2.trans e1)
    · exact Or.inr ⟨e2, by rw [← e1]; exact l2⟩
    · exact Or.inr ⟨e2.trans e1, l1⟩
    · exact Or.inr ⟨e2, l1⟩

/-- nothing the other ids can see has changed -/
theorem FE.of_eq (e1 : r'.s.strms = r.s.strms) (e2 : r'.s.resetByUs = r.s.resetByUs) (e3 : r'.s.ring = r.s.ring)
    (e4 : r'.s.lastID = r.s.lastID) (e5 : r'.s.lastRefused = r.s.lastRefused) : FE a u r r' :=
  ⟨fun x h _ => e1 ▸ h, fun x h _ => e1 ▸ h, fun h x hx => h x (e1 ▸ hx), fun _ _ h => e2 ▸ h, fun _ _ h => e3 ▸ h,
    Or.inl e4, Or.inl e5⟩

theorem fe_upd (r : R) (f : Strm → Strm) (hf : ∀ x, x.uid = u → (f x).uid = u ∧ (f x).id = x.id) : FE a u r (r.updStrm u f) := by
  refine ⟨?_, ?_, ?_, fun _ _ h => h, fun _ _ h => h, Or.inl rfl, Or.inl rfl⟩
  · intro x hx hu
    simp only [R.updStrm, List.mem_map] at hx
    obtain ⟨y, hy, rfl⟩ := hx
    by_cases hyu : y.uid = u
    · simp only [hyu, beq_self_eq_true, if_true] at hu
      exact absurd (hf y hyu).1 hu
    · have : (y.uid == u) = false := by simpa using hyu
      simp only [this, Bool.false_eq_true, if_false]; exact hy
  · intro x hx hu
    simp only [R.updStrm, List.mem_map]
    exact ⟨x, hx, by have : (x.uid == u) = false := by simpa using hu
                     simp [this]⟩
  · intro h x hx hu
    simp only [R.updStrm, List.mem_map] at hx
    obtain ⟨y, hy, rfl⟩ := hx
    by_cases hyu : y.uid = u
    · simp only [hyu, beq_self_eq_true, if_true]
      rw [(hf y hyu).2]; exact h y hy hyu
    · have : (y.uid == u) = false := by simpa using hyu
      simp only [this, Bool.false_eq_true, if_false] at hu ⊢
      exact h y hy hu

/-- the object replaced by one with the same uid and the id `a` -/
theorem fe_updc (r : R) (st' : Strm) (hu : st'.uid = u) (hid : st'.id = a) : FE a u r (r.updStrm u fun _ => st') := by
  refine ⟨?_, ?_, ?_, fun _ _ h => h, fun _ _ h => h, Or.inl rfl, Or.inl rfl⟩
  · intro x hx hxu
    simp only [R.updStrm, List.mem_map] at hx
    obtain ⟨y, hy, rfl⟩ := hx
    by_cases hyu : y.uid = u
    · simp only [hyu, beq_self_eq_true, if_true] at hxu
      exact absurd hu hxu
    · have : (y.uid == u) = false := by simpa using hyu
      simp only [this, Bool.false_eq_true, if_false]; exact hy
  · intro x hx hxu
    simp only [R.updStrm, List.mem_map]
    exact ⟨x, hx, by have : (x.uid == u) = false := by simpa using hxu
                     simp [this]⟩
  · intro h x hx hxu
    simp only [R.updStrm, List.mem_map] at hx
    obtain ⟨y, hy, rfl⟩ := hx
    by_cases hyu : y.uid = u
    · simp only [hyu, beq_self_eq_true, if_true]; exact hid
    · have : (y.uid == u) = false := by simpa using hyu
      simp only [this, Bool.false_eq_true, if_false] at hxu ⊢
      exact h y hy hxu

theorem fe_writeReset (r : R) (code : Nat) : FE a u r (writeReset r a code) :=
  ⟨fun _ h _ => h, fun _ h _ => h, fun h => h,
    fun y hy h => by rcases writeReset_rb r a code y h with h | h; exact h; exact absurd h hy,
    fun _ _ h => h, Or.inl rfl, Or.inl rfl⟩

theorem fe_writeReset' (r : R) (sid code : Nat) (hs : sid = a) : FE a u r (writeReset r sid code) := by
  subst hs; exact fe_writeReset r code

theorem fe_writeGoAway (r : R) (sid code : Nat) (tag : String) : FE a u r (writeGoAway r sid code tag) := by
  apply FE.of_eq <;> (simp only [writeGoAway, R.emit]; split <;> rfl)

theorem mem_delFirst_of_ne (l : List Strm) (id : Nat) (x : Strm) (hx : x ∈ l) (hne : x.id ≠ id) : x ∈ delFirst l id := by
  induction l with
  | nil => cases hx
  | cons b l ih =>
    simp only [delFirst]
    by_cases hb : b.id = id
    · simp only [hb, beq_self_eq_true, if_true]
      rcases List.mem_cons.mp hx with rfl | h
      · exact absurd hb hne
      · exact h
    · have : (b.id == id) = false := by simpa using hb
      simp only [this, Bool.false_eq_true, if_false]
      rcases List.mem_cons.mp hx with rfl | h
      · exact List.mem_cons_self ..
      · exact List.mem_cons_of_mem _ (ih h)

theorem markClosed_sub (ring : List Nat) (id y : Nat) (hy : y ≠ id) (h : (markClosed ring id).contains y = true) :
    ring.contains y = true := by
  simp only [markClosed] at h
  split at h
  · exact h
  · split at h
    · simp only [List.contains_eq_mem, List.mem_append, List.mem_singleton, decide_eq_true_eq] at h ⊢
      rcases h with h | h
      · exact h
      · exact absurd h hy
    · simp only [List.contains_eq_mem, List.mem_append, List.mem_singleton, decide_eq_true_eq] at h ⊢
      rcases h with h | h
      · exact List.mem_of_mem_drop h
      · exact absurd h hy

theorem fe_closeStream {st : Strm} (hun : (r.s.strms.map (·.uid)).Nodup) (hidn : (r.s.strms.map (·.id)).Nodup)
    (hg : r.getStrm u = some st) (hid : st.id = a) : FE a u r (closeStream r u) := by
  obtain ⟨e1, e2, e3, e4, e5, _⟩ := closeStream_tb hg
  have hm : st ∈ r.s.strms := List.mem_of_find?_eq_some hg
  have hu : st.uid = u := by simpa using List.find?_some hg
  refine ⟨?_, ?_, ?_, fun _ _ h => e3 ▸ h, ?_, Or.inl e4, Or.inl e5⟩
  · intro x hx _; rw [e1] at hx; exact (delFirst_sublist _ _).subset hx
  · intro x hx hxu
    rw [e1]
    refine mem_delFirst_of_ne _ _ x hx (fun he => hxu ?_)
    rw [nodup_map_inj (·.id) _ hidn x st hx hm he]; exact hu
  · intro h x hx hxu; rw [e1] at hx; exact h x ((delFirst_sublist _ _).subset hx) hxu
  · intro y hy h; rw [e2, hid] at h; exact markClosed_sub _ _ _ hy h

theorem fe_closeStream_none (hg : r.getStrm u = none) : closeStream r u = r := by simp only [closeStream, hg]

/-- `FE` through `sendData` -/
theorem fe_refill {st : Strm} (hu : st.uid = u) (hid : st.id = a) : FE a u r (refill r u st).1 := by
  simp only [refill]
  repeat' split
  all_goals first
    | exact FE.refl _ _ _
    | (refine FE.trans (fe_updc r _ ?_ ?_) (fe_writeReset' _ _ _ hid) <;> first | exact hu | exact hid)
    | (refine fe_updc r _ ?_ ?_ <;> first | exact hu | exact hid)
    | (refine FE.trans (fe_updc r _ ?_ ?_) (FE.of_eq rfl rfl rfl rfl rfl) <;> first | exact hu | exact hid)

theorem fe_closeBody (r : R) : FE a u r (closeBody r u) := fe_upd r _ fun _ h => ⟨h, rfl⟩

theorem fe_sendFrame (r : R) (st : Strm) (n : Nat) : FE a u r (sendFrame r u st n).1 := by
  simp only [sendFrame]
  refine FE.trans (FE.of_eq (r' := r.emit (.data st.id (st.pendingEnd && st.pendLen - n == 0) n (st.src.digest st.pendOff n))) rfl rfl rfl rfl rfl) ?_
  refine FE.trans (fe_upd _ (fun s => { s with pendOff := s.pendOff + n, pendLen := st.pendLen - n, window := s.window - n }) fun _ h => ⟨h, rfl⟩) ?_
  exact FE.of_eq rfl rfl rfl rfl rfl

theorem fe_sendDataFuel (fuel : Nat) (hfid : ∀ x ∈ r.s.strms, x.uid = u → x.id = a) : FE a u r (sendDataFuel fuel r u).1 := by
  induction fuel generalizing r with
  | zero => exact FE.refl _ _ _
  | succ n ih =>
    rw [sendDataFuel_succ]
    split
    · exact FE.refl _ _ _
    · rename_i st0 hg
      have hm : st0 ∈ r.s.strms := List.mem_of_find?_eq_some hg
      have hu0 : st0.uid = u := by simpa using List.find?_some hg
      have F1 : FE a u r (refill r u st0).1 := fe_refill hu0 (hfid st0 hm hu0)
      repeat' split
      all_goals first
        | exact F1.trans (fe_closeBody _)
        | exact F1
        | exact (F1.trans (fe_sendFrame _ _ _)).trans (fe_closeBody _)
        | exact (F1.trans (fe_sendFrame _ _ _)).trans (ih ((F1.trans (fe_sendFrame _ _ _)).fid hfid))

theorem fe_sendData (hfid : ∀ x ∈ r.s.strms, x.uid = u → x.id = a) : FE a u r (sendData r u).1 := by
  simp only [sendData]; split
  · exact FE.refl _ _ _
  · exact fe_sendDataFuel _ hfid

theorem fe_ccw (r : R) (n : Nat) : FE a u r (consumeConnWindow r n) := by
  obtain ⟨e1, e2, e3, e4, e5⟩ := ccw_keeps r n
  exact FE.of_eq e1 e5 e4 e2 e3
theorem fe_crw (r : R) (x : Strm) (fr : Frame) (n : Nat) : FE a u r (consumeRecvWindow r x fr n) := by
  obtain ⟨e1, e2, e3, e4, e5⟩ := crw_keeps r x fr n
  exact FE.of_eq e1 e5 e4 e2 e3

theorem fe_handleFrame (hfid : ∀ x ∈ r.s.strms, x.uid = u → x.id = a) (fr : Frame) : FE a u r (handleFrame r u fr).1 := by
  simp only [handleFrame]
  split
  · exact FE.refl _ _ _
  · rename_i st hg
    have hm : st ∈ r.s.strms := List.mem_of_find?_eq_some hg
    have hu : st.uid = u := by simpa using List.find?_some hg
    have hid : st.id = a := hfid st hm hu
    obtain ⟨t1, t2, t3, t4, t5⟩ := handleHeaderFrame_tbl r.s st fr
    have hk := handleHeaderFrame_K r.s st fr
    simp only [K, Prod.mk.injEq] at hk
    have hh : FE a u r (({ r with s := (handleHeaderFrame r.s st fr).1 } : R).updStrm u fun _ => (handleHeaderFrame r.s st fr).2.1) :=
      (FE.of_eq (r' := ({ r with s := (handleHeaderFrame r.s st fr).1 } : R)) t1 t5 t4 t2 t3).trans
        (fe_updc _ _ (hk.1.trans hu) (hk.2.1.trans hid))
    repeat' split
    all_goals first
      | exact FE.refl _ _ _
      | exact hh
      | (refine hh.trans (fe_upd _ _ ?_); intro x h; exact ⟨h, rfl⟩)
      | (refine FE.trans (fe_updc r _ ?_ ?_) (fe_ccw _ _) <;> first | exact hu | exact hid)
      | (refine FE.trans (FE.trans (fe_updc r _ ?_ ?_) (fe_upd _ _ ?_)) (fe_crw _ _ _ _)
         · exact hu
         · exact hid
         · intro x h; exact ⟨h, rfl⟩)
      | (refine fe_upd _ _ ?_; intro x h; exact ⟨h, rfl⟩)

theorem fe_writeError (hfid : ∀ x ∈ r.s.strms, x.uid = u → x.id = a) (e : SErr) : FE a u r (writeError r u e) := by
  simp only [writeError]
  split
  · exact FE.refl _ _ _
  · rename_i st hg
    have hm : st ∈ r.s.strms := List.mem_of_find?_eq_some hg
    have hu : st.uid = u := by simpa using List.find?_some hg
    cases e with
    | goAway c t => exact (fe_writeGoAway r _ _ _).trans (fe_upd _ _ fun _ h => ⟨h, rfl⟩)
    | reset c => exact (fe_writeReset' r _ _ (hfid st hm hu)).trans (fe_upd _ _ fun _ h => ⟨h, rfl⟩)

theorem fe_onFrameError (hfid : ∀ x ∈ r.s.strms, x.uid = u → x.id = a) (e : Option SErr) : FE a u r (onFrameError r u e).1 := by
  simp only [onFrameError]
  repeat' split
  all_goals first
    | exact FE.refl _ _ _
    | exact (fe_writeError hfid _).trans (fe_upd _ _ fun _ h => ⟨h, rfl⟩)

theorem fe_dispatchOrSend (hfid : ∀ x ∈ r.s.strms, x.uid = u → x.id = a) {st : Strm} (hid : st.id = a) :
    FE a u r (dispatchOrSend r u st) := by
  simp only [dispatchOrSend]
  split
  · have h1 : FE a u r (r.updStrm u fun s => { s with responded := true }) := fe_upd _ _ fun _ h => ⟨h, rfl⟩
    split
    · exact (h1.trans (fe_writeReset' _ _ _ hid)).trans (fe_upd _ _ fun _ h => ⟨h, rfl⟩)
    · simp only [dispatch]
      refine (h1.trans (fe_upd _ (fun s => { s with handlerRunning := true }) fun _ h => ⟨h, rfl⟩)).trans ?_
      exact FE.of_eq rfl rfl rfl rfl rfl
  · split
    · split
      · exact (fe_sendData hfid).trans (fe_upd _ _ fun _ h => ⟨h, rfl⟩)
      · exact fe_sendData hfid
    · exact FE.refl _ _ _

variable {D H E : List Nat}

theorem fe_closeIfClosed (hi : Inv D H E r) (hfid : ∀ x ∈ r.s.strms, x.uid = u → x.id = a) : FE a u r (closeIfClosed r u) := by
  simp only [closeIfClosed]
  split
  · rename_i st hg
    split
    · exact fe_closeStream hi.uidNodup hi.idNodup hg
        (hfid st (List.mem_of_find?_eq_some hg) (by simpa using List.find?_some hg))
    · exact FE.refl _ _ _
  · exact FE.refl _ _ _

theorem fe_stopIf (c : Bool) (r : R) : FE a u r (if c then stopLoop r else r) := by
  cases c
  · exact FE.refl _ _ _
  · exact FE.of_eq rfl rfl rfl rfl rfl

theorem fe_tail (hi : Inv D H E r) (hfid : ∀ x ∈ r.s.strms, x.uid = u → x.id = a) (fr : Frame) (wc : Bool) :
    FE a u r (tail r u fr wc) := by
  have F3 : FE a u r (r.updStrm u (handleState fr)) :=
    fe_upd _ _ fun x h => ⟨by rw [(handleState_keys fr x).1]; exact h, (handleState_keys fr x).2.1⟩
  have hi3 : Inv D H E (r.updStrm u (handleState fr)) := upd_inv u (handleState fr) (handleState_sk fr) hi
  simp only [tail]
  split
  · exact F3
  · rename_i st3 hg3
    have hid3 : st3.id = a := F3.fid hfid st3 (List.mem_of_find?_eq_some hg3) (by simpa using List.find?_some hg3)
    have F4 := fe_dispatchOrSend (F3.fid hfid) hid3 (r := r.updStrm u (handleState fr))
    have hi4 := dispatchOrSend_inv u st3 hg3 hi3
    have F5 := fe_closeIfClosed hi4 ((F3.trans F4).fid hfid)
    exact ((F3.trans F4).trans F5).trans (fe_stopIf _ _)

/-- **`knownStream`, seen from the other ids** (the previous-block check passed) -/
theorem fe_knownStream (hi : Inv D H E r) (hfid : ∀ x ∈ r.s.strms, x.uid = u → x.id = a) (fr : Frame) (wc : Bool)
    (hpre : headersPrelude r fr = (r, true)) : FE a u r (knownStream r u fr wc) := by
  have hk : knownStream r u fr wc =
      (if (onFrameError (handleFrame r u fr).1 u (handleFrame r u fr).2).2 then
        stopLoop (onFrameError (handleFrame r u fr).1 u (handleFrame r u fr).2).1
       else tail (onFrameError (handleFrame r u fr).1 u (handleFrame r u fr).2).1 u fr wc) := by
    simp only [knownStream, hpre, tail]; rfl
  have F1 := fe_handleFrame hfid fr
  have hi1 : Inv D H E (handleFrame r u fr).1 := handleFrame_inv u fr hi
  have F2 := fe_onFrameError (F1.fid hfid) (handleFrame r u fr).2
  have hi2 : Inv D H E (onFrameError (handleFrame r u fr).1 u (handleFrame r u fr).2).1 := onFrameError_inv u _ hi1
  rw [hk]
  split
  · exact (F1.trans F2).trans (FE.of_eq rfl rfl rfl rfl rfl)
  · exact (F1.trans F2).trans (fe_tail hi2 ((F1.trans F2).fid hfid) fr wc)

/-! ## from `FE` to the places of the other ids -/

theorem lookup_some_iff {s : Srv} {b : Nat} {x : Strm} (hidn : (s.strms.map (·.id)).Nodup) (hile : ∀ y ∈ s.strms, y.id ≤ s.lastID) :
    lookup s b = some x ↔ x ∈ s.strms ∧ x.id = b := by
  constructor
  · intro h
    simp only [lookup] at h
    split at h
    · exact ⟨List.mem_of_find?_eq_some h, by simpa using List.find?_some h⟩
    · cases h
  · rintro ⟨hm, hid⟩
    have hle : b ≤ s.lastID := hid ▸ hile x hm
    simp only [lookup, hle, if_true]
    cases hf : s.strms.find? (·.id == b) with
    | none => have := List.find?_eq_none.mp hf x hm; simp [hid] at this
    | some y =>
      have hy : y ∈ s.strms := List.mem_of_find?_eq_some hf
      have hyi : y.id = b := by simpa using List.find?_some hf
      rw [nodup_map_inj (·.id) _ hidn y x hy hm (hyi.trans hid.symm)]

theorem fe_lookup {b : Nat} (F : FE a u r r') (hfid : ∀ x ∈ r.s.strms, x.uid = u → x.id = a)
    (hidn : (r.s.strms.map (·.id)).Nodup) (hile : ∀ y ∈ r.s.strms, y.id ≤ r.s.lastID)
    (hidn' : (r'.s.strms.map (·.id)).Nodup) (hile' : ∀ y ∈ r'.s.strms, y.id ≤ r'.s.lastID) (hb : b ≠ a) :
    lookup r'.s b = lookup r.s b := by
  cases h : lookup r.s b with
  | some x =>
    obtain ⟨hm, hid⟩ := (lookup_some_iff hidn hile).mp h
    have hxu : x.uid ≠ u := fun e => hb (hid ▸ hfid x hm e)
    exact (lookup_some_iff hidn' hile').mpr ⟨F.sup x hm hxu, hid⟩
  | none =>
    cases h' : lookup r'.s b with
    | none => rfl
    | some y =>
      obtain ⟨hm, hid⟩ := (lookup_some_iff hidn' hile').mp h'
      have hyu : y.uid ≠ u := fun e => hb (hid ▸ F.fid hfid y hm e)
      have := (lookup_some_iff hidn hile).mpr ⟨F.sub y hm hyu, hid⟩
      rw [h] at this; cases this

theorem envReach_self (p : Pos) : envReach p p = true := by
  cases p with
  | tab st a b c => cases st <;> cases a <;> cases b <;> cases c <;> decide +kernel
  | out a b c => cases a <;> cases b <;> cases c <;> decide +kernel
  | even => decide +kernel

/-- an id outside the table: it may be forgotten by the two bounded memories, a newer stream may be opened, a higher one refused -/
theorem envReach_out (x y x' y' : Bool) (c c' : Cmp) (hx : x' = true → x = true) (hy : y' = true → y = true)
    (hc : c' = c ∨ c' = .below ∨ (c = .above ∧ c' = .gap)) : envReach (.out x y c) (.out x' y' c') = true := by
  cases x <;> cases y <;> cases x' <;> cases y' <;> simp at hx hy <;>
    cases c <;> cases c' <;> simp at hc <;> decide +kernel

theorem cmp_move (s s' : Srv) (a b : Nat) (hb : b ≠ a)
    (h1 : s'.lastID = s.lastID ∨ (s'.lastID = a ∧ s.lastID < a))
    (h2 : s'.lastRefused = s.lastRefused ∨ (s'.lastRefused = a ∧ s.lastRefused < a)) :
    cmpOf s' b = cmpOf s b ∨ cmpOf s' b = .below ∨ (cmpOf s b = .above ∧ cmpOf s' b = .gap) := by
  simp only [cmpOf]
  repeat' split
  all_goals first
    | exact Or.inl rfl
    | exact Or.inr (Or.inl rfl)
    | exact Or.inr (Or.inr ⟨rfl, rfl⟩)
    | (exfalso
       simp only [beq_iff_eq, gt_iff_lt, Nat.not_lt] at *
       omega)

/-- **from the tables to the places**: under `FE`, every id other than `a` has moved only as the environment events allow -/
theorem fe_absPos {b : Nat} (F : FE a u r r') (hfid : ∀ x ∈ r.s.strms, x.uid = u → x.id = a)
    (hidn : (r.s.strms.map (·.id)).Nodup) (hile : ∀ y ∈ r.s.strms, y.id ≤ r.s.lastID)
    (hidn' : (r'.s.strms.map (·.id)).Nodup) (hile' : ∀ y ∈ r'.s.strms, y.id ≤ r'.s.lastID) (hb : b ≠ a) :
    envReach (absPos r.s b) (absPos r'.s b) = true := by
  by_cases hev : b % 2 = 0
  · rw [absPos_even hev, absPos_even hev]; exact envReach_self _
  · have hodd : b % 2 = 1 := by omega
    have hl := fe_lookup F hfid hidn hile hidn' hile' hb
    cases h : lookup r.s b with
    | some x =>
      rw [absPos_tab hodd h, absPos_tab hodd (hl.trans h)]; exact envReach_self _
    | none =>
      rw [absPos_out hodd h, absPos_out hodd (hl.trans h)]
      exact envReach_out _ _ _ _ _ _ (F.rb b hb) (F.ring b hb) (cmp_move r.s r'.s a b hb F.last F.refd)

/-! ## the stream loop, seen from the other ids -/

theorem fe_closeIfDone (r : R) : FE a u r (closeIfDone r) := by
  simp only [closeIfDone]; split
  · exact FE.of_eq rfl rfl rfl rfl rfl
  · exact FE.refl _ _ _

theorem fe_unknownStream_none (fr : Frame) (wc : Bool) (h : (unknownStream r fr wc).2 = none) :
    FE fr.stream u r (unknownStream r fr wc).1 := by
  have hrefuse : FE fr.stream u r (writeReset { r with s := { r.s with lastRefused := max r.s.lastRefused fr.stream } } fr.stream
      Gen.c_RefusedStreamError) := by
    refine FE.trans (r' := { r with s := { r.s with lastRefused := max r.s.lastRefused fr.stream } }) ?_ (fe_writeReset _ _)
    refine ⟨fun _ h _ => h, fun _ h _ => h, fun h => h, fun _ _ h => h, fun _ _ h => h, Or.inl rfl, ?_⟩
    show max r.s.lastRefused fr.stream = r.s.lastRefused ∨ (max r.s.lastRefused fr.stream = fr.stream ∧ r.s.lastRefused < fr.stream)
    omega
  simp only [unknownStream] at h ⊢
  repeat' split
  all_goals first
    | exact FE.refl _ _ _
    | exact fe_ccw _ _
    | exact (fe_writeGoAway r _ _ _).trans (fe_closeIfDone _)
    | exact (fe_writeGoAway r _ _ _).trans (FE.of_eq rfl rfl rfl rfl rfl)
    | exact hrefuse
    | (exfalso; simp_all)

theorem knownStream_prevUnf_cl (r : R) (u : Nat) (fr : Frame) (wc : Bool) (ht : fr.typ = Gen.c_FrameHeaders)
    (hp : prevUnf r.s.strms = true) : CL (knownStream r u fr wc) := by
  simp only [prevUnf] at hp
  split at hp
  · rename_i n hn
    have hnm := getPrevious_mem _ _ hn
    have hf : n.headersFinished = false := by simpa using hp
    have hk : knownStream r u fr wc = writeError r n.uid (.goAway Gen.c_ProtocolError "previous stream headers not ended") := by
      simp [knownStream, headersPrelude, ht, hn, hf]
    obtain ⟨st2, hg2⟩ := getStrm_of_key (r := r) (u := n.uid) ⟨key n, List.mem_map_of_mem hnm, rfl⟩
    rw [hk, writeError_of hg2]
    simp only [CL, R.updStrm]; exact writeGoAway_cl _ _ _ _
  · cases hp

theorem sinv_bx (hI : SInv r.s) : BX [] r := by
  intro _ k hk _
  simp only [KL, List.mem_map] at hk
  obtain ⟨x, hx, rfl⟩ := hk
  refine ⟨?_, ?_, hI.nrb x hx⟩ <;> (rcases hI.live x hx with h | h <;> simp [key, h])

/-- **one frame with a stream id in the stream loop, seen from the other ids**: unless a GOAWAY is written, the tables
change as `FE` says, for the stream object `u` the frame is about -/
theorem fe_slStreamFrame (hi : Inv D H E r) (hI : SInv r.s) (fr : Frame) (hc : (slStreamFrame r fr).s.closing = false) :
    ∃ u, FE fr.stream u r (slStreamFrame r fr) ∧ ∀ x ∈ r.s.strms, x.uid = u → x.id = fr.stream := by
  have hpre : ∀ (r1 : R) (u : Nat), (∀ x ∈ r1.s.strms, x.state = .idle → ¬ x.id < fr.stream) →
      (knownStream r1 u fr r.s.closing).s.closing = false → headersPrelude r1 fr = (r1, true) := by
    intro r1 u hni hcc
    refine prelude_pass r1 fr hni ?_
    cases hh : (fr.typ == Gen.c_FrameHeaders && prevUnf r1.s.strms)
    · rfl
    · simp only [Bool.and_eq_true, beq_iff_eq] at hh
      have := knownStream_prevUnf_cl r1 u fr r.s.closing hh.1 hh.2
      rw [CL, hcc] at this; cases this
  have hlive : ∀ x ∈ r.s.strms, x.state = .idle → ¬ x.id < fr.stream := fun x hx hi' => by
    rcases hI.live x hx with h | h <;> rw [h] at hi' <;> cases hi'
  cases hl : lookup r.s fr.stream with
  | some st =>
    have tb := TB.of_lookup hl hI.un hI.idn
    have hfid : ∀ x ∈ r.s.strms, x.uid = st.uid → x.id = fr.stream := fun x hx hxu => by rw [tb.uniq x hx hxu]; exact tb.id
    rw [slStreamFrame_known hl] at hc ⊢
    exact ⟨st.uid, fe_knownStream hi hfid fr _ (hpre r st.uid hlive hc), hfid⟩
  | none =>
    have hnu : ∀ x ∈ r.s.strms, ¬ x.uid = r.s.nextUid := fun x hx e => by have := hI.ult x hx; omega
    have hfid0 : ∀ x ∈ r.s.strms, x.uid = r.s.nextUid → x.id = fr.stream := fun x hx e => absurd e (hnu x hx)
    have hnf : ∀ k ∈ KL r, k.2.1 ≠ fr.stream := by
      intro k hk he
      simp only [KL, List.mem_map] at hk
      obtain ⟨x, hx, rfl⟩ := hk
      have := (lookup_some_iff hI.idn hI.ile).mpr ⟨hx, he⟩
      rw [hl] at this; cases this
    cases hu : (unknownStream r fr r.s.closing).2 with
    | none =>
      rw [slStreamFrame_unknown hl hu]
      exact ⟨r.s.nextUid, fe_unknownStream_none fr _ hu, hfid0⟩
    | some uid =>
      obtain ⟨e1, e2, e3, e4⟩ := (unknownStream_bx fr r.s.closing (sinv_bx hI) hnf).2 uid hu
      rw [slStreamFrame_created hl uid hu, e2, e1] at hc ⊢
      have hi1 : Inv D H E (created r fr) := e2 ▸ unknownStream_inv fr r.s.closing hi
      have hgt : fr.stream > r.s.lastID := by
        -- the stream was created: its id is above `lastID`
        have := hu
        simp only [unknownStream] at this
        repeat' split at this
        all_goals first
          | (rename_i hlt; simp only [Bool.or_eq_true, decide_eq_true_eq, not_or, Nat.not_le] at hlt; exact hlt.1)
          | cases this
      have F0 : FE fr.stream r.s.nextUid r (created r fr) := by
        refine ⟨?_, ?_, ?_, fun _ _ h => h, fun _ _ h => h, Or.inr ⟨rfl, hgt⟩, Or.inl rfl⟩
        · intro x hx hxu
          simp only [created, List.mem_append, List.mem_singleton] at hx
          rcases hx with hx | rfl
          · exact hx
          · exact absurd rfl hxu
        · intro x hx _; simp only [created, List.mem_append]; exact Or.inl hx
        · intro h x hx hxu
          simp only [created, List.mem_append, List.mem_singleton] at hx
          rcases hx with hx | rfl
          · exact h x hx hxu
          · rfl
      have hfid1 := F0.fid hfid0
      have hni1 : ∀ x ∈ (created r fr).s.strms, x.state = .idle → ¬ x.id < fr.stream := by
        intro x hx hxi
        simp only [created, List.mem_append, List.mem_singleton] at hx
        rcases hx with hx | rfl
        · exact hlive x hx hxi
        · simp
      have hc' : (knownStream (created r fr) r.s.nextUid fr (created r fr).s.closing).s.closing = false := hc
      have hp1 := hpre (created r fr) r.s.nextUid hni1 hc
      exact ⟨r.s.nextUid, F0.trans (fe_knownStream hi1 hfid1 fr _ hp1), hfid0⟩

/-- **Bystanders, at the stream loop.** A frame on stream `fr.stream` moves the place of any OTHER id `b` only as the
environment events of `StreamSM` do (`newer`, `higherRefused`, `evictRing`, `forgetReset`): the adapter's `envReach` holds —
unless the frame is answered with a GOAWAY. -/
theorem bystander_sl (hi : Inv D H E r) (hI : SInv r.s) (fr : Frame) (hc : (slStreamFrame r fr).s.closing = false)
    (b : Nat) (hb : b ≠ fr.stream) : envReach (absPos r.s b) (absPos (slStreamFrame r fr).s b) = true := by
  obtain ⟨u, F, hfid⟩ := fe_slStreamFrame hi hI fr hc
  have hi' := slStreamFrame_inv fr hi
  refine fe_absPos F hfid hI.idn hI.ile hi'.idNodup ?_ hb
  intro y hy
  have := hi'.ile y.sk (List.mem_map_of_mem hy); simpa [Strm.sk] using this

/-- **Bystanders, one parsed frame through the read loop** (`rlFrame`): unless a GOAWAY is written, every id other than the
frame's moves only as the environment events allow — for ALL ids `b`, not only the ones the adapter watches. -/
theorem bystander_frame (s : Srv) (fr : Frame) (hi : Inv D H E { s := s }) (hI : SInv s) (h0 : fr.stream ≠ 0)
    (hsl : s.slStopped = false) (hc : (rlFrame { s := s } fr).s.closing = false) (b : Nat) (hb : b ≠ fr.stream) :
    envReach (absPos s b) (absPos (rlFrame { s := s } fr).s b) = true := by
  by_cases hr : rlOf s fr = true
  · -- the read loop answers with GOAWAY: excluded
    exfalso
    have hcl : CL (rlFrame { s := s } fr) := by
      simp only [rlOf] at hr
      by_cases he : s.expectCont = 0
      · by_cases hcc : fr.typ = Gen.c_FrameContinuation
        · simp +decide [CL, rlFrame, contCheck, he, hcc, rlStop, writeGoAway, R.emit]
        · by_cases hh : (fr.typ == Gen.c_FrameHeaders && !Frame.hasFlag fr.flags Gen.c_FlagEndHeaders) = true <;>
          by_cases hev : fr.stream % 2 = 0 <;> by_cases hpi : fr.typ = Gen.c_FramePing <;>
          by_cases hpp : fr.typ = Gen.c_FramePushPromise <;>
            simp +decide [he, hcc, hev, hpi, hpp] at hr <;>
            simp +decide [CL, rlFrame, contCheck, he, hcc, hh, h0, hev, hpi, hpp, rlStop, writeGoAway, R.emit]
      · have hne : (s.expectCont != 0) = true := by simpa using he
        simp only [hne, if_true] at hr
        have : (fr.typ != Gen.c_FrameContinuation || fr.stream != s.expectCont) = true := by
          simp only [Bool.not_and, Bool.or_eq_true, Bool.not_eq_true', bne_iff_ne, ne_eq, beq_eq_false_iff_ne] at hr ⊢
          exact hr
        simp +decide [CL, rlFrame, contCheck, he, this, rlStop, writeGoAway, R.emit]
    rw [CL, hc] at hcl; cases hcl
  · have hr' : rlOf s fr = false := by simpa using hr
    obtain ⟨⟨e, hcc⟩, hnp, hnpp⟩ := contCheck_pass s fr hr'
    by_cases hev : fr.stream % 2 = 0
    · exfalso
      have hrl : rlFrame { s := s } fr = rlStop (writeGoAway { s := { s with expectCont := e } } 0 Gen.c_ProtocolError "invalid stream id") := by
        simp [rlFrame, hcc, h0, hev]
      rw [hrl] at hc
      simp [rlStop, writeGoAway, R.emit] at hc
    · have hrl : rlFrame { s := s } fr = slStreamFrame { s := { s with expectCont := e }, fwd := [fr] } fr := by
        simp [rlFrame, hcc, h0, hev, hnp, hnpp, slFrame, hsl]
      rw [hrl] at hc ⊢
      have hi1 : Inv D H E ({ s := { s with expectCont := e }, fwd := [fr] } : R) := hi.congr rfl rfl rfl rfl rfl rfl rfl
      exact bystander_sl hi1 (hI.ec e) fr hc b hb

end

/-- **Bystanders in every reachable state before the first GOAWAY** -/
theorem reachable_bystander (cfg : Cfg) (evs : List Event) (ib : Bytes) (fr : Frame) (h0 : fr.stream ≠ 0)
    (hsl : (run cfg evs).1.slStopped = false) (hc0 : (run cfg evs).1.closing = false)
    (hc : (rlFrame { s := { (run cfg evs).1 with inbuf := ib } } fr).s.closing = false) (b : Nat) (hb : b ≠ fr.stream) :
    envReach (absPos { (run cfg evs).1 with inbuf := ib } b)
      (absPos (rlFrame { s := { (run cfg evs).1 with inbuf := ib } } fr).s b) = true := by
  have hi := run_invS cfg evs
  have hi' : Inv _ _ _ ({ s := { (run cfg evs).1 with inbuf := ib } } : R) := Inv.congr hi rfl rfl rfl rfl rfl rfl rfl
  exact bystander_frame { (run cfg evs).1 with inbuf := ib } fr hi' (reachable_sinv' cfg evs ib hc0) h0 hsl hc b hb

end H2.Server.Lock.Refine
