import H2.Proofs.StreamSMRefine.Run
set_option linter.unusedSimpArgs false
/-!
# C08 refinement — run level, part 2: while no GOAWAY has been written, no stream of the table is idle or closed and no
table id is in `resetByUs`

`BX X r`: the statement for the streams whose uid is not in `X` (the stream objects a function is working on). `key`: what
the statement reads of a stream (uid, id, state); most functions of the model leave the list of keys alone (`…_kl`).
-/
namespace H2.Server.Lock.Refine
open H2.Frame (Frame Body)
open H2.Server

def key (st : Strm) : Nat × Nat × StState := (st.uid, st.id, st.state)
def KL (r : R) : List (Nat × Nat × StState) := r.s.strms.map key

def GoodK (rb : List Nat) (k : Nat × Nat × StState) : Prop := k.2.2 ≠ .idle ∧ k.2.2 ≠ .closed ∧ rb.contains k.2.1 = false

/-- while no GOAWAY has been written: every table stream outside `X` is neither idle nor closed, and its id is not in `resetByUs` -/
def BX (X : List Nat) (r : R) : Prop := r.s.closing = false → ∀ k ∈ KL r, k.1 ∉ X → GoodK r.s.resetByUs k

section
variable {r r' : R} {X Y : List Nat}

theorem BX.closed (h : r.s.closing = true) : BX X r := fun hc => by rw [h] at hc; cases hc

/-- fewer streams, fewer remembered resets, GOAWAY at most added -/
theorem BX.weak (h : BX X r) (hc : r'.s.closing = false → r.s.closing = false)
    (hs : ∀ k ∈ KL r', k.1 ∉ Y → k ∈ KL r ∧ k.1 ∉ X)
    (hr : ∀ k ∈ KL r', k.1 ∉ Y → r'.s.resetByUs.contains k.2.1 = true → r.s.resetByUs.contains k.2.1 = true) : BX Y r' := by
  intro hc' k hk hx
  obtain ⟨h1, h2⟩ := hs k hk hx
  obtain ⟨g1, g2, g3⟩ := h (hc hc') k h1 h2
  refine ⟨g1, g2, ?_⟩
  cases hh : r'.s.resetByUs.contains k.2.1
  · rfl
  · rw [hr k hk hx hh] at g3; cases g3

theorem BX.congr (h : BX X r) (e1 : KL r' = KL r) (e2 : r'.s.resetByUs = r.s.resetByUs) (e3 : r'.s.closing = r.s.closing) : BX X r' :=
  h.weak (by rw [e3]; exact id) (by rw [e1]; exact fun k hk hx => ⟨hk, hx⟩) (by rw [e2]; exact fun _ _ _ h => h)

theorem BX.mono (h : BX X r) (hxy : ∀ x, x ∈ X → x ∈ Y) : BX Y r :=
  h.weak id (fun k hk hy => ⟨hk, fun hx => hy (hxy _ hx)⟩) (fun _ _ _ h => h)

/-- an update of a stream object in `X` that keeps its uid -/
theorem BX.updX (h : BX X r) (u : Nat) (hu : u ∈ X) (f : Strm → Strm) (hf : ∀ x, x.uid = u → (f x).uid = u) : BX X (r.updStrm u f) := by
  refine h.weak id ?_ (fun _ _ _ h => h)
  intro k hk hx
  simp only [KL, R.updStrm, List.map_map, List.mem_map, Function.comp] at hk
  obtain ⟨x, hxm, rfl⟩ := hk
  by_cases hxu : x.uid = u
  · simp only [hxu, beq_self_eq_true, if_true, key] at hx
    rw [hf x hxu] at hx; exact absurd hu hx
  · have : (x.uid == u) = false := by simpa using hxu
    simp only [this, Bool.false_eq_true, if_false] at hx ⊢
    exact ⟨List.mem_map_of_mem hxm, hx⟩

/-- an update that keeps every key -/
theorem kl_upd (r : R) (u : Nat) (f : Strm → Strm) (hf : ∀ x, key (f x) = key x) : KL (r.updStrm u f) = KL r := by
  simp only [KL, R.updStrm, List.map_map]
  apply List.map_congr_left
  intro x _
  simp only [Function.comp]
  split <;> simp [hf]

/-- all stream objects with uid `u` have one key (a consequence of "one object per uid") -/
def C1 (u : Nat) (r : R) : Prop := ∀ k ∈ KL r, ∀ k' ∈ KL r, k.1 = u → k'.1 = u → k = k'

theorem C1.of_nodup (hn : (r.s.strms.map (·.uid)).Nodup) (u : Nat) : C1 u r := by
  intro k hk k' hk' e1 e2
  simp only [KL, List.mem_map] at hk hk'
  obtain ⟨x, hx, rfl⟩ := hk
  obtain ⟨y, hy, rfl⟩ := hk'
  have : x = y := nodup_map_inj (·.uid) _ hn x y hx hy (by simp only [key] at e1 e2; rw [e1, e2])
  rw [this]

theorem kl_updc (hg : r.getStrm u = some st) (hc : C1 u r) (st' : Strm) (hk : key st' = key st) :
    KL (r.updStrm u fun _ => st') = KL r := by
  have hm : st ∈ r.s.strms := List.mem_of_find?_eq_some hg
  have hu : st.uid = u := by simpa using List.find?_some hg
  simp only [KL, R.updStrm, List.map_map]
  apply List.map_congr_left
  intro x hx
  simp only [Function.comp]
  split
  · rename_i hxu
    have hxu' : x.uid = u := by simpa using hxu
    rw [hk]
    exact (hc (key x) (List.mem_map_of_mem hx) (key st) (List.mem_map_of_mem hm) hxu' hu).symm
  · rfl

/-! ## `sendData`: keys and GOAWAY untouched; `resetByUs` gains at most the stream's own id, and only when the response is over -/

theorem addKnown_mem (kn : List Nat) (sid y : Nat) (h : (if kn.contains sid then kn else kn ++ [sid]).contains y = true) :
    kn.contains y = true ∨ y = sid := by
  cases hc : kn.contains sid
  · rw [hc] at h
    simp only [Bool.false_eq_true, if_false, List.contains_eq_mem, List.mem_append, List.mem_singleton, decide_eq_true_eq] at h
    rcases h with h | h
    · exact Or.inl (by simpa using h)
    · exact Or.inr h
  · rw [hc] at h; exact Or.inl h

theorem writeReset_rb (r : R) (sid code y : Nat) (h : (writeReset r sid code).s.resetByUs.contains y = true) :
    r.s.resetByUs.contains y = true ∨ y = sid := by
  unfold writeReset R.emit at h
  dsimp only at h
  rcases addKnown_mem _ _ _ h with h | h
  · left
    split at h
    · simp at h
    · exact h
  · exact Or.inr h

theorem refill_spec (hg : r.getStrm u = some st) (hc : C1 u r) :
    KL (refill r u st).1 = KL r ∧ (refill r u st).1.s.closing = r.s.closing ∧
    (∀ y, (refill r u st).1.s.resetByUs.contains y = true →
      r.s.resetByUs.contains y = true ∨ ((refill r u st).2.2 = true ∧ y = st.id)) := by
  simp only [refill]
  repeat' split
  all_goals first
    | exact ⟨rfl, rfl, fun y h => Or.inl h⟩
    | (refine ⟨kl_updc hg hc _ rfl, rfl, fun y h => ?_⟩
       first
        | exact Or.inl h
        | (rcases writeReset_rb _ _ _ _ h with h | h
           · exact Or.inl h
           · exact Or.inr ⟨rfl, h⟩))

theorem closeBody_kl (r : R) (u : Nat) : KL (closeBody r u) = KL r := kl_upd r u _ fun _ => rfl
theorem sendFrame_kl (r : R) (u : Nat) (st : Strm) (n : Nat) : KL (sendFrame r u st n).1 = KL r := by
  simp only [sendFrame]
  exact kl_upd (r.emit _) u _ fun _ => rfl

theorem C1.congr (h : C1 u r) (e : KL r' = KL r) : C1 u r' := by unfold C1; rw [e]; exact h

/-- the three facts about one run of `sendData` -/
def SDspec (r r' : R) (u : Nat) (fin : Bool) : Prop :=
  KL r' = KL r ∧ r'.s.closing = r.s.closing ∧
  ∀ y, r'.s.resetByUs.contains y = true → r.s.resetByUs.contains y = true ∨ (fin = true ∧ ∃ k ∈ KL r, k.1 = u ∧ k.2.1 = y)

theorem sendDataFuel_spec (fuel : Nat) (u : Nat) (hc : C1 u r) :
    SDspec r (sendDataFuel fuel r u).1 u (sendDataFuel fuel r u).2 := by
  induction fuel generalizing r with
  | zero => exact ⟨rfl, rfl, fun y h => Or.inl h⟩
  | succ n ih =>
    rw [sendDataFuel_succ]
    split
    · exact ⟨rfl, rfl, fun y h => Or.inl h⟩
    · rename_i st0 hg
      obtain ⟨a1, a2, a3⟩ := refill_spec hg hc
      have hm : key st0 ∈ KL r := List.mem_map_of_mem (List.mem_of_find?_eq_some hg)
      have hu : st0.uid = u := by simpa using List.find?_some hg
      have a3' : ∀ y, (refill r u st0).1.s.resetByUs.contains y = true →
          r.s.resetByUs.contains y = true ∨ ((refill r u st0).2.2 = true ∧ ∃ k ∈ KL r, k.1 = u ∧ k.2.1 = y) := by
        intro y hy
        rcases a3 y hy with h | ⟨h1, h2⟩
        · exact Or.inl h
        · exact Or.inr ⟨h1, key st0, hm, hu, h2.symm⟩
      split
      · rename_i hfin
        exact ⟨(closeBody_kl _ _).trans a1, a2, fun y hy => by
          rcases a3' y hy with h | ⟨_, h⟩
          · exact Or.inl h
          · exact Or.inr ⟨rfl, h⟩⟩
      · rename_i hfin
        have hfin' : (refill r u st0).2.2 = false := by simpa using hfin
        have a3'' : ∀ y, (refill r u st0).1.s.resetByUs.contains y = true → r.s.resetByUs.contains y = true := by
          intro y hy
          rcases a3' y hy with h | ⟨h, _⟩
          · exact h
          · rw [hfin'] at h; cases h
        split
        · exact ⟨a1, a2, fun y hy => Or.inl (a3'' y hy)⟩
        · split
          · exact ⟨(closeBody_kl _ _).trans ((sendFrame_kl _ _ _ _).trans a1), a2, fun y hy => Or.inl (a3'' y hy)⟩
          · obtain ⟨b1, b2, b3⟩ := ih (r := (sendFrame (refill r u st0).1 u (refill r u st0).2.1 _).1)
              (hc.congr ((sendFrame_kl _ _ _ _).trans a1))
            refine ⟨b1.trans ((sendFrame_kl _ _ _ _).trans a1), b2.trans a2, fun y hy => ?_⟩
            rcases b3 y hy with h | ⟨h1, k, hk, h2⟩
            · exact Or.inl (a3'' y h)
            · exact Or.inr ⟨h1, k, by rw [← a1, ← sendFrame_kl]; exact hk, h2⟩

theorem sendData_spec (u : Nat) (hc : C1 u r) : SDspec r (sendData r u).1 u (sendData r u).2 := by
  simp only [sendData]
  split
  · exact ⟨rfl, rfl, fun y h => Or.inl h⟩
  · exact sendDataFuel_spec _ _ hc

theorem fieldLoop_srvc (fuel : Nat) (s : Srv) (st : Strm) (bs eh : Bool) (fp : Nat) (b : Bytes) :
    (fieldLoop fuel s st bs eh fp b).1.closing = s.closing := by
  induction fuel generalizing s st fp b with
  | zero => rfl
  | succ n ih =>
    cases b with
    | nil => rfl
    | cons c cs =>
      simp only [fieldLoop]
      cases hd : Hpack.Dec.next s.dec bs fp (c :: cs) with
      | needMore => simp only; (repeat' split) <;> rfl
      | err => rfl
      | ok dec fo rest =>
        cases fo with
        | none => rfl
        | some f =>
          simp only [fieldStep]
          split
          · rfl
          · exact ih _ _ _ _

/-! ## what the other functions do to keys / `resetByUs` / `closing` -/

/-- keys, remembered resets and the GOAWAY flag are the same -/
def Same (r r' : R) : Prop := KL r' = KL r ∧ r'.s.resetByUs = r.s.resetByUs ∧ r'.s.closing = r.s.closing

theorem Same.rfl' : Same r r := ⟨rfl, rfl, rfl⟩
theorem Same.trans {r1 r2 r3 : R} (a : Same r1 r2) (b : Same r2 r3) : Same r1 r3 :=
  ⟨b.1.trans a.1, b.2.1.trans a.2.1, b.2.2.trans a.2.2⟩

theorem same_upd (r : R) (u : Nat) (f : Strm → Strm) (hf : ∀ x, key (f x) = key x) : Same r (r.updStrm u f) :=
  ⟨kl_upd r u f hf, rfl, rfl⟩
theorem same_updc (hg : r.getStrm u = some st) (hc : C1 u r) (st' : Strm) (hk : key st' = key st) :
    Same r (r.updStrm u fun _ => st') := ⟨kl_updc hg hc st' hk, rfl, rfl⟩

theorem same_ccw (r : R) (n : Nat) : Same r (consumeConnWindow r n) := by
  simp only [consumeConnWindow, R.emit]; (repeat' split) <;> exact ⟨rfl, rfl, rfl⟩
theorem same_crw (r : R) (x : Strm) (fr : Frame) (n : Nat) : Same r (consumeRecvWindow r x fr n) := by
  simp only [consumeRecvWindow]
  split
  · exact Same.rfl'
  · split
    · exact (show Same r (r.emit _) from ⟨rfl, rfl, rfl⟩).trans (same_ccw _ _)
    · exact same_ccw _ _

theorem key_hhf (s : Srv) (st : Strm) (fr : Frame) : key (handleHeaderFrame s st fr).2.1 = key st := by
  have := handleHeaderFrame_K s st fr
  simp only [K, Prod.mk.injEq] at this
  simp only [key, this.1, this.2.1, this.2.2.1]

theorem hhf_closing (s : Srv) (st : Strm) (fr : Frame) : (handleHeaderFrame s st fr).1.closing = s.closing := by
  simp only [handleHeaderFrame]
  repeat' split
  all_goals first | rfl | exact (fieldLoop_srvc _ _ _ _ _ _ _)

theorem handleFrame_same (u : Nat) (fr : Frame) (hc : C1 u r) : Same r (handleFrame r u fr).1 := by
  simp only [handleFrame]
  split
  · exact Same.rfl'
  · rename_i st hg
    obtain ⟨t1, _, _, _, t5⟩ := handleHeaderFrame_tbl r.s st fr
    have h0 : Same r ({ r with s := (handleHeaderFrame r.s st fr).1 } : R) :=
      ⟨by simp only [KL, t1], t5, hhf_closing r.s st fr⟩
    have hg0 : ({ r with s := (handleHeaderFrame r.s st fr).1 } : R).getStrm u = some st := by
      simp only [R.getStrm, t1]; exact hg
    have hh : Same r (({ r with s := (handleHeaderFrame r.s st fr).1 } : R).updStrm u fun _ => (handleHeaderFrame r.s st fr).2.1) :=
      h0.trans (same_updc hg0 (hc.congr h0.1) _ (key_hhf r.s st fr))
    repeat' split
    all_goals first
      | exact Same.rfl'
      | exact hh
      | (refine hh.trans (same_upd _ _ _ ?_); intro x; rfl)
      | (refine Same.trans (same_updc hg hc _ ?_) (same_ccw _ _); rfl)
      | (refine Same.trans (Same.trans (same_updc hg hc _ ?_) (same_upd _ _ _ ?_)) (same_crw _ _ _ _)
         · rfl
         · intro x; rfl)
      | (refine same_upd _ _ _ ?_; intro x; rfl)

/-! ## once a GOAWAY has been written `closing` stays set (function by function) -/

def CL (r : R) : Prop := r.s.closing = true

theorem writeGoAway_cl (r : R) (sid code : Nat) (tag : String) : CL (writeGoAway r sid code tag) := by
  simp only [CL, writeGoAway, R.emit]
theorem writeError_cl (u : Nat) (e : SErr) (h : CL r) : CL (writeError r u e) := by
  simp only [writeError]; split
  · exact h
  · cases e
    · simp only [CL, R.updStrm]; exact writeGoAway_cl _ _ _ _
    · exact h
theorem releaseStream_cl (x : Strm) (h : CL r) : CL (releaseStream r x) := by
  simp only [releaseStream]; split <;> exact h
theorem closeStream_closing (r : R) (u : Nat) : (closeStream r u).s.closing = r.s.closing := by
  simp only [closeStream]
  split
  · rfl
  · split
    · rfl
    · simp only [releaseStream]; split <;> rfl
theorem closeStream_cl (u : Nat) (h : CL r) : CL (closeStream r u) := by rw [CL, closeStream_closing]; exact h
theorem refill_closing (r : R) (u : Nat) (st : Strm) : (refill r u st).1.s.closing = r.s.closing := by
  simp only [refill]; (repeat' split) <;> rfl
theorem sendDataFuel_closing (fuel : Nat) (r : R) (u : Nat) : (sendDataFuel fuel r u).1.s.closing = r.s.closing := by
  induction fuel generalizing r with
  | zero => rfl
  | succ n ih =>
    rw [sendDataFuel_succ]
    repeat' split
    all_goals first
      | rfl
      | exact refill_closing _ _ _
      | exact (ih _).trans (refill_closing _ _ _)
theorem sendData_closing (r : R) (u : Nat) : (sendData r u).1.s.closing = r.s.closing := by
  simp only [sendData]; split
  · rfl
  · exact sendDataFuel_closing _ _ _
theorem closeDone_closing (r : R) (u : Nat) : (closeDone r u).s.closing = r.s.closing := by
  simp only [closeDone]; rw [closeStream_closing]; rfl
theorem flushOne_closing (acc : R × List Nat) (u : Nat) : (flushOne acc u).1.s.closing = acc.1.s.closing := by
  simp only [flushOne]; (repeat' split) <;> first | rfl | exact sendData_closing _ _
theorem flushStreams_closing (r : R) : (flushStreams r).s.closing = r.s.closing := by
  simp only [flushStreams]
  have h1 : ∀ (l : List Nat) (acc : R × List Nat), (l.foldl flushOne acc).1.s.closing = acc.1.s.closing := by
    intro l; induction l with
    | nil => intro acc; rfl
    | cons a l ih => intro acc; exact (ih _).trans (flushOne_closing acc a)
  have h2 : ∀ (l : List Nat) (x : R), (l.foldl closeDone x).s.closing = x.s.closing := by
    intro l; induction l with
    | nil => intro x; rfl
    | cons a l ih => intro x; exact (ih _).trans (closeDone_closing x a)
  exact (h2 _ _).trans (h1 _ _)
theorem responseHeaders_closing (r : R) (st : Strm) (resp : Resp) (hb : Bool) : (responseHeaders r st resp hb).s.closing = r.s.closing := by
  simp only [responseHeaders, R.emit]; split <;> rfl
theorem finishRequest_closing (r : R) (u : Nat) (resp : Resp) : (finishRequest r u resp).1.s.closing = r.s.closing := by
  simp only [finishRequest]
  repeat' split
  all_goals first
    | rfl
    | exact responseHeaders_closing _ _ _ _
    | exact (sendData_closing _ _).trans (responseHeaders_closing _ _ _ _)
theorem handleFrame_closing (r : R) (u : Nat) (fr : Frame) : (handleFrame r u fr).1.s.closing = r.s.closing := by
  simp only [handleFrame]
  split
  · rfl
  · repeat' split
    all_goals first
      | rfl
      | exact hhf_closing _ _ _
      | exact (same_ccw _ _).2.2
      | exact (same_crw _ _ _ _).2.2
theorem closeIdleBelow_closing (fuel : Nat) (r : R) (id : Nat) : (closeIdleBelow fuel r id).s.closing = r.s.closing := by
  induction fuel generalizing r with
  | zero => rfl
  | succ n ih =>
    simp only [closeIdleBelow]
    repeat' split
    all_goals first
      | rfl
      | exact (ih _).trans (closeStream_closing _ _)
theorem stopLoop_cl (h : CL r) : CL (stopLoop r) := h
theorem closeIfDone_cl (h : CL r) : CL (closeIfDone r) := by simp only [closeIfDone, stopLoop]; split <;> exact h
theorem unknownStream_cl (fr : Frame) (wc : Bool) (h : CL r) : CL (unknownStream r fr wc).1 := by
  simp only [unknownStream]
  repeat' split
  all_goals first
    | exact h
    | exact (same_ccw _ _).2.2.trans h
    | exact closeIfDone_cl (writeGoAway_cl _ _ _ _)
    | exact stopLoop_cl (writeGoAway_cl _ _ _ _)
    | exact writeGoAway_cl _ _ _ _
theorem headersPrelude_cl (fr : Frame) (h : CL r) : CL (headersPrelude r fr).1 := by
  simp only [headersPrelude]
  repeat' split
  all_goals first
    | exact h
    | exact writeError_cl _ _ h
    | exact (closeIdleBelow_closing _ _ _).trans h
theorem onFrameError_cl (u : Nat) (e : Option SErr) (h : CL r) : CL (onFrameError r u e).1 := by
  simp only [onFrameError]
  repeat' split
  all_goals first | exact h | exact writeError_cl _ _ h
theorem dispatchOrSend_cl (u : Nat) (st : Strm) (h : CL r) : CL (dispatchOrSend r u st) := by
  simp only [dispatchOrSend, dispatch]
  repeat' split
  all_goals first
    | exact h
    | exact (sendData_closing _ _).trans h
theorem closeIfClosed_cl (u : Nat) (h : CL r) : CL (closeIfClosed r u) := by
  simp only [closeIfClosed]; (repeat' split) <;> first | exact h | exact closeStream_cl _ h
theorem knownStream_cl (u : Nat) (fr : Frame) (wc : Bool) (h : CL r) : CL (knownStream r u fr wc) := by
  simp only [knownStream]
  have h1 := headersPrelude_cl fr h
  split
  · exact h1
  · have hf : CL (handleFrame (headersPrelude r fr).1 u fr).1 := (handleFrame_closing _ _ _).trans h1
    have h2 := onFrameError_cl u (handleFrame (headersPrelude r fr).1 u fr).2 hf
    split
    · exact h2
    · have h3 : CL ((onFrameError (handleFrame (headersPrelude r fr).1 u fr).1 u (handleFrame (headersPrelude r fr).1 u fr).2).1.updStrm u (handleState fr)) := h2
      split
      · exact h3
      · have h4 := closeIfClosed_cl u (dispatchOrSend_cl u ‹Strm› h3)
        split <;> exact h4
theorem slStreamFrame_cl (fr : Frame) (h : CL r) : CL (slStreamFrame r fr) := by
  simp only [slStreamFrame]
  repeat' split
  all_goals first
    | exact knownStream_cl _ _ _ h
    | exact unknownStream_cl _ _ h
    | exact knownStream_cl _ _ _ (unknownStream_cl _ _ h)

/-! ## the effect of the tail of `knownStream` on the stream object `u` (id `sid`) and on the others -/

theorem mem_kl_upd {k' : Nat × Nat × StState} {u : Nat} {f : Strm → Strm} (h : k' ∈ KL (r.updStrm u f)) :
    ∃ x ∈ r.s.strms, (x.uid ≠ u ∧ k' = key x) ∨ (x.uid = u ∧ k' = key (f x)) := by
  simp only [KL, R.updStrm, List.map_map, List.mem_map, Function.comp] at h
  obtain ⟨x, hx, rfl⟩ := h
  refine ⟨x, hx, ?_⟩
  by_cases hxu : x.uid = u
  · right; simp [hxu]
  · left; simp [hxu]

/-- `r'` is `r` with: GOAWAY flag unchanged; the other streams' keys unchanged (some may be gone); the object `u` keeps its
uid and id, its state is what it was or `closed`; `resetByUs` has gained at most `sid`, and that only if `u` is now closed -/
def Eff (u sid : Nat) (r r' : R) : Prop :=
  r'.s.closing = r.s.closing ∧
  (∀ k' ∈ KL r', k'.1 ≠ u → k' ∈ KL r) ∧
  (∀ k' ∈ KL r', k'.1 = u → ∃ k ∈ KL r, k.1 = u ∧ k'.2.1 = k.2.1 ∧ (k'.2.2 = .closed ∨ k'.2.2 = k.2.2)) ∧
  (∀ y, r'.s.resetByUs.contains y = true → r.s.resetByUs.contains y = true ∨ (y = sid ∧ ∀ k' ∈ KL r', k'.1 = u → k'.2.2 = .closed))

theorem Eff.refl (u sid : Nat) (r : R) : Eff u sid r r :=
  ⟨rfl, fun k h _ => h, fun k h e => ⟨k, h, e, rfl, Or.inr rfl⟩, fun y h => Or.inl h⟩

theorem Eff.trans {u sid : Nat} {r1 r2 r3 : R} (a : Eff u sid r1 r2) (b : Eff u sid r2 r3) : Eff u sid r1 r3 := by
  obtain ⟨a1, a2, a3, a4⟩ := a
  obtain ⟨b1, b2, b3, b4⟩ := b
  refine ⟨b1.trans a1, fun k h e => a2 k (b2 k h e) e, ?_, ?_⟩
  · intro k3 h3 e3
    obtain ⟨k2, h2, e2, i2, s2⟩ := b3 k3 h3 e3
    obtain ⟨k1, h1, e1, i1, s1⟩ := a3 k2 h2 e2
    refine ⟨k1, h1, e1, i2.trans i1, ?_⟩
    rcases s2 with s2 | s2
    · exact Or.inl s2
    · rcases s1 with s1 | s1
      · exact Or.inl (s2.trans s1)
      · exact Or.inr (s2.trans s1)
  · intro y hy
    rcases b4 y hy with h | h
    · rcases a4 y h with h' | ⟨h1, h2⟩
      · exact Or.inl h'
      · refine Or.inr ⟨h1, fun k3 h3 e3 => ?_⟩
        obtain ⟨k2, hk2, e2, _, s2⟩ := b3 k3 h3 e3
        rcases s2 with s2 | s2
        · exact s2
        · exact s2.trans (h2 k2 hk2 e2)
    · exact Or.inr h

theorem Eff.of_same {u sid : Nat} (h : Same r r') : Eff u sid r r' := by
  obtain ⟨h1, h2, h3⟩ := h
  refine ⟨h3, fun k hk _ => h1 ▸ hk, fun k hk e => ⟨k, h1 ▸ hk, e, rfl, Or.inr rfl⟩, fun y hy => Or.inl (h2 ▸ hy)⟩

/-- marking the object closed -/
theorem eff_close (u sid : Nat) (r : R) : Eff u sid r (r.updStrm u fun s => { s with state := .closed }) := by
  refine ⟨rfl, ?_, ?_, fun y h => Or.inl h⟩
  · intro k hk hu
    obtain ⟨x, hx, ⟨h1, rfl⟩ | ⟨h1, rfl⟩⟩ := mem_kl_upd hk
    · exact List.mem_map_of_mem hx
    · exact absurd h1 hu
  · intro k hk hu
    obtain ⟨x, hx, ⟨h1, rfl⟩ | ⟨h1, rfl⟩⟩ := mem_kl_upd hk
    · exact absurd hu h1
    · exact ⟨key x, List.mem_map_of_mem hx, h1, rfl, Or.inl rfl⟩

/-- RST_STREAM on the object's own id, the object marked closed -/
theorem eff_reset_close (u sid code : Nat) (r : R) :
    Eff u sid r ((writeReset r sid code).updStrm u fun s => { s with state := .closed }) := by
  obtain ⟨e1, e2, e3, _⟩ := eff_close u sid (writeReset r sid code)
  refine ⟨e1, e2, e3, fun y hy => ?_⟩
  rcases writeReset_rb r sid code y hy with h | h
  · exact Or.inl h
  · refine Or.inr ⟨h, fun k hk hu => ?_⟩
    obtain ⟨x, hx, ⟨h1, rfl⟩ | ⟨h1, rfl⟩⟩ := mem_kl_upd hk
    · exact absurd hu h1
    · rfl

theorem C1.key_of (hc : C1 u r) (hg : r.getStrm u = some st) : ∀ k ∈ KL r, k.1 = u → k = key st := by
  intro k hk hu
  have hm : key st ∈ KL r := List.mem_map_of_mem (List.mem_of_find?_eq_some hg)
  have hsu : st.uid = u := by simpa using List.find?_some hg
  exact hc k hk (key st) hm hu hsu

/-- `sendData`, and the object marked closed if the response is over -/
theorem eff_sendData (hg : r.getStrm u = some st) (hc : C1 u r) :
    Eff u st.id r (if (sendData r u).2 then (sendData r u).1.updStrm u fun s => { s with state := .closed } else (sendData r u).1) := by
  obtain ⟨s1, s2, s3⟩ := sendData_spec u hc
  have hs : Same r { (sendData r u).1 with s := { (sendData r u).1.s with resetByUs := r.s.resetByUs } } := ⟨s1, rfl, s2⟩
  cases hfin : (sendData r u).2
  · simp only [Bool.false_eq_true, if_false]
    refine ⟨s2, fun k hk _ => s1 ▸ hk, fun k hk e => ⟨k, s1 ▸ hk, e, rfl, Or.inr rfl⟩, fun y hy => ?_⟩
    rcases s3 y hy with h | ⟨h, _⟩
    · exact Or.inl h
    · rw [hfin] at h; cases h
  · simp only [if_true]
    obtain ⟨e1, e2, e3, _⟩ := eff_close u st.id (sendData r u).1
    refine ⟨e1.trans s2, fun k hk hu => s1 ▸ e2 k hk hu, ?_, ?_⟩
    · intro k hk hu
      obtain ⟨k0, h0, a, b, c⟩ := e3 k hk hu
      exact ⟨k0, s1 ▸ h0, a, b, c⟩
    · intro y hy
      rcases s3 y hy with h | ⟨_, k, hk, hu, hy'⟩
      · exact Or.inl h
      · refine Or.inr ⟨?_, fun k' hk' hu' => ?_⟩
        · rw [← hy', hc.key_of hg k hk hu]; rfl
        · obtain ⟨x, hx, ⟨h1, rfl⟩ | ⟨h1, rfl⟩⟩ := mem_kl_upd hk'
          · exact absurd hu' h1
          · rfl

theorem dispatchOrSend_eff (hg : r.getStrm u = some st) (hc : C1 u r) : Eff u st.id r (dispatchOrSend r u st) := by
  simp only [dispatchOrSend]
  split
  · have h1 : Same r (r.updStrm u fun s => { s with responded := true }) := same_upd _ _ _ fun _ => rfl
    split
    · exact (Eff.of_same h1).trans (eff_reset_close u st.id _ _)
    · refine Eff.of_same (h1.trans ?_)
      simp only [dispatch]
      have h2 : Same (r.updStrm u fun s => { s with responded := true })
          ((r.updStrm u fun s => { s with responded := true }).updStrm u fun s => { s with handlerRunning := true }) :=
        same_upd _ _ _ fun _ => rfl
      exact ⟨h2.1, h2.2.1, h2.2.2⟩
  · split
    · exact eff_sendData hg hc
    · exact Eff.refl _ _ _

theorem closeStream_eff {D H E : List Nat} (hi : Inv D H E r) (hg : r.getStrm u = some st) :
    (∀ k ∈ KL (closeStream r u), k ∈ KL r ∧ k.1 ≠ u) ∧ (closeStream r u).s.resetByUs = r.s.resetByUs ∧
    (closeStream r u).s.closing = r.s.closing := by
  obtain ⟨e1, _, e3, _⟩ := closeStream_tb hg
  obtain ⟨hm, hu, huq, _⟩ := hi.the hg
  refine ⟨?_, e3, closeStream_closing r u⟩
  intro k hk
  simp only [KL, e1, List.mem_map] at hk
  obtain ⟨x, hx, rfl⟩ := hk
  obtain ⟨hx1, hx2⟩ := (delFirst_spec r.s.strms st hm hi.idNodup).2 x hx
  refine ⟨List.mem_map_of_mem hx1, fun hxu => ?_⟩
  have : x = st := huq x hx1 hxu
  exact hx2 (by rw [this])

theorem getStrm_none_key (hg : r.getStrm u = none) : ∀ k ∈ KL r, k.1 ≠ u := by
  intro k hk hu
  simp only [KL, List.mem_map] at hk
  obtain ⟨x, hx, rfl⟩ := hk
  have := List.find?_eq_none.mp hg x hx
  simp only [key] at hu
  simp [hu] at this

/-- **closing the object if it is closed**: afterwards every stream of the table is good -/
theorem closeIfClosed_bx {D H E : List Nat} {r3 r4 : R} {u sid : Nat} (hi4 : Inv D H E r4) (E : Eff u sid r3 r4)
    (hoth : r3.s.closing = false → ∀ k ∈ KL r3, k.1 ≠ u → GoodK r3.s.resetByUs k)
    (hfoc : r3.s.closing = false → ∀ k ∈ KL r3, k.1 = u →
      k.2.1 = sid ∧ (k.2.2 = .closed ∨ (k.2.2 ≠ .idle ∧ r3.s.resetByUs.contains sid = false)))
    (hnd : ∀ k ∈ KL r3, k.2.1 = sid → k.1 = u) : BX [] (closeIfClosed r4 u) := by
  obtain ⟨E1, E2, E3, E4⟩ := E
  -- the other streams of `r4` are good whatever `resetByUs` has gained
  have others : r4.s.closing = false → ∀ k ∈ KL r4, k.1 ≠ u → GoodK r4.s.resetByUs k := by
    intro hc k hk hu
    have hc3 : r3.s.closing = false := E1 ▸ hc
    have hk3 := E2 k hk hu
    obtain ⟨g1, g2, g3⟩ := hoth hc3 k hk3 hu
    refine ⟨g1, g2, ?_⟩
    cases hh : r4.s.resetByUs.contains k.2.1
    · rfl
    · rcases E4 _ hh with h | ⟨h, _⟩
      · rw [h] at g3; cases g3
      · exact absurd (hnd k hk3 h) hu
  simp only [closeIfClosed]
  split
  · rename_i st4 hg4
    split
    · -- closed: it leaves the table
      obtain ⟨c1, c2, c3⟩ := closeStream_eff hi4 hg4
      intro hc k hk _
      obtain ⟨hk4, hu⟩ := c1 k hk
      rw [c2]
      exact others (c3 ▸ hc) k hk4 hu
    · -- not closed: it is good itself
      rename_i hnc
      intro hc k hk _
      by_cases hu : k.1 = u
      · have hc3 : r3.s.closing = false := E1 ▸ hc
        have hkey := (C1.of_nodup hi4.uidNodup u).key_of hg4 k hk hu
        have hst : k.2.2 ≠ .closed := by rw [hkey]; simpa [key] using hnc
        obtain ⟨k0, hk0, hu0, hid0, hs0⟩ := E3 k hk hu
        obtain ⟨f1, f2⟩ := hfoc hc3 k0 hk0 hu0
        have hs0' : k.2.2 = k0.2.2 := by rcases hs0 with h | h; exact absurd h hst; exact h
        rcases f2 with f2 | ⟨f2, f3⟩
        · exact absurd (hs0'.trans f2) hst
        · refine ⟨by rw [hs0']; exact f2, hst, ?_⟩
          rw [hid0, f1]
          cases hh : r4.s.resetByUs.contains sid
          · rfl
          · rcases E4 _ hh with h | ⟨_, h⟩
            · rw [h] at f3; cases f3
            · exact absurd (h k hk hu) hst
      · exact others hc k hk hu
  · rename_i hg4
    intro hc k hk _
    exact others hc k hk (getStrm_none_key hg4 k hk)

theorem handleState_ni (fr : Frame) (x : Strm) (h : x.state ≠ .idle ∨ fr.typ = Gen.c_FrameHeaders) :
    (handleState fr x).state ≠ .idle := by
  simp only [handleState]
  cases hs : x.state <;> rcases h with h | h <;> simp_all +decide <;> (repeat' split) <;> simp_all

/-- **the rest of `knownStream` after `handleFrame` / `onFrameError`**: every stream of the table is good afterwards -/
theorem tail_bx {D H E : List Nat} (hi : Inv D H E r) (hg : r.getStrm u = some st) (fr : Frame) (wc : Bool)
    (hoth : r.s.closing = false → ∀ k ∈ KL r, k.1 ≠ u → GoodK r.s.resetByUs k)
    (hfoc : r.s.closing = false → st.state = .closed ∨
      (r.s.resetByUs.contains st.id = false ∧ (st.state = .idle → fr.typ = Gen.c_FrameHeaders))) :
    BX [] (tail r u fr wc) := by
  obtain ⟨hm, hu, huq, hiq⟩ := hi.the hg
  obtain ⟨k1, k2, _⟩ := handleState_keys fr st
  have hi3 : Inv D H E (r.updStrm u (handleState fr)) := upd_inv u (handleState fr) (handleState_sk fr) hi
  have hg3 : (r.updStrm u (handleState fr)).getStrm u = some (handleState fr st) :=
    getStrm_upd r u (handleState fr) st (fun x hx => by rw [(handleState_keys fr x).1]; exact hx) hg
  have E := dispatchOrSend_eff hg3 (C1.of_nodup hi3.uidNodup u)
  have hi4 := dispatchOrSend_inv u (handleState fr st) hg3 hi3
  have hx : BX [] (closeIfClosed (dispatchOrSend (r.updStrm u (handleState fr)) u (handleState fr st)) u) := by
    refine closeIfClosed_bx hi4 E ?_ ?_ ?_
    · intro hc k hk hku
      obtain ⟨x, hx, ⟨h1, rfl⟩ | ⟨h1, rfl⟩⟩ := mem_kl_upd hk
      · exact hoth hc _ (List.mem_map_of_mem hx) hku
      · exact absurd (by simp only [key, (handleState_keys fr x).1]; exact h1) hku
    · intro hc k hk hku
      obtain ⟨x, hx, ⟨h1, rfl⟩ | ⟨h1, rfl⟩⟩ := mem_kl_upd hk
      · exact absurd hku h1
      · have hxs : x = st := huq x hx h1
        subst hxs
        refine ⟨by simp only [key, k2], ?_⟩
        rcases hfoc hc with h | ⟨h1', h2'⟩
        · exact Or.inl (by simp only [key]; exact handleState_closed fr x h)
        · refine Or.inr ⟨?_, by rw [k2]; exact h1'⟩
          simp only [key]
          exact handleState_ni fr x (by by_cases hs : x.state = .idle; exact Or.inr (h2' hs); exact Or.inl hs)
    · intro k hk hid
      obtain ⟨x, hx, ⟨h1, rfl⟩ | ⟨h1, rfl⟩⟩ := mem_kl_upd hk
      · simp only [key, k2] at hid
        have := hiq x hx hid
        exact absurd (this ▸ hu) h1
      · simp only [key, (handleState_keys fr x).1]; exact h1
  have ht : tail r u fr wc = (if wc && canCloseAfterGoAway (closeIfClosed (dispatchOrSend (r.updStrm u (handleState fr)) u (handleState fr st)) u).s
      then stopLoop (closeIfClosed (dispatchOrSend (r.updStrm u (handleState fr)) u (handleState fr st)) u)
      else closeIfClosed (dispatchOrSend (r.updStrm u (handleState fr)) u (handleState fr st)) u) := by
    simp only [tail, hg3]
  rw [ht]
  split
  · exact hx.congr rfl rfl rfl
  · exact hx

theorem tail_cl (u : Nat) (fr : Frame) (wc : Bool) (h : CL r) : CL (tail r u fr wc) := by
  simp only [tail]
  have h3 : CL (r.updStrm u (handleState fr)) := h
  split
  · exact h3
  · have h4 := closeIfClosed_cl u (dispatchOrSend_cl u ‹Strm› h3)
    split <;> exact h4

theorem getStrm_of_key (hk : ∃ k ∈ KL r, k.1 = u) : ∃ st, r.getStrm u = some st := by
  cases hg : r.getStrm u with
  | some st => exact ⟨st, rfl⟩
  | none =>
    obtain ⟨k, hk, hu⟩ := hk
    exact absurd hu (getStrm_none_key hg k hk)

/-- **`knownStream`**: if every other stream of the table is good and the stream the frame is for is not closed, not in
`resetByUs`, and idle only when the frame is HEADERS, then afterwards every stream of the table is good -/
theorem knownStream_bx {D H E : List Nat} (hi : Inv D H E r) (hg : r.getStrm u = some st) (fr : Frame) (hid : st.id = fr.stream) (wc : Bool)
    (hoth : r.s.closing = false → ∀ k ∈ KL r, k.1 ≠ u → GoodK r.s.resetByUs k)
    (hfoc : r.s.closing = false → r.s.resetByUs.contains st.id = false ∧ st.state ≠ .closed ∧
      (st.state = .idle → fr.typ = Gen.c_FrameHeaders)) : BX [] (knownStream r u fr wc) := by
  by_cases hc : r.s.closing = true
  · exact BX.closed (knownStream_cl u fr wc hc)
  have hc' : r.s.closing = false := by simpa using hc
  obtain ⟨hm, hu, huq, hiq⟩ := hi.the hg
  obtain ⟨f1, f2, f3⟩ := hfoc hc'
  by_cases hpu : (fr.typ == Gen.c_FrameHeaders && prevUnf r.s.strms) = true
  · -- HEADERS while the previous block is open: GOAWAY
    simp only [Bool.and_eq_true, beq_iff_eq, prevUnf] at hpu
    obtain ⟨ht, hp⟩ := hpu
    split at hp
    · rename_i n hn
      have hnm := getPrevious_mem _ _ hn
      have hf : n.headersFinished = false := by simpa using hp
      have hk : knownStream r u fr wc = writeError r n.uid (.goAway Gen.c_ProtocolError "previous stream headers not ended") := by
        simp [knownStream, headersPrelude, ht, hn, hf]
      obtain ⟨st2, hg2⟩ := getStrm_of_key (r := r) (u := n.uid) ⟨key n, List.mem_map_of_mem hnm, rfl⟩
      rw [hk, writeError_of hg2]
      exact BX.closed (by simp only [R.updStrm]; exact writeGoAway_cl _ _ _ _)
    · cases hp
  have hpu' : (fr.typ == Gen.c_FrameHeaders && prevUnf r.s.strms) = false := by simpa using hpu
  have hni : ∀ x ∈ r.s.strms, x.state = .idle → ¬ x.id < fr.stream := by
    intro x hx hxi
    by_cases hxu : x.uid = u
    · rw [huq x hx hxu, hid]; exact Nat.lt_irrefl _
    · exact absurd hxi (hoth hc' (key x) (List.mem_map_of_mem hx) hxu).1
  have hpre := prelude_pass r fr hni hpu'
  have hk : knownStream r u fr wc =
      (if (onFrameError (handleFrame r u fr).1 u (handleFrame r u fr).2).2 then
        stopLoop (onFrameError (handleFrame r u fr).1 u (handleFrame r u fr).2).1
       else tail (onFrameError (handleFrame r u fr).1 u (handleFrame r u fr).2).1 u fr wc) := by
    simp only [knownStream, hpre, tail]; rfl
  have hc1 := C1.of_nodup hi.uidNodup u
  obtain ⟨s1, s2, s3⟩ := handleFrame_same u fr hc1 (r := r)
  have hi1 : Inv D H E (handleFrame r u fr).1 := handleFrame_inv u fr hi
  obtain ⟨st1, hg1⟩ := getStrm_of_key (r := (handleFrame r u fr).1) (u := u)
    ⟨key st, by rw [s1]; exact List.mem_map_of_mem hm, hu⟩
  have hkey1 : key st1 = key st := by
    have hm1 : key st1 ∈ KL r := by rw [← s1]; exact List.mem_map_of_mem (List.mem_of_find?_eq_some hg1)
    exact hc1.key_of hg _ hm1 (by have := List.find?_some hg1; simpa [key] using this)
  simp only [key, Prod.mk.injEq] at hkey1
  obtain ⟨_, q2, q3⟩ := hkey1
  have hoth1 : (handleFrame r u fr).1.s.closing = false → ∀ k ∈ KL (handleFrame r u fr).1, k.1 ≠ u →
      GoodK (handleFrame r u fr).1.s.resetByUs k := by rw [s1, s2, s3]; exact hoth
  rw [hk]
  cases he : (handleFrame r u fr).2 with
  | none =>
    simp only [onFrameError, Bool.false_eq_true, if_false]
    exact tail_bx hi1 hg1 fr wc hoth1 (fun _ => Or.inr ⟨by rw [s2, q2]; exact f1, by rw [q3]; exact f3⟩)
  | some e =>
    have hi2 : Inv D H E (onFrameError (handleFrame r u fr).1 u (some e)).1 := onFrameError_inv u _ hi1
    cases e with
    | goAway c t =>
      have hcl : CL (onFrameError (handleFrame r u fr).1 u (some (.goAway c t))).1 := by
        simp only [onFrameError, writeError_of hg1, CL, R.updStrm]; exact writeGoAway_cl _ _ _ _
      split
      · exact BX.closed hcl
      · exact BX.closed (tail_cl u fr wc hcl)
    | reset c =>
      have hg2 : ∃ st2, (onFrameError (handleFrame r u fr).1 u (some (.reset c))).1.getStrm u = some st2 ∧ st2.state = .closed := by
        simp only [onFrameError, writeError_of hg1]
        have g1 := getStrm_upd (writeReset (handleFrame r u fr).1 st1.id c) u (fun s => { s with state := StState.closed }) st1
          (fun _ h => h) (show (writeReset (handleFrame r u fr).1 st1.id c).getStrm u = some st1 from hg1)
        exact ⟨_, getStrm_upd _ u (fun s => { s with state := StState.closed }) _ (fun _ h => h) g1, rfl⟩
      obtain ⟨st2, hg2, hst2⟩ := hg2
      have hot2 : (onFrameError (handleFrame r u fr).1 u (some (.reset c))).1.s.closing = false →
          ∀ k ∈ KL (onFrameError (handleFrame r u fr).1 u (some (.reset c))).1, k.1 ≠ u →
          GoodK (onFrameError (handleFrame r u fr).1 u (some (.reset c))).1.s.resetByUs k := by
        simp only [onFrameError, writeError_of hg1]
        obtain ⟨e1, e2, _, e4⟩ := (eff_reset_close u st1.id c (handleFrame r u fr).1).trans (eff_close u st1.id _)
        intro hcc k hk hku
        have hk1 := e2 k hk hku
        obtain ⟨g1, g2, g3⟩ := hoth1 (e1 ▸ hcc) k hk1 hku
        refine ⟨g1, g2, ?_⟩
        cases hh : (((writeReset (handleFrame r u fr).1 st1.id c).updStrm u fun s => { s with state := .closed }).updStrm u
            fun s => { s with state := .closed }).s.resetByUs.contains k.2.1
        · rfl
        · rcases e4 _ hh with h | ⟨h, _⟩
          · rw [h] at g3; cases g3
          · simp only [KL, List.mem_map] at hk1
            obtain ⟨y, hy, rfl⟩ := hk1
            have := (hi1.the hg1).2.2.2 y hy h
            exact absurd (this ▸ (hi1.the hg1).2.1) hku
      simp only [onFrameError, Bool.false_eq_true, if_false] at hg2 hot2 hi2 ⊢
      exact tail_bx hi2 hg2 fr wc hot2 (fun _ => Or.inl hst2)

end
end H2.Server.Lock.Refine
