import H2.Proofs.StreamSMRefine.Hdr2
set_option linter.unusedSimpArgs false
/-!
# C08 refinement — one frame through the stream loop (`slStreamFrame`), every frame type, with the adapter's own context
-/
namespace H2.Server.Lock.Refine
open H2.Frame (Frame Body)
open H2.Server
open H2.Server.StreamSM (Pos Fr Ctx Reaction Code TSt Cmp Inc Blk BlockOn)

/-- **`handleFrame` on a stream of the table, every frame type**, with the content-length verdict of the adapter's context -/
theorem hf_all {r : R} {u sid : Nat} {st : Strm} (h : TB r u sid st) (fr : Frame) (hwf : FrWF fr) (hres : st.state ≠ .reserved)
    (hs : fr.stream = sid) (hcl : 0 ≤ st.contentLength) :
    HFspec r u sid st fr (absFrame r.s fr) (absCtx r.s sid (some fr)).clMismatch := by
  have hl := h.l
  have hm : ∀ n : Nat, (st.contentLength.toNat != n) = (((n : Nat) : Int) != st.contentLength) := by
    intro n; rw [Bool.eq_iff_iff]; simp only [bne_iff_ne, ne_eq]; omega
  cases hb : fr.body with
  | data es b => exact hf_data h fr hwf hres hs es b hb _ (by simp [absCtx, hl, walkFrame, headerPart, hb, msgSt, clm, hm])
  | headers es eh prio frag =>
    exact hf_headers h fr hwf hres hs hcl es eh prio frag hb _ (by simp [absCtx, hl, hb])
  | priority d w => exact hf_simple h fr hwf hres hs (Or.inr (Or.inl ⟨d, w, hb⟩)) _ (by simp [absCtx, hl, walkFrame, headerPart, hb, msgSt, clm, hm])
  | rstStream c => exact hf_simple h fr hwf hres hs (Or.inl ⟨c, hb⟩) _ (by simp [absCtx, hl, walkFrame, headerPart, hb, msgSt, clm, hm])
  | settings a => exact hf_simple h fr hwf hres hs (Or.inr (Or.inr (Or.inl ⟨a, hb⟩))) _ (by simp [absCtx, hl, walkFrame, headerPart, hb, msgSt, clm, hm])
  | pushPromise a b c => exact hf_simple h fr hwf hres hs (Or.inr (Or.inr (Or.inr (Or.inr (Or.inr ⟨a, b, c, hb⟩))))) _ (by simp [absCtx, hl, walkFrame, headerPart, hb, msgSt, clm, hm])
  | ping a b => exact hf_simple h fr hwf hres hs (Or.inr (Or.inr (Or.inr (Or.inr (Or.inl ⟨a, b, hb⟩))))) _ (by simp [absCtx, hl, walkFrame, headerPart, hb, msgSt, clm, hm])
  | goAway a b c => exact hf_simple h fr hwf hres hs (Or.inr (Or.inr (Or.inr (Or.inl ⟨a, b, c, hb⟩)))) _ (by simp [absCtx, hl, walkFrame, headerPart, hb, msgSt, clm, hm])
  | windowUpdate i => exact hf_wu h fr hwf hres hs i hb _ (by simp [absCtx, hl, walkFrame, headerPart, hb, msgSt, clm, hm])
  | continuation eh frag => exact hf_cont h fr hwf hres hs hcl eh frag hb _ (by simp [absCtx, hl, hb])

/-! ## the previous-block check and the idle-stream sweep of `headersPrelude` -/

theorem closeIdleBelow_noop (fuel : Nat) (r : R) (id : Nat)
    (h : ∀ x ∈ r.s.strms, x.state = .idle → ¬ x.id < id) : closeIdleBelow fuel r id = r := by
  cases fuel with
  | zero => rfl
  | succ n =>
    simp only [closeIdleBelow]
    split
    · rfl
    · rename_i a l hl
      have ha : a ∈ r.s.strms := by rw [hl]; exact List.mem_cons_self ..
      have := h a ha
      by_cases hs : a.state = .idle
      · have := this hs; simp [this]
      · simp [hs]

theorem getPrevious_mem (l : List Strm) (n : Strm) (h : getPrevious l = some n) : n ∈ l := by
  simp only [getPrevious] at h
  split at h
  · rename_i a p t heq
    injection h with h; subst h
    have : p ∈ l.reverse.filter fun st => st.origType == Gen.c_FrameHeaders := by rw [heq]; simp
    exact List.mem_reverse.mp (List.mem_filter.mp this).1
  · cases h

/-- the previous-block test of the adapter's context -/
def prevUnf (l : List Strm) : Bool := match getPrevious l with | some n => !n.headersFinished | none => false

theorem prelude_pass (r : R) (fr : Frame) (hni : ∀ x ∈ r.s.strms, x.state = .idle → ¬ x.id < fr.stream)
    (hpu : (fr.typ == Gen.c_FrameHeaders && prevUnf r.s.strms) = false) : headersPrelude r fr = (r, true) := by
  simp only [headersPrelude]
  split
  · rename_i ht
    simp only [ht, Bool.true_and, prevUnf] at hpu
    split
    · rename_i n hn
      rw [hn] at hpu
      simp only [hpu, Bool.false_eq_true, if_false, closeIdleBelow_noop _ r _ hni]
    · rw [closeIdleBelow_noop _ r _ hni]
  · rfl

/-- HEADERS while the newest-but-one stream's header block is unfinished: GOAWAY(PROTOCOL_ERROR), nothing else -/
theorem prelude_fail (r : R) (u : Nat) (fr : Frame) (wc : Bool) (sid : Nat) (ht : fr.typ = Gen.c_FrameHeaders)
    (hpu : prevUnf r.s.strms = true) (hout : fm (pX sid) r.out = []) :
    rcOf (fm (pX sid) (knownStream r u fr wc).out) = .conn Gen.c_ProtocolError := by
  simp only [prevUnf] at hpu
  split at hpu
  · rename_i n hn
    have hm := getPrevious_mem _ _ hn
    have hf : n.headersFinished = false := by simpa using hpu
    have hk : knownStream r u fr wc = writeError r n.uid (.goAway Gen.c_ProtocolError "previous stream headers not ended") := by
      simp [knownStream, headersPrelude, ht, hn, hf]
    rw [hk]
    cases hg : r.getStrm n.uid with
    | none =>
      have := List.find?_eq_none.mp hg n hm
      simp at this
    | some st2 =>
      rw [writeError_of hg]
      simp [pX, hout]
  · cases hpu

theorem isHeaders_abs (s : Srv) (fr : Frame) (hwf : FrWF fr) :
    StreamSM.isHeaders (absFrame s fr) = (fr.typ == Gen.c_FrameHeaders) := by
  obtain ⟨typ, flags, sid, len, body⟩ := fr
  cases body <;> simp only [FrWF] at hwf <;>
    first | subst hwf | (obtain ⟨rfl, rfl⟩ := hwf) | (obtain ⟨rfl, rfl, rfl⟩ := hwf)
  all_goals simp +decide [absFrame, StreamSM.isHeaders]

/-- **a frame on a stream of the table — every frame type, the previous-block check included** -/
theorem known_all {r : R} {u sid : Nat} {st : Strm} (h : TB r u sid st) (fr : Frame) (wc : Bool)
    (hwf : FrWF fr) (hs : fr.stream = sid) (hodd : sid % 2 = 1) (hres : st.state ≠ .reserved) (hcl : 0 ≤ st.contentLength)
    (hout : fm (pX sid) r.out = []) (hnr : resume st = false) (hnb : r.s.resetByUs.contains sid = false)
    (hni : ∀ x ∈ r.s.strms, x.state = .idle → ¬ x.id < fr.stream)
    (c : Ctx) (hc1 : c.prevUnfinished = (fr.typ == Gen.c_FrameHeaders && prevUnf r.s.strms))
    (hc2 : c.isLast = (sid == r.s.lastID)) (hc3 : c.clMismatch = (absCtx r.s sid (some fr)).clMismatch) :
    rcOf (fm (pX sid) (knownStream r u fr wc).out) = absRC (StreamSM.afterLookup (absT st) (absFrame r.s fr) c).1 ∧
    (isConn (StreamSM.afterLookup (absT st) (absFrame r.s fr) c).1 = false →
      absPos (knownStream r u fr wc).s sid = (StreamSM.afterLookup (absT st) (absFrame r.s fr) c).2) := by
  by_cases hpu : (fr.typ == Gen.c_FrameHeaders && prevUnf r.s.strms) = true
  · have hA : StreamSM.afterLookup (absT st) (absFrame r.s fr) c = (.connErr .protocol, (absT st).pos) := by
      have hpu2 := hpu
      simp only [Bool.and_eq_true] at hpu2
      simp only [StreamSM.afterLookup, isHeaders_abs r.s fr hwf, hc1, hpu2.1, hpu2.2, Bool.and_self, if_true]
    simp only [Bool.and_eq_true, beq_iff_eq] at hpu
    rw [hA, prelude_fail r u fr wc sid hpu.1 hpu.2 hout]
    exact ⟨rfl, fun hh => by simp [isConn] at hh⟩
  · have hpu' : (fr.typ == Gen.c_FrameHeaders && prevUnf r.s.strms) = false := by simpa using hpu
    exact known_refines h fr wc hwf hodd hres hout hnr hnb (prelude_pass r fr hni hpu') c
      (by rw [isHeaders_abs r.s fr hwf, hc1, hpu']; simp) hc2 (hc3 ▸ hf_all h fr hwf hres hs hcl)

/-! ## the state between frames, and HEADERS opening a stream -/

/-- what the step theorem needs of the state in which the frame arrives (all of it holds in every reachable state in
which no GOAWAY has been written: `Run.lean`) -/
structure SInv (s : Srv) : Prop where
  un : (s.strms.map (·.uid)).Nodup
  idn : (s.strms.map (·.id)).Nodup
  ult : ∀ st ∈ s.strms, st.uid < s.nextUid
  ile : ∀ st ∈ s.strms, st.id ≤ s.lastID
  live : ∀ st ∈ s.strms, st.state = .open ∨ st.state = .halfClosed
  cl : ∀ st ∈ s.strms, 0 ≤ st.contentLength
  nrb : ∀ st ∈ s.strms, s.resetByUs.contains st.id = false

/-- the stream object `unknownStream` creates -/
def newStrm (r : R) (fr : Frame) : Strm := { uid := r.s.nextUid, id := fr.stream, window := r.s.curInitWin, origType := fr.typ }

theorem created_TB (r : R) (fr : Frame) (hI : SInv r.s) (hgt : fr.stream > r.s.lastID) :
    TB (created r fr) r.s.nextUid fr.stream (newStrm r fr) := by
  have hnu : ∀ x ∈ r.s.strms, ¬ x.uid = r.s.nextUid := fun x hx e => by have := hI.ult x hx; omega
  have hni : ∀ x ∈ r.s.strms, ¬ x.id = fr.stream := fun x hx e => by have := hI.ile x hx; omega
  refine ⟨?_, ?_, ?_, ?_⟩
  · simp only [R.getStrm, created, List.find?_append]
    rw [List.find?_eq_none.mpr (by intro x hx; simpa using hnu x hx)]
    simp [newStrm]
  · simp only [lookup, created, Nat.le_refl, if_true, List.find?_append]
    rw [List.find?_eq_none.mpr (by intro x hx; simpa using hni x hx)]
    simp [newStrm]
  · simp only [created, List.map_append, List.map_cons, List.map_nil]
    refine List.nodup_append.mpr ⟨hI.un, by simp, ?_⟩
    intro a ha b hb
    simp only [List.mem_singleton] at hb
    obtain ⟨x, hx, rfl⟩ := List.mem_map.mp ha
    rw [hb]; exact hnu x hx
  · simp only [created, List.map_append, List.map_cons, List.map_nil]
    refine List.nodup_append.mpr ⟨hI.idn, by simp, ?_⟩
    intro a ha b hb
    simp only [List.mem_singleton] at hb
    obtain ⟨x, hx, rfl⟩ := List.mem_map.mp ha
    rw [hb]; exact hni x hx

theorem prevUnf_last (l : List Strm) (a b : Strm) (h : a.origType = b.origType) : prevUnf (l ++ [a]) = prevUnf (l ++ [b]) := by
  simp only [prevUnf, getPrevious, List.reverse_append, List.reverse_cons, List.reverse_nil, List.nil_append,
    List.singleton_append, List.filter_cons, h]
  cases (b.origType == Gen.c_FrameHeaders)
  · rfl
  · simp only [if_true]
    cases List.filter (fun st => st.origType == Gen.c_FrameHeaders) l.reverse <;> rfl

theorem walkFrame_created (r : R) (fr : Frame) :
    walkFrame (created r fr).s (some (newStrm r fr)) fr = walkFrame r.s none fr := by
  simp only [walkFrame]
  cases headerPart fr with
  | none => rfl
  | some x => rfl

theorem slStreamFrame_created {r : R} {fr : Frame} (hl : lookup r.s fr.stream = none) (uid : Nat)
    (hu : (unknownStream r fr r.s.closing).2 = some uid) :
    slStreamFrame r fr = knownStream (unknownStream r fr r.s.closing).1 uid fr r.s.closing := by
  have : (if fr.stream ≤ r.s.lastID then r.s.strms.find? (·.id == fr.stream) else none) = none := hl
  simp only [slStreamFrame, this, hu]

/-- **Step refinement at the stream loop, every frame type.** In a state with `SInv`, for a parsed frame with an odd
stream id whose stream (if in the table) has no response data waiting to go out: what the adapter's `checkFrame` compares
is equal — the reaction strings, and (unless the reaction is a connection error) the abstract next place and `absPos` of
the state after. `reactSL` is `StreamSM.react` behind the read loop's checks (`react_eq`). -/
theorem sl_refines (r : R) (fr : Frame) (hI : SInv r.s) (hwf : FrWF fr) (hodd : fr.stream % 2 = 1) (hout : r.out = [])
    (hnr : ∀ st, lookup r.s fr.stream = some st → resume st = false) :
    absReaction (reactSL (absPos r.s fr.stream) (absFrame r.s fr) (absCtx r.s fr.stream (some fr))).1 =
      fullReaction (slStreamFrame r fr).out fr.stream ∧
    (isConn (reactSL (absPos r.s fr.stream) (absFrame r.s fr) (absCtx r.s fr.stream (some fr))).1 = false →
      absPos (slStreamFrame r fr).s fr.stream =
        (reactSL (absPos r.s fr.stream) (absFrame r.s fr) (absCtx r.s fr.stream (some fr))).2) := by
  have hout' : fm (pX fr.stream) r.out = [] := by rw [hout]; rfl
  cases hl : lookup r.s fr.stream with
  | some st =>
    have tb := TB.of_lookup hl hI.un hI.idn
    have hm := tb.mem
    have hk := known_all tb fr r.s.closing hwf rfl hodd
      (by rcases hI.live st hm with h | h <;> rw [h] <;> decide) (hI.cl st hm) hout' (hnr st hl)
      (by have := hI.nrb st hm; rwa [tb.id] at this)
      (fun x hx hi => by rcases hI.live x hx with h | h <;> rw [h] at hi <;> cases hi)
      (absCtx r.s fr.stream (some fr)) (by simp only [absCtx, hl, prevUnf]; cases getPrevious r.s.strms <;> rfl) rfl rfl
    rw [slStreamFrame_known hl, tb.pos hodd]
    exact ⟨reaction_str (by rw [fullRC_eq]; exact hk.1.symm), hk.2⟩
  | none =>
    rw [absPos_out hodd hl]
    rcases unknown_refines r fr r.s.closing hwf hl hodd hout' (absCtx r.s fr.stream (some fr))
      (absCtx_refuse r.s fr.stream (some fr)) with ⟨h1, h2, h3⟩ | ⟨h1, h2, h3, h4, h5, h6, h7⟩
    · rw [slStreamFrame_unknown hl h1]
      exact ⟨reaction_str (by rw [fullRC_eq]; exact h2.symm), h3⟩
    · have hgt : fr.stream > r.s.lastID := by
        rcases cmpOf_cases r.s fr.stream with ⟨a, _, _⟩ | ⟨_, _, c⟩ | ⟨_, _, c⟩ | ⟨_, _, c⟩
        · exact a
        all_goals (rw [h6] at c; cases c)
      have tb := created_TB r fr hI hgt
      have hAF : absFrame (created r fr).s fr = absFrame r.s fr := by
        obtain ⟨typ, flags, sid, len, body⟩ := fr
        simp only at h3; subst h3
        cases body <;> simp only [FrWF] at hwf <;> first | (exact absurd hwf (by decide)) | (exact absurd hwf.1 (by decide)) | skip
        simp only [absFrame, tb.l, hl, newStrm]
        congr 2
        all_goals first | rfl | exact walkFrame_created r _
      have hk := known_all tb fr r.s.closing hwf rfl hodd (by simp [newStrm]) (by simp [newStrm]) hout'
        (by simp [newStrm, resume]) h4
        (by
          intro x hx hi
          simp only [created, List.mem_append, List.mem_singleton] at hx
          rcases hx with hx | rfl
          · rcases hI.live x hx with h | h <;> rw [h] at hi <;> cases hi
          · simp)
        { absCtx r.s fr.stream (some fr) with isLast := true }
        (by
          simp only [absCtx, hl, created, h3, beq_self_eq_true, Bool.true_and]
          exact prevUnf_last _ _ _ (by simp [h3]))
        (by simp [created])
        (by
          have hw := walkFrame_created r fr
          simp only [newStrm] at hw
          simp only [absCtx, tb.l, hl, newStrm, hw]
          simp)
      rw [hAF] at hk
      simp only [reactSL]
      rw [slStreamFrame_created hl _ h1, h2, h7]
      exact ⟨reaction_str (by rw [fullRC_eq]; exact hk.1.symm), hk.2⟩

end H2.Server.Lock.Refine
