import H2.Proofs.StreamSMRefine.Run2
set_option linter.unusedSimpArgs false
/-!
# C08 refinement — run level, part 3: `BX []` (while no GOAWAY has been written every stream of the table is neither idle
nor closed and its id is not in `resetByUs`) through the stream loop, the read loop and whole runs
-/
namespace H2.Server.Lock.Refine
open H2.Frame (Frame Body)
open H2.Server

section
variable {r r' : R} {D H E : List Nat}

theorem unknownStream_bx (fr : Frame) (wc : Bool) (hb : BX [] r) (hnf : ∀ k ∈ KL r, k.2.1 ≠ fr.stream) :
    ((unknownStream r fr wc).2 = none → BX [] (unknownStream r fr wc).1) ∧
    (∀ uid, (unknownStream r fr wc).2 = some uid → uid = r.s.nextUid ∧ (unknownStream r fr wc).1 = created r fr ∧
      fr.typ = Gen.c_FrameHeaders ∧ r.s.resetByUs.contains fr.stream = false) := by
  have hrefuse : ∀ x : R, KL x = KL r → x.s.resetByUs = r.s.resetByUs → x.s.closing = r.s.closing →
      BX [] (writeReset x fr.stream Gen.c_RefusedStreamError) := by
    intro x e1 e2 e3
    refine hb.weak (by rw [show (writeReset x fr.stream Gen.c_RefusedStreamError).s.closing = x.s.closing from rfl, e3]; exact id)
      (fun k hk hx => ⟨by rw [← e1]; exact hk, hx⟩) ?_
    intro k hk _ hh
    rcases writeReset_rb x _ _ _ hh with h | h
    · rw [← e2]; exact h
    · exact absurd h (hnf k (by rw [← e1]; exact hk))
  simp only [unknownStream]
  repeat' split
  all_goals first
    | exact ⟨fun _ => hb, fun uid h => by cases h⟩
    | exact ⟨fun _ => hb.congr (same_ccw _ _).1 (same_ccw _ _).2.1 (same_ccw _ _).2.2, fun uid h => by cases h⟩
    | exact ⟨fun _ => BX.closed (closeIfDone_cl (writeGoAway_cl _ _ _ _)), fun uid h => by cases h⟩
    | exact ⟨fun _ => BX.closed (stopLoop_cl (writeGoAway_cl _ _ _ _)), fun uid h => by cases h⟩
    | exact ⟨fun _ => hrefuse _ rfl rfl rfl, fun uid h => by cases h⟩
    | (refine ⟨(fun h => by cases h), fun uid h => ?_⟩
       simp only [Option.some.injEq] at h
       refine ⟨h.symm, ?_, by simp_all, by simp_all⟩
       simp_all [created])

/-- **a frame with a stream id in the stream loop** -/
theorem slStreamFrame_bx (hi : Inv D H E r) (hb : BX [] r) (fr : Frame) : BX [] (slStreamFrame r fr) := by
  simp only [slStreamFrame]
  cases hf : (if fr.stream ≤ r.s.lastID then r.s.strms.find? (·.id == fr.stream) else none) with
  | some st =>
    simp only
    have hf' : r.s.strms.find? (·.id == fr.stream) = some st := by
      split at hf
      · exact hf
      · cases hf
    have hm : st ∈ r.s.strms := List.mem_of_find?_eq_some hf'
    have hid : st.id = fr.stream := by simpa using List.find?_some hf'
    have hg : r.getStrm st.uid = some st := find_uid_of_mem _ _ hi.uidNodup hm
    refine knownStream_bx hi hg fr hid _ (fun hc k hk _ => hb hc k hk (by simp)) (fun hc => ?_)
    obtain ⟨g1, g2, g3⟩ := hb hc (key st) (List.mem_map_of_mem hm) (by simp)
    exact ⟨g3, g2, fun h => absurd h g1⟩
  | none =>
    simp only
    have hnf : ∀ k ∈ KL r, k.2.1 ≠ fr.stream := by
      intro k hk he
      simp only [KL, List.mem_map] at hk
      obtain ⟨x, hx, rfl⟩ := hk
      have hle : x.id ≤ r.s.lastID := by
        have := hi.ile x.sk (List.mem_map_of_mem hx); simpa [Strm.sk] using this
      simp only [key] at he
      rw [if_pos (he ▸ hle)] at hf
      have := List.find?_eq_none.mp hf x hx
      simp [he] at this
    obtain ⟨u1, u2⟩ := unknownStream_bx fr r.s.closing hb hnf
    cases hu : (unknownStream r fr r.s.closing).2 with
    | none => exact u1 hu
    | some uid =>
      simp only
      obtain ⟨e1, e2, e3, e4⟩ := u2 uid hu
      have hi1 : Inv D H E (created r fr) := e2 ▸ unknownStream_inv fr r.s.closing hi
      have hnu : ∀ x ∈ r.s.strms, ¬ x.uid = r.s.nextUid := fun x hx e => by
        have := hi.ult x.sk (List.mem_map_of_mem hx); simp [Strm.sk] at this; omega
      have hg : (created r fr).getStrm r.s.nextUid = some (newStrm r fr) := by
        simp only [R.getStrm, created, List.find?_append]
        rw [List.find?_eq_none.mpr (by intro x hx; simpa using hnu x hx)]
        simp [newStrm]
      rw [e2, e1]
      refine knownStream_bx hi1 hg fr rfl _ ?_ (fun _ => ⟨e4, by simp [newStrm], fun _ => e3⟩)
      intro hc k hk hku
      simp only [KL, created, List.map_append, List.map_cons, List.map_nil, List.mem_append, List.mem_singleton] at hk
      rcases hk with hk | rfl
      · exact hb hc k hk (by simp)
      · exact absurd rfl hku

/-! ## `flushStreams`, `closeDone` -/

theorem closeStream_eff' (hun : (r.s.strms.map (·.uid)).Nodup) (hidn : (r.s.strms.map (·.id)).Nodup) {u : Nat} {st : Strm}
    (hg : r.getStrm u = some st) :
    (∀ k ∈ KL (closeStream r u), k ∈ KL r ∧ k.1 ≠ u) ∧ (closeStream r u).s.resetByUs = r.s.resetByUs ∧
    (closeStream r u).s.closing = r.s.closing := by
  obtain ⟨e1, _, e3, _⟩ := closeStream_tb hg
  have hm : st ∈ r.s.strms := List.mem_of_find?_eq_some hg
  refine ⟨?_, e3, closeStream_closing r u⟩
  intro k hk
  simp only [KL, e1, List.mem_map] at hk
  obtain ⟨x, hx, rfl⟩ := hk
  obtain ⟨hx1, hx2⟩ := (delFirst_spec r.s.strms st hm hidn).2 x hx
  refine ⟨List.mem_map_of_mem hx1, fun hxu => ?_⟩
  have : x = st := find_uid_unique _ _ _ hun hg x hx1 hxu
  exact hx2 (by rw [this])

/-- closing a stream object that is in the exception list: it is gone, the rest is as before -/
theorem closeDone_eff (hun : (r.s.strms.map (·.uid)).Nodup) (hidn : (r.s.strms.map (·.id)).Nodup) (u : Nat) :
    (∀ k ∈ KL (closeDone r u), k ∈ KL r ∧ k.1 ≠ u) ∧ (closeDone r u).s.resetByUs = r.s.resetByUs ∧
    (closeDone r u).s.closing = r.s.closing := by
  simp only [closeDone]
  have hs : ∀ k ∈ KL (r.updStrm u fun s => { s with state := .closed }), k.1 ≠ u → k ∈ KL r := (eff_close u 0 r).2.1
  have hun' : ((r.updStrm u fun s => { s with state := StState.closed }).s.strms.map (·.uid)).Nodup := by
    rw [show (r.updStrm u fun s => { s with state := StState.closed }).s.strms.map (·.uid) = r.s.strms.map (·.uid) from
      map_keep_pi (·.uid) _ _ _ fun _ => rfl]; exact hun
  have hidn' : ((r.updStrm u fun s => { s with state := StState.closed }).s.strms.map (·.id)).Nodup := by
    rw [show (r.updStrm u fun s => { s with state := StState.closed }).s.strms.map (·.id) = r.s.strms.map (·.id) from
      map_keep_pi (·.id) _ _ _ fun _ => rfl]; exact hidn
  cases hg : (r.updStrm u fun s => { s with state := StState.closed }).getStrm u with
  | none =>
    have : closeStream (r.updStrm u fun s => { s with state := StState.closed }) u = (r.updStrm u fun s => { s with state := StState.closed }) := by
      simp only [closeStream, hg]
    rw [this]
    exact ⟨fun k hk => ⟨hs k hk (getStrm_none_key hg k hk), getStrm_none_key hg k hk⟩, rfl, rfl⟩
  | some st =>
    obtain ⟨c1, c2, c3⟩ := closeStream_eff' hun' hidn' hg
    exact ⟨fun k hk => ⟨hs k (c1 k hk).1 (c1 k hk).2, (c1 k hk).2⟩, c2, c3⟩

theorem flushStreams_bx (hi : Inv D H E r) (hb : BX [] r) : BX [] (flushStreams r) := by
  simp only [flushStreams]
  -- first pass: the streams whose response ended are collected; everything outside that list stays good
  have h1 : ∀ (l : List Nat) (acc : R × List Nat), Inv D H E acc.1 → BX acc.2 acc.1 →
      Inv D H E (l.foldl flushOne acc).1 ∧ BX (l.foldl flushOne acc).2 (l.foldl flushOne acc).1 := by
    intro l
    induction l with
    | nil => intro acc a b; exact ⟨a, b⟩
    | cons u l ih =>
      intro acc a b
      refine ih _ (flushOne_inv acc u a) ?_
      simp only [flushOne]
      split
      · exact b
      · rename_i st hg
        split
        · obtain ⟨s1, s2, s3⟩ := sendData_spec u (C1.of_nodup a.uidNodup u) (r := acc.1)
          obtain ⟨hm, hu, huq, hiq⟩ := a.the hg
          cases hfin : (sendData acc.1 u).2
          · simp only [Bool.false_eq_true, if_false]
            refine b.weak (by rw [s2]; exact id) (fun k hk hx => ⟨s1 ▸ hk, hx⟩) ?_
            intro k hk _ hh
            rcases s3 _ hh with h | ⟨h, _⟩
            · exact h
            · rw [hfin] at h; cases h
          · simp only [if_true]
            refine b.weak (by rw [s2]; exact id) (fun k hk hx => ⟨s1 ▸ hk, fun hx' => hx (List.mem_append_left _ hx')⟩) ?_
            intro k hk hx hh
            rcases s3 _ hh with h | ⟨_, k0, hk0, hu0, hid0⟩
            · exact h
            · exfalso
              have hk' : k ∈ KL acc.1 := s1 ▸ hk
              simp only [KL, List.mem_map] at hk' hk0
              obtain ⟨x, hx1, rfl⟩ := hk'
              obtain ⟨x0, hx0, rfl⟩ := hk0
              have e0 : x0 = st := huq x0 hx0 hu0
              have e1 : x = st := hiq x hx1 (by simp only [key] at hid0; rw [← hid0, e0])
              exact hx (List.mem_append_right _ (by simp [key, e1, hu]))
        · exact b
  -- second pass: they are closed one by one
  have h2 : ∀ (l X : List Nat) (x : R), Inv D H E x → BX X x →
      (∀ k ∈ KL x, k.1 ∈ X → k.1 ∈ l) → BX [] (l.foldl closeDone x) := by
    intro l
    induction l with
    | nil =>
      intro X x _ b hx hc k hk _
      exact b hc k hk (fun h => by have := hx k hk h; cases this)
    | cons u l ih =>
      intro X x hn b hx
      obtain ⟨c1, c2, c3⟩ := closeDone_eff hn.uidNodup hn.idNodup u
      refine ih X _ (closeDone_inv u hn) ?_ ?_
      · exact b.weak (by rw [c3]; exact id) (fun k hk hxx => ⟨(c1 k hk).1, hxx⟩) (fun k _ _ hh => c2 ▸ hh)
      · intro k hk hX
        obtain ⟨hk0, hne⟩ := c1 k hk
        rcases List.mem_cons.mp (hx k hk0 hX) with h | h
        · exact absurd h hne
        · exact h
  obtain ⟨a, b⟩ := h1 (r.s.strms.map (·.uid)) (r, []) hi hb
  exact h2 _ _ _ a b (fun k _ h => h)

theorem applyDelta_kl (d : Int) (l : List Strm) : (applyDelta d l).1.map key = l.map key := by
  induction l with
  | nil => rfl
  | cons a l ih =>
    simp only [applyDelta]
    split
    · simp [key]
    · simp [key, ih]

theorem closeIfClosing_bx {X : List Nat} (h : BX X r) : BX X (closeIfClosing r) := by
  simp only [closeIfClosing]; split
  · exact h.congr rfl rfl rfl
  · exact h

/-- **a frame taken by the stream loop** -/
theorem slFrame_bx (hi : Inv D H E r) (hb : BX [] r) (fr : Frame) : BX [] (slFrame r fr) := by
  have hf : Inv D H E ({ r with fwd := r.fwd ++ [fr] } : R) := hi.congr rfl rfl rfl rfl rfl rfl rfl
  have hbf : BX [] ({ r with fwd := r.fwd ++ [fr] } : R) := hb.congr rfl rfl rfl
  simp only [slFrame]
  split
  · exact hb
  · split
    · split
      · rename_i st _
        have h1 := applyTableSize_inv st hf
        have b1 : BX [] (applyTableSize { r with fwd := r.fwd ++ [fr] } st) := hbf.congr rfl rfl rfl
        split
        · have h2 : Inv D H E ({ (applyTableSize { r with fwd := r.fwd ++ [fr] } st) with
              s := { (applyTableSize { r with fwd := r.fwd ++ [fr] } st).s with
                curInitWin := st.windowSize,
                strms := (applyDelta ((st.windowSize : Int) - (applyTableSize { r with fwd := r.fwd ++ [fr] } st).s.curInitWin)
                  (applyTableSize { r with fwd := r.fwd ++ [fr] } st).s.strms).1 } } : R) :=
            h1.congr (applyDelta_sk _ _) (applyDelta_sk2 _ _) rfl rfl rfl rfl rfl
          have b2 : BX [] ({ (applyTableSize { r with fwd := r.fwd ++ [fr] } st) with
              s := { (applyTableSize { r with fwd := r.fwd ++ [fr] } st).s with
                curInitWin := st.windowSize,
                strms := (applyDelta ((st.windowSize : Int) - (applyTableSize { r with fwd := r.fwd ++ [fr] } st).s.curInitWin)
                  (applyTableSize { r with fwd := r.fwd ++ [fr] } st).s.strms).1 } } : R) :=
            b1.congr (applyDelta_kl _ _) rfl rfl
          split
          · exact BX.closed (stopLoop_cl (writeGoAway_cl _ _ _ _))
          · exact closeIfClosing_bx (flushStreams_bx h2 b2)
        · exact closeIfClosing_bx b1
      · rename_i inc _
        have h2 : Inv D H E ({ r with fwd := r.fwd ++ [fr], s := { r.s with clientWindow := r.s.clientWindow + inc } } : R) :=
          hi.congr rfl rfl rfl rfl rfl rfl rfl
        have b2 : BX [] ({ r with fwd := r.fwd ++ [fr], s := { r.s with clientWindow := r.s.clientWindow + inc } } : R) :=
          hb.congr rfl rfl rfl
        split
        · exact BX.closed (stopLoop_cl (writeGoAway_cl _ _ _ _))
        · exact closeIfClosing_bx (flushStreams_bx h2 b2)
      · exact closeIfClosing_bx hbf
    · exact slStreamFrame_bx hf hbf fr

/-! ## a handler reporting back -/

theorem kl_uid (r : R) : r.s.strms.map (·.uid) = (KL r).map (·.1) := by simp [KL, key, List.map_map, Function.comp_def]
theorem kl_id (r : R) : r.s.strms.map (·.id) = (KL r).map (·.2.1) := by simp [KL, key, List.map_map, Function.comp_def]

theorem finishRequest_spec (u : Nat) (resp : Resp) (hc : C1 u r) :
    SDspec r (finishRequest r u resp).1 u (finishRequest r u resp).2 := by
  simp only [finishRequest]
  split
  · exact ⟨rfl, rfl, fun y h => Or.inl h⟩
  · rename_i st hg
    generalize hresp : (if resp.kind == "panic" then { (default : Resp) with status := 500, kind := "none", view := resp.view } else resp) = resp'
    have hs1 : ∀ hb, Same r (responseHeaders r st resp' hb) := by
      intro hb
      refine ⟨?_, ?_, responseHeaders_closing _ _ _ _⟩ <;> (simp only [responseHeaders, R.emit, KL]; split <;> rfl)
    split
    · obtain ⟨a1, a2, a3⟩ := hs1 (resp'.kind == "stream" || resp'.kind == "buf" && decide (resp'.len > 0))
      exact ⟨a1, a3, fun y h => Or.inl (a2 ▸ h)⟩
    · split
      · have hs2 := (hs1 (resp'.kind == "stream" || resp'.kind == "buf" && decide (resp'.len > 0))).trans
          (same_upd (responseHeaders r st resp' (resp'.kind == "stream" || resp'.kind == "buf" && decide (resp'.len > 0))) u
            (fun s => { s with stream := some resp'.stream, bodySize := resp'.size, bodyRead := 0,
                                src := resp'.src, pendOff := 0, pendLen := 0, pendingEnd := false }) fun _ => rfl)
        obtain ⟨b1, b2, b3⟩ := sendData_spec u (hc.congr hs2.1)
        refine ⟨b1.trans hs2.1, b2.trans hs2.2.2, fun y hy => ?_⟩
        rcases b3 y hy with h | ⟨h1, k, hk, h2⟩
        · exact Or.inl (hs2.2.1 ▸ h)
        · exact Or.inr ⟨h1, k, hs2.1 ▸ hk, h2⟩
      · have hs2 := (hs1 (resp'.kind == "stream" || resp'.kind == "buf" && decide (resp'.len > 0))).trans
          (same_upd (responseHeaders r st resp' (resp'.kind == "stream" || resp'.kind == "buf" && decide (resp'.len > 0))) u
            (fun s => { s with src := resp'.src, pendOff := 0, pendLen := resp'.len, pendingEnd := true }) fun _ => rfl)
        obtain ⟨b1, b2, b3⟩ := sendData_spec u (hc.congr hs2.1)
        refine ⟨b1.trans hs2.1, b2.trans hs2.2.2, fun y hy => ?_⟩
        rcases b3 y hy with h | ⟨h1, k, hk, h2⟩
        · exact Or.inl (hs2.2.1 ▸ h)
        · exact Or.inr ⟨h1, k, hs2.1 ▸ hk, h2⟩

theorem stopIf_bx {X : List Nat} {x : R} (c : Bool) (h : BX X x) : BX X (if c then stopLoop x else x) := by
  cases c
  · exact h
  · exact h.congr rfl rfl rfl

theorem rlStop_cl (h : CL r) : CL (rlStop r) := h

theorem slHandlerDone_bx (hi : Inv D H E r) (hb : BX [] r) (sid : Nat) (resp : Resp) : BX [] (slHandlerDone r sid resp) := by
  simp only [slHandlerDone]
  have h0 : Inv D H E (if resp.kind == "panic" then r.emit .handlerPanicLogged else r) := by
    split
    · exact emit_inv _ rfl rfl rfl hi
    · exact hi
  have b0 : BX [] (if resp.kind == "panic" then r.emit .handlerPanicLogged else r) := by
    split
    · exact hb.congr rfl rfl rfl
    · exact hb
  generalize (if resp.kind == "panic" then r.emit .handlerPanicLogged else r) = r0 at h0 b0 ⊢
  split
  · exact b0
  · split
    · split
      · refine b0.congr ?_ ?_ ?_ <;> (simp only [releaseStream, KL]; split <;> rfl)
      · exact b0
    · rename_i st hf
      have hm : st ∈ r0.s.strms := List.mem_of_find?_eq_some hf
      have hs1 : Same r0 (r0.updStrm st.uid fun s => { s with handlerRunning := false }) := same_upd _ _ _ fun _ => rfl
      have hc1 : C1 st.uid (r0.updStrm st.uid fun s => { s with handlerRunning := false }) :=
        (C1.of_nodup h0.uidNodup st.uid).congr hs1.1
      obtain ⟨f1, f2, f3⟩ := finishRequest_spec st.uid resp hc1
      generalize hx : finishRequest (r0.updStrm st.uid fun s => { s with handlerRunning := false }) st.uid resp = x at f1 f2 f3
      have hkl : KL x.1 = KL r0 := f1.trans hs1.1
      have hun : (x.1.s.strms.map (·.uid)).Nodup := by rw [kl_uid, hkl, ← kl_uid]; exact h0.uidNodup
      have hidn : (x.1.s.strms.map (·.id)).Nodup := by rw [kl_id, hkl, ← kl_id]; exact h0.idNodup
      have hcl : x.1.s.closing = r0.s.closing := f2.trans hs1.2.2
      -- the state after `finishRequest`, closed if the response is over
      have hfin : BX [] (if x.2 then closeDone x.1 st.uid else x.1) := by
        cases hx2 : x.2
        · simp only [Bool.false_eq_true, if_false]
          refine b0.weak (by rw [hcl]; exact id) (fun k hk hxx => ⟨hkl ▸ hk, hxx⟩) ?_
          intro k _ _ hh
          rcases f3 _ hh with h | ⟨h, _⟩
          · exact hs1.2.1 ▸ h
          · rw [hx2] at h; cases h
        · simp only [if_true]
          obtain ⟨c1, c2, c3⟩ := closeDone_eff hun hidn st.uid
          refine b0.weak (by rw [c3, hcl]; exact id) (fun k hk hxx => ⟨hkl ▸ (c1 k hk).1, hxx⟩) ?_
          intro k hk _ hh
          rw [c2] at hh
          rcases f3 _ hh with h | ⟨_, k0, hk0, hu0, hid0⟩
          · exact hs1.2.1 ▸ h
          · exfalso
            obtain ⟨hk1, hne⟩ := c1 k hk
            have hk' : k ∈ KL r0 := hkl ▸ hk1
            have hk0' : k0 ∈ KL r0 := hs1.1 ▸ hk0
            simp only [KL, List.mem_map] at hk' hk0'
            obtain ⟨y, hy, rfl⟩ := hk'
            obtain ⟨y0, hy0, rfl⟩ := hk0'
            have e0 : y0 = st := nodup_map_inj (·.uid) _ h0.uidNodup y0 st hy0 hm hu0
            have e1 : y = st := nodup_map_inj (·.id) _ h0.idNodup y st hy hm (by simp only [key] at hid0; rw [← hid0, e0])
            exact hne (by simp [key, e1])
      exact stopIf_bx _ hfin

/-! ## the read loop, steps, runs -/

theorem rlFrame_bx (hi : Inv D H E r) (hb : BX [] r) (fr : Frame) : BX [] (rlFrame r fr) := by
  simp only [rlFrame, rlConnFrame]
  have hci := contCheck_inv fr hi
  have hcb : BX [] (contCheck r fr).1 := by
    simp only [contCheck]
    repeat' split
    all_goals first
      | exact hb
      | exact BX.closed (writeGoAway_cl _ _ _ _)
      | exact hb.congr rfl rfl rfl
  repeat' split
  all_goals first
    | exact BX.closed (rlStop_cl (writeGoAway_cl _ _ _ _))
    | exact hcb.congr rfl rfl rfl
    | exact slFrame_bx hci hcb _
    | exact slFrame_bx (handleSettings_inv _ hci) (hcb.congr rfl rfl rfl) _
    | exact hcb

theorem rlDrain_bx (fuel : Nat) (hi : Inv D H E r) (hb : BX [] r) : BX [] (rlDrain fuel r) := by
  induction fuel generalizing r with
  | zero => exact hb
  | succ n ih =>
    simp only [rlDrain]
    have hi' : ∀ k, Inv D H E ({ r with s := { r.s with inbuf := r.s.inbuf.drop k } } : R) :=
      fun k => hi.congr rfl rfl rfl rfl rfl rfl rfl
    have hb' : ∀ k, BX [] ({ r with s := { r.s with inbuf := r.s.inbuf.drop k } } : R) := fun k => hb.congr rfl rfl rfl
    repeat' split
    all_goals first
      | exact hb
      | exact ih (rlFrame_inv _ (hi' _)) (rlFrame_bx (hi' _) (hb' _) _)
      | exact ih (hi' _) (hb' _)
      | exact BX.closed (rlStop_cl (writeGoAway_cl _ _ _ _))
      | exact hb.congr rfl rfl rfl

theorem stepR_bx (s : Srv) (ev : Event) (hi : Inv D H E { s := s }) (hb : BX [] { s := s }) : BX [] (stepR s ev) := by
  simp only [stepR]
  have hs : ∀ x : R, BX [] x → BX [] (settle x) := by
    intro x hx; simp only [settle]; split
    · exact hx.congr rfl rfl rfl
    · exact hx
  apply hs
  cases ev with
  | bytes b => exact rlDrain_bx _ (hi.congr rfl rfl rfl rfl rfl rfl rfl) (hb.congr rfl rfl rfl)
  | done sid resp => exact slHandlerDone_bx hi hb sid resp
  | cut => exact hb.congr rfl rfl rfl
  | idle => exact BX.closed (stopLoop_cl (writeGoAway_cl _ _ _ _))

end

theorem runFrom_bx {D H E : List Nat} (s : Srv) (evs : List Event) (hi : InvS D H E s) (hb : BX [] { s := s }) :
    BX [] { s := (runFrom s evs).1 } := by
  induction evs generalizing s D H E with
  | nil => exact hb
  | cons ev evs ih =>
    simp only [runFrom]
    exact ih _ (step_invS ev hi) ((stepR_bx s ev hi hb).congr rfl rfl rfl)

/-- **in every reachable state in which no GOAWAY has been written**, no stream of the table is idle or closed, and no id of
the table is in `resetByUs` -/
theorem run_bx (cfg : Cfg) (evs : List Event) : BX [] { s := (run cfg evs).1 } :=
  runFrom_bx _ evs (init_invS cfg) (fun _ k hk => by simp [KL] at hk)

theorem reachable_live (cfg : Cfg) (evs : List Event) (hc : (run cfg evs).1.closing = false) :
    ∀ st ∈ (run cfg evs).1.strms, st.state ≠ .idle ∧ st.state ≠ .closed ∧ (run cfg evs).1.resetByUs.contains st.id = false := by
  intro st hm
  exact run_bx cfg evs hc (key st) (List.mem_map_of_mem hm) (by simp)

/-- **`SInv` holds in every reachable state in which no GOAWAY has been written** (`ib`: the octets the next event has put
into the read buffer) -/
theorem reachable_sinv' (cfg : Cfg) (evs : List Event) (ib : Bytes) (hc : (run cfg evs).1.closing = false) :
    SInv { (run cfg evs).1 with inbuf := ib } :=
  reachable_sinv cfg evs ib (fun st hm => ⟨(reachable_live cfg evs hc st hm).1, (reachable_live cfg evs hc st hm).2.1⟩)
    (fun st hm => (reachable_live cfg evs hc st hm).2.2)

/-- **Step refinement in every reachable state before the first GOAWAY**: the only side condition left is that the frame's
stream (if in the table) has no response data waiting to go out -/
theorem reachable_frame_refines' (cfg : Cfg) (evs : List Event) (ib : Bytes) (fr : Frame) (hwf : FrWF fr) (h0 : fr.stream ≠ 0)
    (hsl : (run cfg evs).1.slStopped = false) (hc : (run cfg evs).1.closing = false)
    (hnr : ∀ st, lookup (run cfg evs).1 fr.stream = some st → resume st = false) :
    let s : Srv := { (run cfg evs).1 with inbuf := ib }
    absReaction (StreamSM.react (absPos s fr.stream) (absFrame s fr) (absCtx s fr.stream (some fr))).1 =
      fullReaction (rlFrame { s := s } fr).out fr.stream ∧
    (isConn (StreamSM.react (absPos s fr.stream) (absFrame s fr) (absCtx s fr.stream (some fr))).1 = false →
      absPos (rlFrame { s := s } fr).s fr.stream =
        (StreamSM.react (absPos s fr.stream) (absFrame s fr) (absCtx s fr.stream (some fr))).2) :=
  frame_refines _ fr (reachable_sinv' cfg evs ib hc) hwf h0 hsl hnr

end H2.Server.Lock.Refine
