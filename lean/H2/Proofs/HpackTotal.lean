import H2.Proofs.Huffman
import H2.Hpack.Model
/-! Helper lemmas for C16: totality of the HPACK and Huffman decoder models (`H2.Hpack.Dec.next` as it is in
Hpack/Model.lean, `H2.Huffman.decode`): every successful step consumes input, decoded strings are bounded by it. -/
namespace H2.Huffman
open H2

theorem fact_minlen : (List.range 256).all (fun i => decide (5 ≤ Gen.huffLens.getD i 0)) = true := by decide +kernel

theorem code_len_ge (x : Nat) (hx : x < 256) : 5 ≤ (code x).length := by
  have := List.all_eq_true.mp fact_minlen x (List.mem_range.mpr hx)
  simp only [decide_eq_true_eq] at this
  simpa [code, bitsOf_length] using this

theorem encBits_len_ge (s : List Nat) (hs : ∀ x ∈ s, x < 256) : 5 * s.length ≤ (encBits s).length := by
  induction s with
  | nil => simp [encBits]
  | cons x t ih =>
    have h1 := code_len_ge x (hs x (by simp))
    have h2 := ih (fun y hy => hs y (by simp [hy]))
    simp only [encBits, List.flatMap_cons, List.length_append, List.length_cons] at *
    omega

/-- **huff_total**: Huffman decoding is a total function whose output is bounded by its input: every
symbol costs at least 5 bits -/
theorem decode_bound (b s : Bytes) (h : decode b = some s) : 5 * s.length ≤ 8 * b.length := by
  unfold decode at h
  obtain ⟨k, _, hbits, hs⟩ := (dec_iff _ _).1 h
  have h1 := encBits_len_ge s hs
  have h2 := unpack_length b
  rw [hbits] at h2
  simp only [List.length_append, List.length_replicate] at h2
  omega

end H2.Huffman
namespace H2.Hpack
open H2

theorem readCont_lt (m : Nat) (b : Bytes) (i acc v : Nat) (r : Bytes) (h : readCont m b i acc = .ok v r) : r.length < b.length := by
  induction b generalizing i acc with
  | nil => simp [readCont] at h
  | cons c cs ih =>
    simp only [readCont] at h
    split at h
    · cases h
    · split at h
      · cases h
      · split at h
        · injection h with _ h'; subst h'; simp
        · have := ih _ _ h; simp; omega

theorem readInt_lt (n : Nat) (b : Bytes) (v : Nat) (r : Bytes) (h : readInt n b = .ok v r) : r.length < b.length := by
  unfold readInt at h
  split at h
  · cases h
  · rename_i b0 rest
    simp only at h
    split at h
    · cases h; simp
    · have := readCont_lt _ _ _ _ _ _ h
      simp; omega

/-- a decoded string costs input: at least one octet, and at least 5 bits per output octet -/
theorem readString_bound (b s r : Bytes) (h : readString b = .ok s r) :
    r.length < b.length ∧ 5 * s.length ≤ 8 * (b.length - r.length) := by
  unfold readString at h
  split at h
  · cases h
  · rename_i b0 rest
    split at h
    · cases h
    · cases h
    · rename_i n r' hi
      have := readInt_lt _ _ _ _ hi
      split at h
      · cases h
      · rename_i hn
        split at h
        · split at h
          · rename_i s' hd
            have hb := Huffman.decode_bound _ _ hd
            injection h with h1 h2; subst h1; subst h2
            simp only [List.length_drop, List.length_take] at *
            omega
          · cases h
        · injection h with h1 h2; subst h1; subst h2
          simp only [List.length_drop, List.length_take] at *
          omega
theorem readName_lt (st : DecState) (n : Nat) (b name r : Bytes) (h : readName st n b = .inl (some (name, r))) :
    r.length < b.length := by
  unfold readName at h
  split at h
  · cases h
  · rename_i b0 rest
    split at h
    · split at h
      · rename_i s r' hs
        have := (readString_bound _ _ _ hs).1
        cases h; simp; omega
      · cases h
      · cases h
    · split at h
      · rename_i i r' hi
        have := readInt_lt _ _ _ _ hi
        split at h
        · cases h; omega
        · cases h
      · cases h
      · cases h

theorem readLiteral_lt (st : DecState) (n : Nat) (b name v r : Bytes) (h : readLiteral st n b = .inl (some (name, v, r))) :
    r.length < b.length := by
  unfold readLiteral at h
  split at h
  · rename_i name' r' hn
    have h1 := readName_lt _ _ _ _ _ hn
    split at h
    · rename_i v' r'' hs
      have h2 := (readString_bound _ _ _ hs).1
      cases h; omega
    · cases h
    · cases h
  · cases h
  · cases h

theorem nextFuel_lt (fuel : Nat) (st : DecState) (bs : Bool) (fp : Nat) (b : Bytes) (st' : DecState) (f : Option Field)
    (rest : Bytes) (hne : b ≠ []) (h : nextFuel fuel st bs fp b = .ok st' f rest) : rest.length < b.length := by
  induction fuel generalizing st b with
  | zero => unfold nextFuel at h; cases h
  | succ fuel ih =>
    cases b with
    | nil => exact absurd rfl hne
    | cons c tl =>
      unfold nextFuel at h
      split at h
      · -- indexed
        split at h
        · rename_i i r hi
          have := readInt_lt _ _ _ _ hi
          split at h
          · cases h; exact this
          · cases h
        · cases h
        · cases h
      · split at h
        · -- incremental indexing
          split at h
          · rename_i n v r hl
            have := readLiteral_lt _ _ _ _ _ _ hl
            cases h; exact this
          all_goals cases h
        · split at h
          · -- size update, then `goto loop`
            split at h
            · rename_i n r hi
              have h1 := readInt_lt _ _ _ _ hi
              split at h
              · cases h
              · split at h
                · cases h
                · by_cases hr : r = []
                  · subst hr
                    unfold nextFuel at h
                    cases fuel with
                    | zero => cases h
                    | succ k => cases h; exact h1
                  · have := ih _ _ hr h
                    omega
            · cases h
            · cases h
          · split at h
            · rename_i n v r hl
              have := readLiteral_lt _ _ _ _ _ _ hl
              cases h; exact this
            all_goals cases h

/-- the value of a literal field is read from the input: bounded by the octets consumed -/
theorem readLiteral_value_bound (st : DecState) (n : Nat) (b name v r : Bytes)
    (h : readLiteral st n b = .inl (some (name, v, r))) : 5 * v.length ≤ 8 * (b.length - r.length) := by
  unfold readLiteral at h
  split at h
  · rename_i name' r' hn
    have h1 := readName_lt _ _ _ _ _ hn
    split at h
    · rename_i v' r'' hs
      have h2 := readString_bound _ _ _ hs
      cases h; omega
    · cases h
    · cases h
  · cases h
  · cases h

end H2.Hpack
