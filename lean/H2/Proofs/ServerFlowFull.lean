import H2.Proofs.ServerOnce
/-!
# Flow-control ledgers of the FULL server model (C06 send side, C14 receive side)

Everything here is about `H2.Server.stepR` / `H2.Server.step` (`H2/Server/Model.lean`), for EVERY configuration and
EVERY event list; no abstract model is involved.

* Part 0: measures of an output list (`sentC`, `sentS sid`, `cred0`, `Out.bad`) and of a list of forwarded frames
  (`grantC`, `wuS sid`, `initWin`, `dataFwd`).
* Part 1: the table facts `Tbl`, the relation `Quiet r r'` ("nothing a ledger looks at has changed"), and `Quiet` for
  every function of the model that moves no window and writes no ledger-relevant output.
* Part 2: the invariant `FI O F r` (table facts, send ledger `LedA`, receive ledger `LedB`, MAX_FRAME_SIZE sanity and
  "no bad output") and its preservation by every function of the model, up to `stepR` (`FInv`, `stepR_finv`).
  The model appends a frame to `r.fwd` when the stream loop takes it and moves the windows a little later: the lemmas
  below `slFrame` are stated as `FI O F r → FI O (F ++ [fr]) (f r)`, the frame being filed when its effect is in the state.
* Part 3: runs (`runF` = fold of `stepR` collecting outputs and forwarded frames; its first two components are the
  `runFrom` of `ServerOnce.lean`), `run_sinv`.
* Part 4: step level, send side: `Fits` (every DATA frame of one `sendData` run fits both windows as they are just before
  it, and 16 384), `sendDataFuel_fits`.
* Part 5: the run-level theorems (`conn_ledger`, `stream_ledger`, `data_frames_small`, `no_zero_increment`,
  `recv_ledger`, …), `step_ledger`, and what the callers of `sendData` do.

Proof pattern (as in `ServerOnce.lean`): big functions are restated once by `rfl` with named pieces (`handleFrame_eq`,
`knownStream_eq`, `slFrame_eq`, `finishRequest_eq`; `refill_eq`, `sendDataFuel_succ` come from `ServerOnce.lean`) so that
`split` meets one `if`/`match` at a time.
-/
namespace H2.Server
open H2.Frame (Frame Body)

/-! ## Part 0 — measures -/

/-- payload octets of a DATA frame (0 for everything else) -/
def Out.dataLen : Out → Nat
  | .data _ _ len _ => len
  | _ => 0

/-- payload octets of a DATA frame on stream `sid` -/
def Out.dataOn (sid : Nat) : Out → Nat
  | .data s _ len _ => if s = sid then len else 0
  | _ => 0

/-- the increment of a connection-level WINDOW_UPDATE the server writes -/
def Out.credit : Out → Nat
  | .wu sid inc => if sid = 0 then inc else 0
  | _ => 0

/-- an output that must never be written: a DATA frame of more than 16 384 octets, a WINDOW_UPDATE with increment 0 -/
def Out.bad : Out → Bool
  | .data _ _ len _ => decide (16384 < len)
  | .wu _ inc => inc == 0
  | _ => false

/-- DATA octets written on the connection -/
def sentC (l : List Out) : Nat := (l.map Out.dataLen).sum
/-- DATA octets written on stream `sid` -/
def sentS (sid : Nat) (l : List Out) : Nat := (l.map (Out.dataOn sid)).sum
/-- connection-level receive credit handed back (sum of the increments of `WINDOW_UPDATE(0, inc)`) -/
def cred0 (l : List Out) : Nat := (l.map Out.credit).sum

@[simp] theorem sentC_nil : sentC [] = 0 := rfl
@[simp] theorem sentS_nil (sid : Nat) : sentS sid [] = 0 := rfl
@[simp] theorem cred0_nil : cred0 [] = 0 := rfl
@[simp] theorem sentC_append (a b : List Out) : sentC (a ++ b) = sentC a + sentC b := by simp [sentC]
@[simp] theorem sentS_append (sid : Nat) (a b : List Out) : sentS sid (a ++ b) = sentS sid a + sentS sid b := by
  simp [sentS]
@[simp] theorem cred0_append (a b : List Out) : cred0 (a ++ b) = cred0 a + cred0 b := by simp [cred0]
@[simp] theorem sentC_single (o : Out) : sentC [o] = o.dataLen := by simp [sentC]
@[simp] theorem sentS_single (sid : Nat) (o : Out) : sentS sid [o] = o.dataOn sid := by simp [sentS]
@[simp] theorem cred0_single (o : Out) : cred0 [o] = o.credit := by simp [cred0]

/-- what a forwarded frame grants the connection send window: the increment of a WINDOW_UPDATE on stream 0 -/
def connInc (fr : Frame) : Nat :=
  if fr.stream == 0 then (match fr.body with | .windowUpdate n => n | _ => 0) else 0

/-- what a forwarded frame grants the send window of stream `sid`: the increment of a WINDOW_UPDATE on `sid` -/
def strmInc (sid : Nat) (fr : Frame) : Nat :=
  if fr.stream != 0 && fr.stream == sid && fr.typ == Gen.c_FrameWindowUpdate then
    (match fr.body with | .windowUpdate n => n | _ => 0) else 0

/-- the flow-controlled length (payload with padding) of a forwarded DATA frame -/
def dataInc (fr : Frame) : Nat := if fr.stream != 0 && fr.typ == Gen.c_FrameData then fr.length else 0

/-- SETTINGS_INITIAL_WINDOW_SIZE after one more forwarded frame -/
def initStep (w : Int) (fr : Frame) : Int :=
  if fr.stream == 0 then
    (match fr.body with
     | .settings st => if st.hasWindowSize then (st.windowSize : Int) else w
     | _ => w)
  else w

/-- connection-level WINDOW_UPDATE increments among the forwarded frames -/
def grantC (l : List Frame) : Nat := (l.map connInc).sum
/-- WINDOW_UPDATE increments forwarded on stream `sid` -/
def wuS (sid : Nat) (l : List Frame) : Nat := (l.map (strmInc sid)).sum
/-- flow-controlled octets of the DATA frames forwarded -/
def dataFwd (l : List Frame) : Nat := (l.map dataInc).sum
/-- the peer's SETTINGS_INITIAL_WINDOW_SIZE in force: 65 535 or the last value forwarded -/
def initWin (l : List Frame) : Int := l.foldl initStep (Gen.c_defaultWindowSize : Nat)

@[simp] theorem grantC_nil : grantC [] = 0 := rfl
@[simp] theorem wuS_nil (sid : Nat) : wuS sid [] = 0 := rfl
@[simp] theorem dataFwd_nil : dataFwd [] = 0 := rfl
@[simp] theorem grantC_append (a b : List Frame) : grantC (a ++ b) = grantC a + grantC b := by simp [grantC]
@[simp] theorem wuS_append (sid : Nat) (a b : List Frame) : wuS sid (a ++ b) = wuS sid a + wuS sid b := by simp [wuS]
@[simp] theorem dataFwd_append (a b : List Frame) : dataFwd (a ++ b) = dataFwd a + dataFwd b := by simp [dataFwd]
@[simp] theorem grantC_single (fr : Frame) : grantC [fr] = connInc fr := by simp [grantC]
@[simp] theorem wuS_single (sid : Nat) (fr : Frame) : wuS sid [fr] = strmInc sid fr := by simp [wuS]
@[simp] theorem dataFwd_single (fr : Frame) : dataFwd [fr] = dataInc fr := by simp [dataFwd]
theorem initWin_snoc (l : List Frame) (fr : Frame) : initWin (l ++ [fr]) = initStep (initWin l) fr := by
  simp [initWin, List.foldl_append]

/-! ## Part 1 — table facts, `Quiet` -/

/-- (uid, id, send window) of every stream of the table -/
def wtab (r : R) : List (Nat × Nat × Int) := r.s.strms.map fun st => (st.uid, st.id, st.window)

/-- structural facts about the stream table and the two memories of closed / reset ids -/
structure Tbl (r : R) : Prop where
  un : (r.s.strms.map (·.uid)).Nodup
  idn : (r.s.strms.map (·.id)).Nodup
  ile : ∀ st ∈ r.s.strms, st.id ≤ r.s.lastID
  ult : ∀ st ∈ r.s.strms, st.uid < r.s.nextUid
  id0 : ∀ st ∈ r.s.strms, st.id ≠ 0
  ringle : ∀ x ∈ r.s.ring, x ≤ r.s.lastID
  rstle : ∀ x ∈ r.s.resetByUs, x ≤ r.s.lastID ∨ x ≤ r.s.lastRefused

/-- `r'` differs from `r` in nothing a ledger looks at: no window moved, no stream appeared, no DATA octet and no
connection credit was written, no frame was forwarded; streams may have left the table, ids may have been
remembered as closed / reset, the loops may have stopped, GOAWAY may have been written -/
structure Quiet (r r' : R) : Prop where
  wk : (wtab r').Sublist (wtab r)
  cw : r'.s.clientWindow = r.s.clientWindow
  cur : r'.s.curInitWin = r.s.curInitWin
  rw : r'.s.recvWin = r.s.recvWin
  pfs : r'.s.peerFrameSize = r.s.peerFrameSize ∨ 16384 ≤ r'.s.peerFrameSize
  lid : r'.s.lastID = r.s.lastID
  lref : r'.s.lastRefused = r.s.lastRefused
  nuid : r'.s.nextUid = r.s.nextUid
  ring : ∀ x ∈ r'.s.ring, x ∈ r.s.ring ∨ x ≤ r.s.lastID
  rst : ∀ x ∈ r'.s.resetByUs, x ∈ r.s.resetByUs ∨ x ≤ r.s.lastID ∨ x ≤ r.s.lastRefused
  stop : r.s.slStopped = true → r'.s.slStopped = true
  fwd : r'.fwd = r.fwd
  sc : sentC r'.out = sentC r.out
  ss : ∀ sid, sentS sid r'.out = sentS sid r.out
  cr : cred0 r'.out = cred0 r.out
  ga : cnt .goAway r.out ≤ cnt .goAway r'.out
  /-- no new output is a bad one -/
  dz : ∀ o ∈ r'.out, o ∈ r.out ∨ o.bad = false

theorem Quiet.refl (r : R) : Quiet r r where
  wk := List.Sublist.refl _
  cw := rfl
  cur := rfl
  rw := rfl
  pfs := Or.inl rfl
  lid := rfl
  lref := rfl
  nuid := rfl
  ring := fun _ h => Or.inl h
  rst := fun _ h => Or.inl h
  stop := id
  fwd := rfl
  sc := rfl
  ss := fun _ => rfl
  cr := rfl
  ga := Nat.le_refl _
  dz := fun _ h => Or.inl h

theorem Quiet.trans {a b c : R} (h1 : Quiet a b) (h2 : Quiet b c) : Quiet a c where
  wk := h2.wk.trans h1.wk
  cw := h2.cw.trans h1.cw
  cur := h2.cur.trans h1.cur
  rw := h2.rw.trans h1.rw
  pfs := by
    rcases h2.pfs with h | h
    · rw [h]; exact h1.pfs
    · exact Or.inr h
  lid := h2.lid.trans h1.lid
  lref := h2.lref.trans h1.lref
  nuid := h2.nuid.trans h1.nuid
  ring := fun x hx => by
    rcases h2.ring x hx with h | h
    · exact h1.ring x h
    · right; rw [← h1.lid]; exact h
  rst := fun x hx => by
    rcases h2.rst x hx with h | h | h
    · exact h1.rst x h
    · right; left; rw [← h1.lid]; exact h
    · right; right; rw [← h1.lref]; exact h
  stop := fun h => h2.stop (h1.stop h)
  fwd := h2.fwd.trans h1.fwd
  sc := h2.sc.trans h1.sc
  ss := fun sid => (h2.ss sid).trans (h1.ss sid)
  cr := h2.cr.trans h1.cr
  ga := Nat.le_trans h1.ga h2.ga
  dz := fun o ho => by
    rcases h2.dz o ho with h | h
    · exact h1.dz o h
    · exact Or.inr h

theorem mem_wk {r : R} {st : Strm} (h : st ∈ r.s.strms) : (st.uid, st.id, st.window) ∈ wtab r :=
  List.mem_map.mpr ⟨st, h, rfl⟩

theorem of_mem_wk {r : R} {t : Nat × Nat × Int} (h : t ∈ wtab r) :
    ∃ st ∈ r.s.strms, st.uid = t.1 ∧ st.id = t.2.1 ∧ st.window = t.2.2 := by
  obtain ⟨st, hs, rfl⟩ := List.mem_map.mp h
  exact ⟨st, hs, rfl, rfl, rfl⟩

/-- a stream of the later table was in the earlier one, with the same uid, id and window -/
theorem Quiet.was {r r' : R} (q : Quiet r r') {st' : Strm} (h : st' ∈ r'.s.strms) :
    ∃ st ∈ r.s.strms, st.uid = st'.uid ∧ st.id = st'.id ∧ st.window = st'.window :=
  of_mem_wk (q.wk.subset (mem_wk h))

theorem wtab_uid (r : R) : (wtab r).map (·.1) = r.s.strms.map (·.uid) := by
  simp [wtab, List.map_map, Function.comp_def]
theorem wtab_id (r : R) : (wtab r).map (·.2.1) = r.s.strms.map (·.id) := by
  simp [wtab, List.map_map, Function.comp_def]

theorem Quiet.tbl {r r' : R} (q : Quiet r r') (t : Tbl r) : Tbl r' where
  un := by
    have h := t.un
    rw [← wtab_uid] at h ⊢
    exact h.sublist (q.wk.map _)
  idn := by
    have h := t.idn
    rw [← wtab_id] at h ⊢
    exact h.sublist (q.wk.map _)
  ile := fun st' h => by
    obtain ⟨st, hs, _, hi, _⟩ := q.was h
    rw [q.lid, ← hi]; exact t.ile st hs
  ult := fun st' h => by
    obtain ⟨st, hs, hu, _, _⟩ := q.was h
    rw [q.nuid, ← hu]; exact t.ult st hs
  id0 := fun st' h => by
    obtain ⟨st, hs, _, hi, _⟩ := q.was h
    rw [← hi]; exact t.id0 st hs
  ringle := fun x hx => by
    rw [q.lid]
    rcases q.ring x hx with h | h
    · exact t.ringle x h
    · exact h
  rstle := fun x hx => by
    rw [q.lid, q.lref]
    rcases q.rst x hx with h | h
    · exact t.rstle x h
    · exact h

/-- what `getStrm uid = some st` means when the uids and ids of the table are distinct -/
theorem Tbl.the {r : R} (t : Tbl r) {uid : Nat} {st : Strm} (hg : r.getStrm uid = some st) :
    st ∈ r.s.strms ∧ st.uid = uid ∧ (∀ x ∈ r.s.strms, x.uid = uid → x = st) ∧ (∀ x ∈ r.s.strms, x.id = st.id → x = st) := by
  have hm : st ∈ r.s.strms := List.mem_of_find?_eq_some hg
  have hu : st.uid = uid := by
    have := List.find?_some hg
    simpa using this
  exact ⟨hm, hu, find_uid_unique _ _ _ t.un hg, fun x hx hi => nodup_map_inj (·.id) _ t.idn x st hx hm hi⟩

/-! ### primitives -/

theorem dz_snoc (l : List Out) (o : Out) (h : o.bad = false) : ∀ x ∈ l ++ [o], x ∈ l ∨ x.bad = false := by
  intro x hx
  rcases List.mem_append.mp hx with hx | hx
  · exact Or.inl hx
  · simp only [List.mem_singleton] at hx; subst hx; exact Or.inr h

theorem emit_quiet (r : R) (o : Out) (h1 : o.dataLen = 0) (h2 : o.credit = 0) (h3 : o.bad = false) : Quiet r (r.emit o) where
  wk := List.Sublist.refl _
  cw := rfl
  cur := rfl
  rw := rfl
  pfs := Or.inl rfl
  lid := rfl
  lref := rfl
  nuid := rfl
  ring := fun _ h => Or.inl h
  rst := fun _ h => Or.inl h
  stop := id
  fwd := rfl
  sc := by simp [h1]
  ss := fun sid => by
    have : o.dataOn sid = 0 := by
      cases o <;> simp_all [Out.dataOn, Out.dataLen]
    simp [this]
  cr := by simp [h2]
  ga := by simp
  dz := dz_snoc _ _ h3

/-- an in-place update that keeps uid, id and window of every stream it touches -/
theorem upd_quiet (r : R) (uid : Nat) (f : Strm → Strm)
    (hf : ∀ x ∈ r.s.strms, x.uid = uid → (f x).uid = x.uid ∧ (f x).id = x.id ∧ (f x).window = x.window) :
    Quiet r (r.updStrm uid f) where
  wk := by
    have : wtab (r.updStrm uid f) = wtab r := by
      simp only [wtab, R.updStrm, List.map_map]
      apply List.map_congr_left
      intro x hx
      by_cases hu : x.uid = uid
      · obtain ⟨a, b, c⟩ := hf x hx hu
        simp [hu, a, b, c]
      · simp [hu]
    rw [this]; exact List.Sublist.refl _
  cw := rfl
  cur := rfl
  rw := rfl
  pfs := Or.inl rfl
  lid := rfl
  lref := rfl
  nuid := rfl
  ring := fun _ h => Or.inl h
  rst := fun _ h => Or.inl h
  stop := id
  fwd := rfl
  sc := rfl
  ss := fun _ => rfl
  cr := rfl
  ga := Nat.le_refl _
  dz := fun _ h => Or.inl h

syntax "dz_tac" : tactic
macro_rules
  | `(tactic| dz_tac) => `(tactic|
      first
        | exact dz_snoc _ _ rfl
        | (simp only [writeGoAway_out]; exact dz_snoc _ _ rfl)
        | (show ∀ o ∈ (writeGoAway _ _ _ _).out, _; simp only [writeGoAway_out]; exact dz_snoc _ _ rfl))

/-- closes the side goals of a `Quiet` between two states with the same table, scalars and ledger outputs -/
syntax "quiet_fields" : tactic
macro_rules
  | `(tactic| quiet_fields) => `(tactic|
      all_goals first
        | rfl
        | exact Or.inl rfl
        | exact List.Sublist.refl _
        | exact id
        | exact Nat.le_refl _
        | (intro _ h; exact Or.inl h)
        | (intro _; rfl)
        | (intro h; exact h))

syntax "quiet_mk" : tactic
macro_rules
  | `(tactic| quiet_mk) => `(tactic|
      refine { wk := ?wk, cw := ?cw, cur := ?cur, rw := ?rw, pfs := ?pfs, lid := ?lid, lref := ?lref, nuid := ?nuid,
               ring := ?ring, rst := ?rst, stop := ?stop, fwd := ?fwd, sc := ?sc, ss := ?ss, cr := ?cr, ga := ?ga,
               dz := ?dz })

/-- replacing the stream `getStrm uid` returns by one with the same uid, id and window -/
theorem updc_quiet {r : R} (t : Tbl r) (uid : Nat) (st st' : Strm) (hg : r.getStrm uid = some st)
    (h : st'.uid = st.uid ∧ st'.id = st.id ∧ st'.window = st.window) : Quiet r (r.updStrm uid fun _ => st') :=
  upd_quiet r uid _ fun x hx hu => by
    have := (t.the hg).2.2.1 x hx hu
    subst this
    exact h

def rstKnown (l : List Nat) : List Nat := if l.length ≥ Gen.c_closedStrmsCap then [] else l

theorem writeReset_rst (r : R) (sid code : Nat) :
    (writeReset r sid code).s.resetByUs =
      if (rstKnown r.s.resetByUs).contains sid then rstKnown r.s.resetByUs else rstKnown r.s.resetByUs ++ [sid] := rfl

theorem mem_rstKnown {l : List Nat} {y : Nat} (h : y ∈ rstKnown l) : y ∈ l := by
  unfold rstKnown at h
  split at h
  · cases h
  · exact h

theorem writeReset_quiet (r : R) (sid code : Nat) (h : sid ≤ r.s.lastID ∨ sid ≤ r.s.lastRefused) :
    Quiet r (writeReset r sid code) := by
  quiet_mk
  case rst =>
    intro x hx
    rw [writeReset_rst] at hx
    split at hx
    · exact Or.inl (mem_rstKnown hx)
    · rcases List.mem_append.mp hx with hx | hx
      · exact Or.inl (mem_rstKnown hx)
      · simp at hx; subst hx; exact Or.inr h
  case sc => simp [Out.dataLen]
  case ss => intro sid; simp [Out.dataOn]
  case cr => simp [Out.credit]
  case ga => simp
  case dz => dz_tac
  quiet_fields

theorem writeGoAway_quiet (r : R) (sid code : Nat) (tag : String) : Quiet r (writeGoAway r sid code tag) := by
  quiet_mk
  case sc => simp [Out.dataLen]
  case ss => intro sid; simp [Out.dataOn]
  case cr => simp [Out.credit]
  case ga => simp
  case dz => dz_tac
  all_goals (unfold writeGoAway; simp only []; split)
  quiet_fields

/-- `writeGoAway` writes one GOAWAY -/
theorem writeGoAway_ga (r : R) (sid code : Nat) (tag : String) :
    cnt .goAway (writeGoAway r sid code tag).out = cnt .goAway r.out + 1 := by
  simp [Out.kind]

theorem stopLoop_quiet (r : R) : Quiet r (stopLoop r) := by
  quiet_mk
  case stop => intro _; rfl
  quiet_fields

theorem rlStop_quiet (r : R) : Quiet r (rlStop r) := by
  quiet_mk
  quiet_fields

theorem releaseStream_quiet (r : R) (st : Strm) : Quiet r (releaseStream r st) := by
  unfold releaseStream
  split
  · quiet_mk
    quiet_fields
  · exact Quiet.refl r

theorem delFirst_wtab (l : List Strm) (id : Nat) :
    ((delFirst l id).map fun st => (st.uid, st.id, st.window)).Sublist (l.map fun st => (st.uid, st.id, st.window)) :=
  (delFirst_sublist l id).map _

theorem mem_markClosed {ring : List Nat} {id x : Nat} (h : x ∈ markClosed ring id) : x ∈ ring ∨ x = id := by
  unfold markClosed at h
  split at h
  · exact Or.inl h
  · split at h
    · rcases List.mem_append.mp h with h | h
      · exact Or.inl h
      · right; simpa using h
    · rcases List.mem_append.mp h with h | h
      · exact Or.inl (List.mem_of_mem_drop h)
      · right; simpa using h

theorem closeStream_quiet {r : R} (t : Tbl r) (uid : Nat) : Quiet r (closeStream r uid) := by
  unfold closeStream
  split
  · exact Quiet.refl r
  · rename_i st hg
    have hm : st ∈ r.s.strms := List.mem_of_find?_eq_some hg
    have hle := t.ile st hm
    have hr : ∀ x ∈ markClosed r.s.ring st.id, x ∈ r.s.ring ∨ x ≤ r.s.lastID := by
      intro x hx
      rcases mem_markClosed hx with h | h
      · exact Or.inl h
      · subst h; exact Or.inr hle
    simp only []
    split
    · quiet_mk
      case wk => exact delFirst_wtab _ _
      case ring => exact hr
      quiet_fields
    · unfold releaseStream
      split
      · quiet_mk
        case wk => exact delFirst_wtab _ _
        case ring => exact hr
        quiet_fields
      · quiet_mk
        case wk => exact delFirst_wtab _ _
        case ring => exact hr
        quiet_fields

theorem closeBody_quiet (r : R) (uid : Nat) : Quiet r (closeBody r uid) :=
  upd_quiet r uid _ fun _ _ _ => ⟨rfl, rfl, rfl⟩

theorem writeError_quiet {r : R} (t : Tbl r) (uid : Nat) (e : SErr) : Quiet r (writeError r uid e) := by
  unfold writeError
  split
  · exact Quiet.refl r
  · rename_i st hg
    have hle : st.id ≤ r.s.lastID := t.ile st (List.mem_of_find?_eq_some hg)
    cases e with
    | goAway code tag => exact (writeGoAway_quiet r st.id code tag).trans (upd_quiet _ _ _ fun _ _ _ => ⟨rfl, rfl, rfl⟩)
    | reset code => exact (writeReset_quiet r st.id code (Or.inl hle)).trans (upd_quiet _ _ _ fun _ _ _ => ⟨rfl, rfl, rfl⟩)

/-- `writeError` on a stream of the table with a GOAWAY-typed error writes a GOAWAY -/
theorem writeError_ga (r : R) (uid : Nat) (code : Nat) (tag : String) (st : Strm) (hg : r.getStrm uid = some st) :
    cnt .goAway (writeError r uid (.goAway code tag)).out = cnt .goAway r.out + 1 := by
  unfold writeError
  rw [hg]
  simp [Out.kind]

theorem closeDone_quiet {r : R} (t : Tbl r) (uid : Nat) : Quiet r (closeDone r uid) := by
  unfold closeDone
  have q := upd_quiet r uid (fun s => { s with state := .closed }) fun _ _ _ => ⟨rfl, rfl, rfl⟩
  exact q.trans (closeStream_quiet (q.tbl t) uid)

theorem closeIfClosed_quiet {r : R} (t : Tbl r) (uid : Nat) : Quiet r (closeIfClosed r uid) := by
  unfold closeIfClosed
  split
  · split
    · exact closeStream_quiet t uid
    · exact Quiet.refl r
  · exact Quiet.refl r

theorem closeIfDone_quiet (r : R) : Quiet r (closeIfDone r) := by
  unfold closeIfDone
  split
  · exact stopLoop_quiet r
  · exact Quiet.refl r

theorem closeIfClosing_quiet (r : R) : Quiet r (closeIfClosing r) := by
  unfold closeIfClosing
  split
  · exact stopLoop_quiet r
  · exact Quiet.refl r

theorem closeIdleBelow_quiet (fuel : Nat) {r : R} (t : Tbl r) (id : Nat) : Quiet r (closeIdleBelow fuel r id) := by
  induction fuel generalizing r with
  | zero => exact Quiet.refl r
  | succ n ih =>
    simp only [closeIdleBelow]
    split
    · exact Quiet.refl r
    · rename_i x xs hs
      split
      · have hm : x ∈ r.s.strms := by rw [hs]; exact List.mem_cons_self
        have hle := t.ile x hm
        have q1 := upd_quiet r x.uid (fun s => { s with state := .closed }) fun _ _ _ => ⟨rfl, rfl, rfl⟩
        have q2 := q1.trans (closeStream_quiet (q1.tbl t) x.uid)
        have q3 := q2.trans (writeReset_quiet _ x.id Gen.c_StreamCanceled (Or.inl (by rw [q2.lid]; exact hle)))
        exact q3.trans (ih (q3.tbl t))
      · exact Quiet.refl r

theorem headersPrelude_quiet {r : R} (t : Tbl r) (fr : Frame) : Quiet r (headersPrelude r fr).1 := by
  unfold headersPrelude
  split
  · split
    · split
      · dsimp only; exact writeError_quiet t _ _
      · exact closeIdleBelow_quiet _ (r := r) t _
    · exact closeIdleBelow_quiet _ (r := r) t _
  · exact Quiet.refl r

theorem onFrameError_quiet {r : R} (t : Tbl r) (uid : Nat) (e : Option SErr) : Quiet r (onFrameError r uid e).1 := by
  unfold onFrameError
  split
  · exact Quiet.refl r
  · rename_i e
    have q := (writeError_quiet t uid e).trans (upd_quiet _ uid (fun s => { s with state := .closed }) fun _ _ _ => ⟨rfl, rfl, rfl⟩)
    cases e <;> exact q

theorem dispatch_quiet (r : R) (uid : Nat) (st : Strm) : Quiet r (dispatch r uid st) := by
  unfold dispatch
  exact (upd_quiet r uid (fun s => { s with handlerRunning := true }) fun _ _ _ => ⟨rfl, rfl, rfl⟩).trans
    (emit_quiet _ _ rfl rfl rfl)

theorem applyTableSize_quiet (r : R) (st : Frame.SettingsVal) : Quiet r (applyTableSize r st) := by
  unfold applyTableSize
  quiet_mk
  quiet_fields

theorem contCheck_quiet (r : R) (fr : Frame) : Quiet r (contCheck r fr).1 := by
  have h : ∀ n, Quiet r ({ r with s := { r.s with expectCont := n } } : R) := by
    intro n
    quiet_mk
    quiet_fields
  unfold contCheck
  repeat' split
  all_goals first
    | exact writeGoAway_quiet _ _ _ _
    | exact h _
    | exact Quiet.refl r

theorem handleSettings_quiet (r : R) (st : Frame.SettingsVal) (h : 16384 ≤ st.frameSize) : Quiet r (handleSettings r st) := by
  unfold handleSettings
  quiet_mk
  case pfs => exact Or.inr h
  case sc => simp [Out.dataLen]
  case ss => intro sid; simp [Out.dataOn]
  case cr => simp [Out.credit]
  case ga => simp
  case dz => dz_tac
  quiet_fields

theorem settle_quiet (r : R) : Quiet r (settle r) := by
  unfold settle
  split
  · quiet_mk
    case stop => intro _; rfl
    case sc => simp [Out.dataLen]
    case ss => intro sid; simp [Out.dataOn]
    case cr => simp [Out.credit]
    case ga => simp
    case dz => dz_tac
    quiet_fields
  · exact Quiet.refl r

/-- the frames of a header block (HEADERS, CONTINUATION) move no ledger -/
theorem emits_block_quiet (r : R) (os : List Out) (h : ∀ o ∈ os, o.isBlock = true) : Quiet r (r.emits os) := by
  rw [emits_eq_foldl]
  induction os generalizing r with
  | nil => exact Quiet.refl r
  | cons o os ih =>
    have ho := h o List.mem_cons_self
    have h1 : Quiet r (r.emit o) := by
      cases o <;> first | exact emit_quiet r _ rfl rfl rfl | (simp [Out.isBlock] at ho)
    exact h1.trans (ih (r.emit o) fun x hx => h x (List.mem_cons_of_mem _ hx))

theorem responseHeaders_quiet (r : R) (st : Strm) (resp : Resp) (hb : Bool) : Quiet r (responseHeaders r st resp hb) := by
  unfold responseHeaders
  simp only []
  split
  · refine Quiet.trans ?_ (emits_block_quiet _ _ (blockOuts_isBlock _ _ _ _ _))
    quiet_mk
    quiet_fields
  · refine Quiet.trans ?_ (emits_block_quiet _ _ (blockOuts_isBlock _ _ _ _ _))
    quiet_mk
    quiet_fields

/-! ### `refill` -/

theorem refillRead_key (st : Strm) (bs : BodyStream) :
    (refillRead st bs).uid = st.uid ∧ (refillRead st bs).id = st.id ∧ (refillRead st bs).window = st.window := by
  simp only [refillRead]; split <;> exact ⟨rfl, rfl, rfl⟩

/-- the stream `refill` hands back is the one it was given, as far as uid, id and window go -/
theorem refill_key (r : R) (uid : Nat) (st : Strm) :
    (refill r uid st).2.1.uid = st.uid ∧ (refill r uid st).2.1.id = st.id ∧ (refill r uid st).2.1.window = st.window := by
  rw [refill_eq]
  repeat' split
  all_goals first
    | exact ⟨rfl, rfl, rfl⟩
    | exact refillRead_key _ _

theorem refill_quiet {r : R} (t : Tbl r) (uid : Nat) (st : Strm) (hg : r.getStrm uid = some st) :
    Quiet r (refill r uid st).1 := by
  have hle : st.id ≤ r.s.lastID := t.ile st (List.mem_of_find?_eq_some hg)
  rw [refill_eq]
  split
  · split
    · exact Quiet.refl r
    · rename_i bs _
      have qr := updc_quiet t uid st (refillRead st bs) hg (refillRead_key st bs)
      split
      · have q := updc_quiet t uid st { st with stream := none } hg ⟨rfl, rfl, rfl⟩
        exact q.trans (writeReset_quiet _ _ _ (Or.inl (by rw [q.lid]; exact hle)))
      · split
        · dsimp only
          split
          · exact qr.trans (emit_quiet _ _ rfl rfl rfl)
          · exact qr
        · exact qr
  · exact Quiet.refl r

/-- when `refill` does not end the loop, the stream it hands back is the one now in the table -/
theorem refill_get {r : R} (t : Tbl r) (uid : Nat) (st : Strm) (hg : r.getStrm uid = some st)
    (hc : (refill r uid st).2.2 = false) : (refill r uid st).1.getStrm uid = some (refill r uid st).2.1 := by
  have hu : st.uid = uid := (t.the hg).2.1
  revert hc
  rw [refill_eq]
  split
  · split
    · intro hc; cases hc
    · rename_i bs _
      split
      · intro hc; cases hc
      · split
        · intro hc; cases hc
        · intro _
          exact getStrm_upd r uid (fun _ => refillRead st bs) st (fun _ _ => by rw [(refillRead_key st bs).1, hu]) hg
  · intro _; exact hg

/-! ## Part 2 — the invariant

`O`, `F`: the outputs written and the frames forwarded to the stream loop BEFORE the current step; `r.out`: the outputs
of the current step so far. `F` already contains the frame being handled once its effect on the windows is in the
state (the model appends to `r.fwd` when the stream loop takes the frame, the ledgers move a little later). -/

/-- the send-side ledger -/
structure LedA (O : List Out) (F : List Frame) (r : R) : Prop where
  /-- connection: window + octets sent = 65 535 + connection WINDOW_UPDATEs forwarded -/
  conn : r.s.clientWindow + (sentC (O ++ r.out) : Int) = (Gen.c_defaultWindowSize : Nat) + (grantC F : Int)
  cpos : 0 ≤ r.s.clientWindow
  /-- the initial window new streams start with is the peer's SETTINGS_INITIAL_WINDOW_SIZE in force -/
  cur : r.s.curInitWin = initWin F
  /-- streams of the table: window + octets sent on it = initial window in force + WINDOW_UPDATEs forwarded on it -/
  led : r.s.slStopped = false → ∀ st ∈ r.s.strms,
    st.window + (sentS st.id (O ++ r.out) : Int) = r.s.curInitWin + (wuS st.id F : Int)
  /-- ids that can still be opened have no WINDOW_UPDATE behind them … -/
  fresh : r.s.slStopped = false → ∀ sid, r.s.lastID < sid → r.s.lastRefused < sid → wuS sid F = 0
  /-- … and no DATA -/
  nosent : ∀ sid, r.s.lastID < sid → sentS sid (O ++ r.out) = 0

/-- the receive-side ledger of the connection -/
structure LedB (O : List Out) (F : List Frame) (r : R) : Prop where
  /-- window + DATA octets forwarded = 4 MiB + credit handed back + octets of the DATA frames answered with a
  connection error (none as long as no GOAWAY has been written) -/
  bal : ∃ lost : Nat, r.s.recvWin + (dataFwd F : Int) =
      (Gen.c_serverMaxWindow : Nat) + (cred0 (O ++ r.out) : Int) + (lost : Int) ∧
    (cnt .goAway (O ++ r.out) = 0 → lost = 0)
  lo : ((Gen.c_serverMaxWindow : Nat) : Int) / 2 ≤ r.s.recvWin
  hi : r.s.recvWin ≤ ((Gen.c_serverMaxWindow : Nat) : Int)

structure FI (O : List Out) (F : List Frame) (r : R) : Prop where
  t : Tbl r
  a : LedA O F r
  b : LedB O F r
  /-- the peer's SETTINGS_MAX_FRAME_SIZE as stored: unset, or at least 16 384; and no DATA frame written so far
  carries more than 16 384 octets, no WINDOW_UPDATE an increment of 0 -/
  p : (r.s.peerFrameSize = 0 ∨ 16384 ≤ r.s.peerFrameSize) ∧ ∀ o ∈ O ++ r.out, o.bad = false

section
variable {O : List Out} {F : List Frame} {r r' : R}

theorem LedA.quiet (h : LedA O F r) (q : Quiet r r') : LedA O F r' where
  conn := by
    have := h.conn
    simp only [sentC_append] at this ⊢
    rw [q.cw, q.sc]; exact this
  cpos := by rw [q.cw]; exact h.cpos
  cur := by rw [q.cur]; exact h.cur
  led := fun hs st' hm => by
    have hs0 : r.s.slStopped = false := by
      cases hc : r.s.slStopped with
      | false => rfl
      | true => rw [q.stop hc] at hs; cases hs
    obtain ⟨st, hst, _, hi, hw⟩ := q.was hm
    have := h.led hs0 st hst
    simp only [sentS_append] at this ⊢
    rw [q.cur, q.ss, ← hi, ← hw]; exact this
  fresh := fun hs sid h1 h2 => by
    have hs0 : r.s.slStopped = false := by
      cases hc : r.s.slStopped with
      | false => rfl
      | true => rw [q.stop hc] at hs; cases hs
    rw [q.lid] at h1; rw [q.lref] at h2
    exact h.fresh hs0 sid h1 h2
  nosent := fun sid h1 => by
    rw [q.lid] at h1
    have := h.nosent sid h1
    simp only [sentS_append] at this ⊢
    rw [q.ss]; exact this

theorem LedB.quiet (h : LedB O F r) (q : Quiet r r') : LedB O F r' where
  bal := by
    obtain ⟨lost, h1, h2⟩ := h.bal
    refine ⟨lost, ?_, ?_⟩
    · simp only [cred0_append] at h1 ⊢
      rw [q.rw, q.cr]; exact h1
    · intro hz
      apply h2
      have := q.ga
      simp only [cnt_append] at hz ⊢
      omega
  lo := by rw [q.rw]; exact h.lo
  hi := by rw [q.rw]; exact h.hi

theorem FI.quiet (h : FI O F r) (q : Quiet r r') : FI O F r' where
  t := q.tbl h.t
  a := h.a.quiet q
  b := h.b.quiet q
  p := by
    refine ⟨?_, ?_⟩
    · rcases q.pfs with e | e
      · rw [e]; exact h.p.1
      · exact Or.inr e
    · intro o ho
      rcases List.mem_append.mp ho with ho | ho
      · exact h.p.2 o (List.mem_append_left _ ho)
      · rcases q.dz o ho with ho | ho
        · exact h.p.2 o (List.mem_append_right _ ho)
        · exact ho

/-- a forwarded frame that grants nothing leaves the send ledger alone -/
theorem LedA.frame (h : LedA O F r) (fr : Frame) (hc : connInc fr = 0) (hi : ∀ w, initStep w fr = w)
    (hs : ∀ sid, strmInc sid fr = 0) : LedA O (F ++ [fr]) r where
  conn := by simpa [hc] using h.conn
  cpos := h.cpos
  cur := by rw [initWin_snoc, hi]; exact h.cur
  led := fun hst st hm => by simpa [hs] using h.led hst st hm
  fresh := fun hst sid h1 h2 => by simpa [hs] using h.fresh hst sid h1 h2
  nosent := h.nosent

theorem connInc_stream {fr : Frame} (h : fr.stream ≠ 0) : connInc fr = 0 := by simp [connInc, h]
theorem initStep_stream {fr : Frame} (h : fr.stream ≠ 0) (w : Int) : initStep w fr = w := by simp [initStep, h]
theorem strmInc_typ {fr : Frame} (h : fr.typ ≠ Gen.c_FrameWindowUpdate) (sid : Nat) : strmInc sid fr = 0 := by
  simp [strmInc, h]
theorem strmInc_other {fr : Frame} {sid : Nat} (h : fr.stream ≠ sid) : strmInc sid fr = 0 := by
  simp [strmInc, h]
theorem dataInc_typ {fr : Frame} (h : fr.typ ≠ Gen.c_FrameData) : dataInc fr = 0 := by simp [dataInc, h]

/-- a frame on a stream that is not a WINDOW_UPDATE -/
theorem LedA.frame_stream (h : LedA O F r) (fr : Frame) (h0 : fr.stream ≠ 0) (ht : fr.typ ≠ Gen.c_FrameWindowUpdate) :
    LedA O (F ++ [fr]) r :=
  h.frame fr (connInc_stream h0) (initStep_stream h0) (strmInc_typ ht)

/-- once the stream loop has stopped, a frame on a stream cannot disturb what is left of the send ledger -/
theorem LedA.frame_stopped (h : LedA O F r) (fr : Frame) (h0 : fr.stream ≠ 0) (hst : r.s.slStopped = true) :
    LedA O (F ++ [fr]) r where
  conn := by simpa [connInc_stream h0] using h.conn
  cpos := h.cpos
  cur := by rw [initWin_snoc, initStep_stream h0]; exact h.cur
  led := fun hc => by rw [hst] at hc; cases hc
  fresh := fun hc => by rw [hst] at hc; cases hc
  nosent := h.nosent

theorem LedB.frame (h : LedB O F r) (fr : Frame) (hd : dataInc fr = 0) : LedB O (F ++ [fr]) r where
  bal := by simpa [hd] using h.bal
  lo := h.lo
  hi := h.hi

/-- after a GOAWAY the octets of a frame may go unaccounted -/
theorem LedB.lost (h : LedB O F r) (fr : Frame) (hga : 0 < cnt .goAway (O ++ r.out)) : LedB O (F ++ [fr]) r where
  bal := by
    obtain ⟨lost, h1, _⟩ := h.bal
    refine ⟨lost + dataInc fr, ?_, fun hz => by omega⟩
    simp only [dataFwd_append, dataFwd_single]
    omega
  lo := h.lo
  hi := h.hi

end

/-! ### sending DATA -/

section
variable {O : List Out} {F : List Frame} {r : R}

/-- the table after a map that keeps uids and ids -/
theorem Tbl.map (t : Tbl r) (g : Strm → Strm) (hg : ∀ x, (g x).uid = x.uid ∧ (g x).id = x.id) (r' : R)
    (hs : r'.s.strms = r.s.strms.map g) (h1 : r'.s.lastID = r.s.lastID) (h2 : r'.s.nextUid = r.s.nextUid)
    (h3 : r'.s.ring = r.s.ring) (h4 : r'.s.resetByUs = r.s.resetByUs) (h5 : r'.s.lastRefused = r.s.lastRefused) : Tbl r' where
  un := by
    rw [hs, List.map_map]
    have : ((fun x : Strm => x.uid) ∘ g) = fun x => x.uid := by funext x; exact (hg x).1
    rw [this]; exact t.un
  idn := by
    rw [hs, List.map_map]
    have : ((fun x : Strm => x.id) ∘ g) = fun x => x.id := by funext x; exact (hg x).2
    rw [this]; exact t.idn
  ile := fun st hm => by
    rw [hs] at hm
    obtain ⟨x, hx, rfl⟩ := List.mem_map.mp hm
    rw [h1, (hg x).2]; exact t.ile x hx
  ult := fun st hm => by
    rw [hs] at hm
    obtain ⟨x, hx, rfl⟩ := List.mem_map.mp hm
    rw [h2, (hg x).1]; exact t.ult x hx
  id0 := fun st hm => by
    rw [hs] at hm
    obtain ⟨x, hx, rfl⟩ := List.mem_map.mp hm
    rw [(hg x).2]; exact t.id0 x hx
  ringle := by rw [h3, h1]; exact t.ringle
  rstle := by rw [h4, h1, h5]; exact t.rstle

/-- **one DATA frame**: the invariant survives a frame of `step` octets on the stream `getStrm uid` returns, provided
`step` does not exceed the connection window -/
theorem sendFrame_fi (h : FI O F r) (uid : Nat) (st : Strm) (step : Nat) (hg : r.getStrm uid = some st)
    (hstep : (step : Int) ≤ r.s.clientWindow) (hsm : step ≤ 16384) : FI O F (sendFrame r uid st step).1 := by
  obtain ⟨hm, hu, huu, hii⟩ := h.t.the hg
  have hout : ∃ es d, (sendFrame r uid st step).1.out = r.out ++ [.data st.id es step d] := ⟨_, _, rfl⟩
  obtain ⟨es, d, hout⟩ := hout
  have hstr : (sendFrame r uid st step).1.s.strms = r.s.strms.map (fun s => if s.uid == uid then
      { s with pendOff := s.pendOff + step, pendLen := st.pendLen - step, window := s.window - step } else s) := rfl
  have hcw : (sendFrame r uid st step).1.s.clientWindow = r.s.clientWindow - step := rfl
  constructor
  · refine h.t.map _ ?_ _ hstr rfl rfl rfl rfl rfl
    intro x; split <;> exact ⟨rfl, rfl⟩
  · constructor
    · have := h.a.conn
      rw [hcw, hout]
      simp only [sentC_append, sentC_single, Out.dataLen] at this ⊢
      omega
    · rw [hcw]; omega
    · exact h.a.cur
    · intro hs st' hm'
      rw [hstr] at hm'
      obtain ⟨x, hx, rfl⟩ := List.mem_map.mp hm'
      have hx0 := h.a.led hs x hx
      rw [hout]
      show _ = r.s.curInitWin + _
      by_cases hxu : x.uid = uid
      · have := huu x hx hxu
        subst this
        simp only [hxu, beq_self_eq_true, if_true]
        simp only [sentS_append, sentS_single, Out.dataOn, if_true] at hx0 ⊢
        omega
      · have hne : st.id ≠ x.id := fun e => hxu (by rw [hii x hx e.symm]; exact hu)
        simp only [hxu, beq_iff_eq, if_false]
        simp only [sentS_append, sentS_single, Out.dataOn, hne, if_false] at hx0 ⊢
        omega
    · exact h.a.fresh
    · intro sid hl
      have hl : r.s.lastID < sid := hl
      have := h.a.nosent sid hl
      have hne : st.id ≠ sid := by have := h.t.ile st hm; omega
      rw [hout]
      simp only [sentS_append, sentS_single, Out.dataOn, hne, if_false] at this ⊢
      omega
  · constructor
    · obtain ⟨lost, h1, h2⟩ := h.b.bal
      refine ⟨lost, ?_, ?_⟩
      · rw [hout]
        simp only [cred0_append, cred0_single, Out.credit] at h1 ⊢
        exact h1
      · rw [hout]
        intro hz; apply h2
        simp only [cnt_append, cnt_single, Out.kind] at hz ⊢
        simpa using hz
    · exact h.b.lo
    · exact h.b.hi
  · refine ⟨h.p.1, ?_⟩
    rw [hout]
    intro o ho
    rw [← List.append_assoc] at ho
    rcases List.mem_append.mp ho with ho | ho
    · exact h.p.2 o ho
    · simp only [List.mem_singleton] at ho; subst ho
      simp only [Out.bad, decide_eq_false_iff_not]; omega

theorem sendDataFuel_fi (fuel : Nat) (uid : Nat) (h : FI O F r) : FI O F (sendDataFuel fuel r uid).1 := by
  induction fuel generalizing r with
  | zero => exact h
  | succ n ih =>
    rw [sendDataFuel_succ]
    split
    · exact h
    · rename_i st0 hg
      have q := refill_quiet h.t uid st0 hg
      have h1 := h.quiet q
      split
      · exact h1.quiet (closeBody_quiet _ _)
      · rename_i hx
        have hg1 := refill_get h.t uid st0 hg (by simpa using hx)
        split
        · exact h1
        · rename_i hav
          have hstep : ((min (min Gen.c_maxDataFrameSize (availOf (refill r uid st0).1 (refill r uid st0).2.1).toNat)
              (refill r uid st0).2.1.pendLen : Nat) : Int) ≤ (refill r uid st0).1.s.clientWindow := by
            have : availOf (refill r uid st0).1 (refill r uid st0).2.1 ≤ (refill r uid st0).1.s.clientWindow := by
              unfold availOf; split <;> omega
            omega
          have h2 := sendFrame_fi h1 uid _ _ hg1 hstep (by have : Gen.c_maxDataFrameSize = 16384 := rfl; omega)
          split
          · exact h2.quiet (closeBody_quiet _ _)
          · exact ih h2

theorem sendData_fi (uid : Nat) (h : FI O F r) : FI O F (sendData r uid).1 := by
  simp only [sendData]
  split
  · exact h
  · exact sendDataFuel_fi _ _ h

theorem flushOne_fi (acc : R × List Nat) (uid : Nat) (h : FI O F acc.1) : FI O F (flushOne acc uid).1 := by
  simp only [flushOne]
  repeat' split
  all_goals first | exact h | exact sendData_fi _ h

theorem flushStreams_fi (h : FI O F r) : FI O F (flushStreams r) := by
  simp only [flushStreams]
  have h1 : FI O F ((r.s.strms.map (·.uid)).foldl flushOne (r, [])).1 :=
    foldl_inv (fun acc : R × List Nat => FI O F acc.1) flushOne (fun b a hb => flushOne_fi b a hb) _ _ h
  exact foldl_inv (fun x : R => FI O F x) closeDone (fun b a hb => hb.quiet (closeDone_quiet hb.t a)) _ _ h1

theorem finishRequest_fi (uid : Nat) (resp : Resp) (h : FI O F r) : FI O F (finishRequest r uid resp).1 := by
  simp only [finishRequest]
  split
  · exact h
  · have h1 : ∀ st resp hb, FI O F (responseHeaders r st resp hb) := fun st resp hb => h.quiet (responseHeaders_quiet r st resp hb)
    repeat' split
    all_goals first
      | exact h1 _ _ _
      | exact sendData_fi _ ((h1 _ _ _).quiet (upd_quiet _ _ _ fun _ _ _ => ⟨rfl, rfl, rfl⟩))

theorem dispatchOrSend_fi (uid : Nat) (st : Strm) (hle : st.id ≤ r.s.lastID) (h : FI O F r) :
    FI O F (dispatchOrSend r uid st) := by
  simp only [dispatchOrSend]
  split
  · have q := upd_quiet r uid (fun s => { s with responded := true }) fun _ _ _ => ⟨rfl, rfl, rfl⟩
    split
    · exact h.quiet ((q.trans (writeReset_quiet _ _ _ (Or.inl (by rw [q.lid]; exact hle)))).trans
        (upd_quiet _ _ _ fun _ _ _ => ⟨rfl, rfl, rfl⟩))
    · exact h.quiet (q.trans (dispatch_quiet _ _ _))
  · split
    · split
      · exact (sendData_fi uid h).quiet (upd_quiet _ _ _ fun _ _ _ => ⟨rfl, rfl, rfl⟩)
      · exact sendData_fi uid h
    · exact h

end

/-! ### charging received DATA to the connection window -/

/-- the shape of everything `consumeConnWindow` does: a new `recvWin`, some outputs appended -/
def setRecv (r : R) (w : Int) (l : List Out) : R := { r with s := { r.s with recvWin := w }, out := r.out ++ l }

theorem consumeConnWindow_eq (r : R) (n : Nat) :
    consumeConnWindow r n =
      if n == 0 then r
      else if r.s.recvWin - n < (Gen.c_serverMaxWindow : Int) / 2 then
        setRecv r Gen.c_serverMaxWindow [.wu 0 ((Gen.c_serverMaxWindow : Int) - (r.s.recvWin - n)).toNat]
      else setRecv r (r.s.recvWin - n) [] := by
  unfold consumeConnWindow setRecv
  split
  · rfl
  · dsimp only
    split
    · rfl
    · simp

section
variable {O : List Out} {F : List Frame} {r : R}

theorem setRecv_fi (h : FI O F r) (w : Int) (l : List Out) (F' : List Frame)
    (h1 : sentC l = 0) (h2 : ∀ sid, sentS sid l = 0) (h3 : cnt .goAway l = 0) (h4 : ∀ o ∈ l, o.bad = false) (hA : LedA O F' r)
    (hbal : w + (dataFwd F' : Int) = r.s.recvWin + (dataFwd F : Int) + (cred0 l : Int))
    (hlo : ((Gen.c_serverMaxWindow : Nat) : Int) / 2 ≤ w) (hhi : w ≤ ((Gen.c_serverMaxWindow : Nat) : Int)) :
    FI O F' (setRecv r w l) where
  t := h.t.map id (fun _ => ⟨rfl, rfl⟩) _ (by simp [setRecv]) rfl rfl rfl rfl rfl
  a := {
    conn := by
      have := hA.conn
      simp only [setRecv, sentC_append, h1] at this ⊢
      omega
    cpos := hA.cpos
    cur := hA.cur
    led := fun hs st hm => by
      have := hA.led hs st hm
      simp only [setRecv, sentS_append, h2] at this ⊢
      omega
    fresh := hA.fresh
    nosent := fun sid hl => by
      have := hA.nosent sid hl
      simp only [setRecv, sentS_append, h2] at this ⊢
      omega }
  b := {
    bal := by
      obtain ⟨lost, e1, e2⟩ := h.b.bal
      refine ⟨lost, ?_, ?_⟩
      · simp only [setRecv, cred0_append] at e1 ⊢
        omega
      · intro hz; apply e2
        simp only [setRecv, cnt_append, h3] at hz ⊢
        omega
    lo := hlo
    hi := hhi }
  p := by
    refine ⟨h.p.1, ?_⟩
    intro o ho
    simp only [setRecv, ← List.append_assoc] at ho
    rcases List.mem_append.mp ho with ho | ho
    · exact h.p.2 o ho
    · exact h4 o ho

/-- **a DATA frame charged to the connection window** (`consumeConnWindow`): the invariant moves on to the frame list
with that frame -/
theorem consumeConn_fi (h : FI O F r) (fr : Frame) (h0 : fr.stream ≠ 0) (ht : fr.typ = Gen.c_FrameData) :
    FI O (F ++ [fr]) (consumeConnWindow r fr.length) := by
  have hA : LedA O (F ++ [fr]) r := h.a.frame_stream fr h0 (by rw [ht]; decide)
  have hd : dataFwd (F ++ [fr]) = dataFwd F + fr.length := by simp [dataInc, h0, ht]
  have hlo := h.b.lo
  have hhi := h.b.hi
  rw [consumeConnWindow_eq]
  split
  · rename_i hz
    have hz : fr.length = 0 := by simpa using hz
    exact ⟨h.t, hA, (h.b.frame fr (by simp [dataInc, hz])), h.p⟩
  · split
    · refine setRecv_fi h _ _ _ (by simp [Out.dataLen]) (by intro sid; simp [Out.dataOn]) (by simp [Out.kind])
        (by intro o ho; simp only [List.mem_singleton] at ho; subst ho
            simp only [Out.bad, beq_eq_false_iff_ne, ne_eq]; omega) hA ?_ ?_ ?_
      · rw [hd]; simp only [cred0_single, Out.credit, if_true]; omega
      · omega
      · omega
    · refine setRecv_fi h _ _ _ rfl (fun _ => rfl) rfl (by intro o ho; cases ho) hA ?_ ?_ ?_
      · rw [hd]; simp only [cred0_nil]; omega
      · omega
      · omega

theorem consumeRecv_fi (h : FI O F r) (fr : Frame) (h0 : fr.stream ≠ 0) (ht : fr.typ = Gen.c_FrameData) (st : Strm)
    (hid : st.id ≠ 0) : FI O (F ++ [fr]) (consumeRecvWindow r st fr fr.length) := by
  unfold consumeRecvWindow
  split
  · rename_i hz
    have hz : fr.length = 0 := by simpa using hz
    exact ⟨h.t, h.a.frame_stream fr h0 (by rw [ht]; decide), (h.b.frame fr (by simp [dataInc, hz])), h.p⟩
  · split
    · exact consumeConn_fi (h.quiet (emit_quiet r _ rfl (by simp [Out.credit, hid]) (by rename_i hz _; simpa [Out.bad] using hz))) fr h0 ht
    · exact consumeConn_fi h fr h0 ht

end

/-! ### request header blocks change the decoder only -/

def Strm.key (st : Strm) : Nat × Nat × Int := (st.uid, st.id, st.window)

theorem fieldUpdate_key (st : Strm) (f : Hpack.Field) : (fieldUpdate st f).key = st.key := by
  simp only [fieldUpdate]
  repeat' split
  all_goals rfl

theorem fieldLoop_srv (fuel : Nat) (s : Srv) (st : Strm) (bs eh : Bool) (fp : Nat) (b : Bytes) :
    (∃ d, (fieldLoop fuel s st bs eh fp b).1 = { s with dec := d }) ∧ (fieldLoop fuel s st bs eh fp b).2.1.key = st.key := by
  induction fuel generalizing s st fp b with
  | zero => exact ⟨⟨s.dec, rfl⟩, rfl⟩
  | succ n ih =>
    cases b with
    | nil => exact ⟨⟨s.dec, rfl⟩, rfl⟩
    | cons c cs =>
      simp only [fieldLoop]
      repeat' split
      all_goals first
        | exact ⟨⟨_, rfl⟩, rfl⟩
        | exact ⟨⟨_, rfl⟩, fieldUpdate_key _ _⟩
        | (rename_i dec fo rest _ _ _
           have := ih { s with dec := dec } (fieldStep s.cfg { st with fieldSeen := true } fo).1 (fp + 1) rest
           obtain ⟨⟨d, hd⟩, hk⟩ := this
           refine ⟨⟨d, by rw [hd]⟩, ?_⟩
           rw [hk]
           simp only [fieldStep]
           exact fieldUpdate_key _ _)

theorem handleHeaderFrame_srv (s : Srv) (st : Strm) (fr : Frame) :
    (∃ d, (handleHeaderFrame s st fr).1 = { s with dec := d }) ∧ (handleHeaderFrame s st fr).2.1.key = st.key := by
  simp only [handleHeaderFrame]
  repeat' split
  all_goals first
    | exact ⟨⟨_, rfl⟩, rfl⟩
    | (refine ⟨(fieldLoop_srv ..).1, ?_⟩
       rw [(fieldLoop_srv ..).2]; try rfl)

theorem dec_quiet (r : R) (d : Hpack.DecState) : Quiet r ({ r with s := { r.s with dec := d } } : R) := by
  quiet_mk
  quiet_fields

/-! ### a frame for a stream of the table -/

/-- `uid` is the stream of the table that carries the id of the frame, if any does -/
structure Owns (r : R) (uid : Nat) (fr : Frame) : Prop where
  le : fr.stream ≤ r.s.lastID
  byId : ∀ st ∈ r.s.strms, st.id = fr.stream → st.uid = uid
  byUid : ∀ st ∈ r.s.strms, st.uid = uid → st.id = fr.stream

theorem Owns.quiet {r r' : R} {uid : Nat} {fr : Frame} (o : Owns r uid fr) (q : Quiet r r') : Owns r' uid fr where
  le := by rw [q.lid]; exact o.le
  byId := fun st' hm hi => by
    obtain ⟨st, hs, hu, hi', _⟩ := q.was hm
    rw [← hu]; exact o.byId st hs (by rw [hi', hi])
  byUid := fun st' hm hu => by
    obtain ⟨st, hs, hu', hi', _⟩ := q.was hm
    rw [← hi']; exact o.byUid st hs (by rw [hu', hu])

theorem verifyState_err {st : Strm} {fr : Frame} {e : SErr} (h : verifyState st fr = some e) :
    ∃ code tag, e = .goAway code tag ∧ code ≠ Gen.c_NoError := by
  unfold verifyState at h
  repeat' split at h
  all_goals first
    | (cases h; exact ⟨_, _, rfl, by decide⟩)
    | cases h

section
variable {O : List Out} {F : List Frame} {r : R}

/-- a frame on a stream that is neither DATA nor WINDOW_UPDATE moves no ledger -/
theorem FI.frame_plain (h : FI O F r) (fr : Frame) (h0 : fr.stream ≠ 0) (h1 : fr.typ ≠ Gen.c_FrameWindowUpdate)
    (h2 : fr.typ ≠ Gen.c_FrameData) : FI O (F ++ [fr]) r :=
  ⟨h.t, h.a.frame_stream fr h0 h1, h.b.frame fr (dataInc_typ h2), h.p⟩

/-- a frame that is not DATA, on a stream id that is not in the table and can no longer be opened -/
theorem FI.frame_absent (h : FI O F r) (fr : Frame) (h0 : fr.stream ≠ 0) (habs : ∀ st ∈ r.s.strms, st.id ≠ fr.stream)
    (hle : fr.stream ≤ r.s.lastID ∨ fr.stream ≤ r.s.lastRefused) (h2 : fr.typ ≠ Gen.c_FrameData) :
    FI O (F ++ [fr]) r := by
  refine ⟨h.t, ?_, h.b.frame fr (dataInc_typ h2), h.p⟩
  constructor
  · simpa [connInc_stream h0] using h.a.conn
  · exact h.a.cpos
  · rw [initWin_snoc, initStep_stream h0]; exact h.a.cur
  · intro hs st hm
    have := h.a.led hs st hm
    have hz : strmInc st.id fr = 0 := strmInc_other (fun e => habs st hm e.symm)
    simpa [hz] using this
  · intro hs sid h1 h2
    have hz : strmInc sid fr = 0 := strmInc_other (by omega)
    simpa [hz] using h.a.fresh hs sid h1 h2
  · exact h.a.nosent

/-- after a connection error the stream loop is stopped and a GOAWAY is out: the frame that caused it is filed -/
theorem FI.frame_dead (h : FI O F r) (fr : Frame) (h0 : fr.stream ≠ 0) (hst : r.s.slStopped = true)
    (hga : 0 < cnt .goAway (O ++ r.out)) : FI O (F ++ [fr]) r :=
  ⟨h.t, h.a.frame_stopped fr h0 hst, h.b.lost fr hga, h.p⟩

/-- **WINDOW_UPDATE on a stream of the table**: its window goes up by the increment -/
theorem wu_fi (h : FI O F r) (uid : Nat) (st : Strm) (fr : Frame) (hg : r.getStrm uid = some st) (h0 : fr.stream ≠ 0)
    (ht : fr.typ = Gen.c_FrameWindowUpdate) (ow : Owns r uid fr) (inc : Nat)
    (hinc : inc = (match fr.body with | .windowUpdate n => n | _ => 0)) :
    FI O (F ++ [fr]) (r.updStrm uid fun s => { s with window := st.window + inc }) := by
  obtain ⟨hm, hu, huu, hii⟩ := h.t.the hg
  have hsid : st.id = fr.stream := ow.byUid st hm hu
  have hmine : strmInc st.id fr = inc := by
    simp only [strmInc, hsid, ht, hinc]
    simp [h0]
  have hstr : (r.updStrm uid fun s => { s with window := st.window + inc }).s.strms =
      r.s.strms.map (fun s => if s.uid == uid then { s with window := st.window + inc } else s) := rfl
  have hb := h.b.frame fr (dataInc_typ (by rw [ht]; decide))
  refine ⟨?_, ?_, ⟨hb.bal, hb.lo, hb.hi⟩, h.p⟩
  · refine h.t.map _ ?_ _ hstr rfl rfl rfl rfl rfl
    intro x; split <;> exact ⟨rfl, rfl⟩
  · constructor
    · show r.s.clientWindow + (sentC (O ++ r.out) : Int) = _
      simpa [connInc_stream h0] using h.a.conn
    · exact h.a.cpos
    · rw [initWin_snoc, initStep_stream h0]; exact h.a.cur
    · intro hs st' hm'
      rw [hstr] at hm'
      obtain ⟨x, hx, rfl⟩ := List.mem_map.mp hm'
      have hx0 := h.a.led hs x hx
      show _ + (sentS _ (O ++ r.out) : Int) = r.s.curInitWin + _
      by_cases hxu : x.uid = uid
      · have := huu x hx hxu
        subst this
        simp only [hxu, beq_self_eq_true, if_true, wuS_append, wuS_single, hmine]
        omega
      · have hne : fr.stream ≠ x.id := fun e => hxu (ow.byId x hx e.symm)
        simp only [hxu, beq_iff_eq, if_false, wuS_append, wuS_single, strmInc_other hne]
        omega
    · intro hs sid h1 h2
      have h1 : r.s.lastID < sid := h1
      have hz : strmInc sid fr = 0 := strmInc_other (by have := ow.le; omega)
      simpa [hz] using h.a.fresh hs sid h1 h2
    · exact h.a.nosent

end

/-! ### `handleFrame`, `unknownStream`, `knownStream`, `slStreamFrame` -/

/-- the HEADERS / CONTINUATION branch of `handleFrame` -/
def hfHeaders (r : R) (uid : Nat) (st : Strm) (fr : Frame) : R × Option SErr :=
  if st.state.rank ≥ StState.halfClosed.rank && !continuingHeaders st fr then
    (r, some (.goAway Gen.c_ProtocolError "received headers on a finished stream"))
  else
    let x := handleHeaderFrame r.s st fr
    let r := ({ r with s := x.1 }).updStrm uid fun _ => x.2.1
    match x.2.2 with
    | some e => (r, some e)
    | none =>
      if Frame.hasFlag fr.flags Gen.c_FlagEndHeaders then
        let fin := x.2.1.prevHdr.isEmpty
        let r := r.updStrm uid fun s => { s with headersFinished := fin }
        if !fin then (r, some (.goAway Gen.c_ProtocolError "END_HEADERS received on an incomplete stream"))
        else (r, validatePseudo x.2.1)
      else (r, none)

def dataOf (fr : Frame) : Bytes := match fr.body with | .data _ b => b | _ => []

/-- the DATA branch -/
def hfData (r : R) (uid : Nat) (st : Strm) (fr : Frame) : R × Option SErr :=
  if !st.headersFinished then (r, some (.goAway Gen.c_ProtocolError "stream didn't end the headers"))
  else if st.state.rank ≥ StState.halfClosed.rank then (r, some (.goAway Gen.c_StreamClosedError "stream closed"))
  else
    let d : Bytes := dataOf fr
    let st' := { st with recvBody := st.recvBody + d.length }
    let r := r.updStrm uid fun _ => st'
    if r.s.cfg.maxBody > 0 && st'.recvBody > r.s.cfg.maxBody then (consumeConnWindow r fr.length, some (.reset Gen.c_EnhanceYourCalm))
    else
      let r := r.updStrm uid fun s => { s with body := s.body.add d }
      (consumeRecvWindow r st' fr fr.length, none)

def wuOf (fr : Frame) : Nat := match fr.body with | .windowUpdate n => n | _ => 0

/-- the WINDOW_UPDATE branch -/
def hfWU (r : R) (uid : Nat) (st : Strm) (fr : Frame) : R × Option SErr :=
  if st.state == .idle then (r, some (.goAway Gen.c_ProtocolError "window update on idle stream"))
  else
    let inc : Nat := wuOf fr
    if inc == 0 then (r, some (.goAway Gen.c_ProtocolError "window increment of 0"))
    else
      let w := st.window + inc
      let r := r.updStrm uid fun s => { s with window := w }
      if w > 2 ^ 31 - 1 then (r, some (.reset Gen.c_FlowControlError)) else (r, none)

theorem handleFrame_eq (r : R) (uid : Nat) (fr : Frame) :
    handleFrame r uid fr =
      match r.getStrm uid with
      | none => (r, none)
      | some st =>
        match verifyState st fr with
        | some e => (r, some e)
        | none =>
          if fr.typ == Gen.c_FrameHeaders || fr.typ == Gen.c_FrameContinuation then hfHeaders r uid st fr
          else if fr.typ == Gen.c_FrameData then hfData r uid st fr
          else if fr.typ == Gen.c_FrameResetStream then
            if st.state == .idle then (r, some (.goAway Gen.c_ProtocolError "RST_STREAM on idle stream")) else (r, none)
          else if fr.typ == Gen.c_FramePriority then
            if st.state != .idle && !st.headersFinished then (r, some (.goAway Gen.c_ProtocolError "frame priority on an open stream"))
            else if (match fr.body with | .priority dep _ => dep == st.id | _ => false) then
              (r, some (.goAway Gen.c_ProtocolError "stream that depends on itself"))
            else (r, none)
          else if fr.typ == Gen.c_FrameWindowUpdate then hfWU r uid st fr
          else (r, some (.goAway Gen.c_ProtocolError "invalid frame")) := by
  rfl
section
variable {O : List Out} {F : List Frame} {r : R}

theorem hhf_quiet (t : Tbl r) (uid : Nat) (st : Strm) (fr : Frame) (hg : r.getStrm uid = some st) :
    Quiet r (({ r with s := (handleHeaderFrame r.s st fr).1 } : R).updStrm uid fun _ => (handleHeaderFrame r.s st fr).2.1) := by
  obtain ⟨⟨d, hd⟩, hk⟩ := handleHeaderFrame_srv r.s st fr
  rw [hd]
  have q := dec_quiet r d
  refine q.trans (updc_quiet (q.tbl t) uid st _ hg ?_)
  simp only [Strm.key, Prod.mk.injEq] at hk
  exact hk

theorem hfHeaders_quiet (t : Tbl r) (uid : Nat) (st : Strm) (fr : Frame) (hg : r.getStrm uid = some st) :
    Quiet r (hfHeaders r uid st fr).1 := by
  have q := hhf_quiet t uid st fr hg
  unfold hfHeaders
  split
  · exact Quiet.refl r
  dsimp only
  repeat' split
  all_goals first
    | exact Quiet.refl r
    | exact q
    | exact q.trans (upd_quiet _ _ _ fun _ _ _ => ⟨rfl, rfl, rfl⟩)

/-- the outcomes of handling a frame for the stream `uid`: a connection error that leaves the state alone (the loop
will stop), or the invariant for the frame list with that frame -/
def FrameDone (O : List Out) (F : List Frame) (r : R) (uid : Nat) (fr : Frame) (x : R × Option SErr) : Prop :=
  (∃ code tag st, x.2 = some (.goAway code tag) ∧ code ≠ Gen.c_NoError ∧ x.1 = r ∧ r.getStrm uid = some st) ∨
    FI O (F ++ [fr]) x.1

theorem hfData_fi (h : FI O F r) (uid : Nat) (st : Strm) (fr : Frame) (hg : r.getStrm uid = some st) (h0 : fr.stream ≠ 0)
    (ht : fr.typ = Gen.c_FrameData) : FrameDone O F r uid fr (hfData r uid st fr) := by
  have hid : st.id ≠ 0 := h.t.id0 st (h.t.the hg).1
  unfold hfData
  split
  · exact Or.inl ⟨_, _, st, rfl, by decide, rfl, hg⟩
  · split
    · exact Or.inl ⟨_, _, st, rfl, by decide, rfl, hg⟩
    · right
      have q1 := updc_quiet h.t uid st { st with recvBody := st.recvBody + (dataOf fr).length } hg ⟨rfl, rfl, rfl⟩
      dsimp only
      split
      · exact consumeConn_fi (h.quiet q1) fr h0 ht
      · have q2 := q1.trans (upd_quiet _ uid (fun s => { s with body := s.body.add (dataOf fr) }) fun _ _ _ => ⟨rfl, rfl, rfl⟩)
        exact consumeRecv_fi (h.quiet q2) fr h0 ht { st with recvBody := st.recvBody + (dataOf fr).length } hid

theorem hfWU_fi (h : FI O F r) (uid : Nat) (st : Strm) (fr : Frame) (hg : r.getStrm uid = some st) (h0 : fr.stream ≠ 0)
    (ht : fr.typ = Gen.c_FrameWindowUpdate) (ow : Owns r uid fr) : FrameDone O F r uid fr (hfWU r uid st fr) := by
  unfold hfWU
  split
  · exact Or.inl ⟨_, _, st, rfl, by decide, rfl, hg⟩
  · dsimp only
    split
    · exact Or.inl ⟨_, _, st, rfl, by decide, rfl, hg⟩
    · right
      have := wu_fi h uid st fr hg h0 ht ow (wuOf fr) rfl
      split <;> exact this

theorem handleFrame_fi (h : FI O F r) (uid : Nat) (fr : Frame) (h0 : fr.stream ≠ 0) (ow : Owns r uid fr)
    (hex : fr.typ = Gen.c_FrameData → ∃ st, r.getStrm uid = some st) :
    FrameDone O F r uid fr (handleFrame r uid fr) := by
  rw [handleFrame_eq]
  split
  · -- no such stream
    rename_i hg
    right
    have habs : ∀ st ∈ r.s.strms, st.id ≠ fr.stream := by
      intro st hm e
      have h1 := ow.byId st hm e
      have h2 := List.find?_eq_none.mp hg st hm
      rw [h1] at h2
      exact h2 (beq_self_eq_true uid)
    refine h.frame_absent fr h0 habs (Or.inl ow.le) ?_
    intro e
    obtain ⟨st, hs⟩ := hex e
    rw [hs] at hg; cases hg
  · rename_i st hg
    split
    · rename_i e he
      obtain ⟨code, tag, rfl, hc⟩ := verifyState_err he
      exact Or.inl ⟨code, tag, st, rfl, hc, rfl, hg⟩
    · split
      · rename_i hty
        have hty : fr.typ = Gen.c_FrameHeaders ∨ fr.typ = Gen.c_FrameContinuation := by simpa using hty
        right
        exact (h.quiet (hfHeaders_quiet h.t uid st fr hg)).frame_plain fr h0
          (by rcases hty with e | e <;> (rw [e]; decide)) (by rcases hty with e | e <;> (rw [e]; decide))
      · split
        · rename_i hty
          exact hfData_fi h uid st fr hg h0 (by simpa using hty)
        · rename_i hnd
          have hnd : fr.typ ≠ Gen.c_FrameData := by simpa using hnd
          split
          · rename_i hty
            have hty : fr.typ = Gen.c_FrameResetStream := by simpa using hty
            right
            have := h.frame_plain fr h0 (by rw [hty]; decide) hnd
            split <;> exact this
          · split
            · rename_i hty
              have hty : fr.typ = Gen.c_FramePriority := by simpa using hty
              right
              have := h.frame_plain fr h0 (by rw [hty]; decide) hnd
              repeat' split
              all_goals exact this
            · split
              · rename_i hty
                exact hfWU_fi h uid st fr hg h0 (by simpa using hty) ow
              · rename_i hnw
                right
                exact h.frame_plain fr h0 (by simpa using hnw) hnd


/-- a connection error answered with GOAWAY for a frame that is not a WINDOW_UPDATE: its octets, if it is DATA, go
unaccounted -/
theorem FI.goaway_frame (h : FI O F r) (fr : Frame) (h0 : fr.stream ≠ 0) (hnw : fr.typ ≠ Gen.c_FrameWindowUpdate)
    (sid code : Nat) (tag : String) : FI O (F ++ [fr]) (writeGoAway r sid code tag) := by
  have h1 := h.quiet (writeGoAway_quiet r sid code tag)
  refine ⟨h1.t, h1.a.frame_stream fr h0 hnw, h1.b.lost fr ?_, h1.p⟩
  simp only [cnt_append, writeGoAway_ga]
  omega

/-- … and for any frame when the stream loop stops at once -/
theorem FI.goaway_stop (h : FI O F r) (fr : Frame) (h0 : fr.stream ≠ 0) (sid code : Nat) (tag : String) :
    FI O (F ++ [fr]) (stopLoop (writeGoAway r sid code tag)) := by
  have h1 := h.quiet ((writeGoAway_quiet r sid code tag).trans (stopLoop_quiet _))
  refine h1.frame_dead fr h0 rfl ?_
  show 0 < cnt .goAway (O ++ (writeGoAway r sid code tag).out)
  simp only [cnt_append, writeGoAway_ga]
  omega

/-- what `unknownStream` leaves: no stream to go on with and the frame filed, or a new stream that owns the frame -/
def UnknownDone (O : List Out) (F : List Frame) (fr : Frame) (u : R × Option Nat) : Prop :=
  (u.2 = none ∧ FI O (F ++ [fr]) u.1) ∨
    (∃ uid st, u.2 = some uid ∧ FI O F u.1 ∧ Owns u.1 uid fr ∧ fr.typ = Gen.c_FrameHeaders ∧ u.1.getStrm uid = some st)

theorem refuse_fi (h : FI O F r) (fr : Frame) (h0 : fr.stream ≠ 0) (ht : fr.typ = Gen.c_FrameHeaders) :
    FI O (F ++ [fr]) (writeReset { r with s := { r.s with lastRefused := max r.s.lastRefused fr.stream } } fr.stream
      Gen.c_RefusedStreamError) := by
  have h1 : FI O F ({ r with s := { r.s with lastRefused := max r.s.lastRefused fr.stream } } : R) := by
    refine ⟨⟨h.t.un, h.t.idn, h.t.ile, h.t.ult, h.t.id0, h.t.ringle, ?_⟩,
      ⟨h.a.conn, h.a.cpos, h.a.cur, h.a.led, ?_, h.a.nosent⟩, ⟨h.b.bal, h.b.lo, h.b.hi⟩, h.p⟩
    · intro x hx
      rcases h.t.rstle x hx with e | e
      · exact Or.inl e
      · right; show x ≤ max r.s.lastRefused fr.stream; omega
    · intro hs sid h1 h2
      have h2 : max r.s.lastRefused fr.stream < sid := h2
      exact h.a.fresh hs sid h1 (by omega)
  have h2 := h1.quiet (writeReset_quiet _ fr.stream Gen.c_RefusedStreamError
    (Or.inr (by show fr.stream ≤ max r.s.lastRefused fr.stream; omega)))
  exact h2.frame_plain fr h0 (by rw [ht]; decide) (by rw [ht]; decide)


/-- the state after a new stream has been put into the table -/
def withNew (r : R) (fr : Frame) : R :=
  { r with s := { r.s with strms := r.s.strms ++ [{ uid := r.s.nextUid, id := fr.stream, window := r.s.curInitWin, origType := fr.typ }],
                            nextUid := r.s.nextUid + 1, openStreams := r.s.openStreams + 1, lastID := fr.stream } }

/-- **a new stream** starts with the initial window in force and nothing sent -/
theorem new_fi (h : FI O F r) (fr : Frame) (h0 : fr.stream ≠ 0) (h1 : r.s.lastID < fr.stream) (h2 : r.s.lastRefused < fr.stream) :
    FI O F (withNew r fr) ∧ Owns (withNew r fr) r.s.nextUid fr ∧ ∃ st, (withNew r fr).getStrm r.s.nextUid = some st := by
  have hstr : (withNew r fr).s.strms = r.s.strms ++ [{ uid := r.s.nextUid, id := fr.stream, window := r.s.curInitWin, origType := fr.typ }] := rfl
  have hlid : (withNew r fr).s.lastID = fr.stream := rfl
  refine ⟨⟨?_, ?_, ⟨h.b.bal, h.b.lo, h.b.hi⟩, h.p⟩, ?_, ?_⟩
  · constructor
    · rw [hstr, List.map_append, List.nodup_append]
      refine ⟨h.t.un, by simp, ?_⟩
      intro a ha b hb
      simp only [List.map_cons, List.map_nil, List.mem_singleton] at hb
      obtain ⟨x, hx, rfl⟩ := List.mem_map.mp ha
      have := h.t.ult x hx
      omega
    · rw [hstr, List.map_append, List.nodup_append]
      refine ⟨h.t.idn, by simp, ?_⟩
      intro a ha b hb
      simp only [List.map_cons, List.map_nil, List.mem_singleton] at hb
      obtain ⟨x, hx, rfl⟩ := List.mem_map.mp ha
      have := h.t.ile x hx
      omega
    · intro st hm
      rw [hstr] at hm
      rw [hlid]
      rcases List.mem_append.mp hm with hm | hm
      · have := h.t.ile st hm; omega
      · simp only [List.mem_singleton] at hm; subst hm; exact Nat.le_refl _
    · intro st hm
      rw [hstr] at hm
      show st.uid < r.s.nextUid + 1
      rcases List.mem_append.mp hm with hm | hm
      · have := h.t.ult st hm; omega
      · simp only [List.mem_singleton] at hm; subst hm; exact Nat.lt_succ_self _
    · intro st hm
      rw [hstr] at hm
      rcases List.mem_append.mp hm with hm | hm
      · exact h.t.id0 st hm
      · simp only [List.mem_singleton] at hm; subst hm; exact h0
    · intro x hx
      rw [hlid]
      have := h.t.ringle x hx; omega
    · intro x hx
      rw [hlid]
      rcases h.t.rstle x hx with e | e
      · left; omega
      · exact Or.inr e
  · constructor
    · exact h.a.conn
    · exact h.a.cpos
    · exact h.a.cur
    · intro hs st hm
      rw [hstr] at hm
      rcases List.mem_append.mp hm with hm | hm
      · exact h.a.led hs st hm
      · simp only [List.mem_singleton] at hm; subst hm
        have e1 := h.a.nosent fr.stream h1
        have e2 := h.a.fresh hs fr.stream h1 h2
        show r.s.curInitWin + (sentS fr.stream (O ++ r.out) : Int) = r.s.curInitWin + (wuS fr.stream F : Int)
        rw [e1, e2]
    · intro hs sid h3 h4
      rw [hlid] at h3
      exact h.a.fresh hs sid (by omega) h4
    · intro sid h3
      rw [hlid] at h3
      exact h.a.nosent sid (by omega)
  · constructor
    · rw [hlid]; exact Nat.le_refl _
    · intro st hm hi
      rw [hstr] at hm
      rcases List.mem_append.mp hm with hm | hm
      · have := h.t.ile st hm; omega
      · simp only [List.mem_singleton] at hm; subst hm; rfl
    · intro st hm hu
      rw [hstr] at hm
      rcases List.mem_append.mp hm with hm | hm
      · have := h.t.ult st hm; omega
      · simp only [List.mem_singleton] at hm; subst hm; rfl
  · have : ((withNew r fr).getStrm r.s.nextUid).isSome = true := by
      simp only [R.getStrm, hstr, List.find?_isSome]
      exact ⟨_, List.mem_append_right _ (List.mem_singleton.mpr rfl), by simp⟩
    exact Option.isSome_iff_exists.mp this


theorem unknownStream_fi (h : FI O F r) (fr : Frame) (wc : Bool) (h0 : fr.stream ≠ 0)
    (habs : ∀ st ∈ r.s.strms, st.id ≠ fr.stream) : UnknownDone O F fr (unknownStream r fr wc) := by
  unfold unknownStream
  split
  · -- a stream this side has reset
    rename_i hc
    have hle := h.t.rstle fr.stream (by simpa using hc)
    left
    refine ⟨rfl, ?_⟩
    dsimp only
    split
    · rename_i hty
      exact consumeConn_fi h fr h0 (by simpa using hty)
    · rename_i hty
      exact h.frame_absent fr h0 habs hle (by simpa using hty)
  · split
    · -- RST_STREAM
      rename_i hty
      have hty : fr.typ = Gen.c_FrameResetStream := by simpa using hty
      left
      refine ⟨rfl, ?_⟩
      dsimp only
      split
      · exact (h.goaway_frame fr h0 (by rw [hty]; decide) _ _ _).quiet (closeIfDone_quiet _)
      · exact h.frame_plain fr h0 (by rw [hty]; decide) (by rw [hty]; decide)
    · split
      · -- a closed stream
        rename_i hc
        have hle := h.t.ringle fr.stream (by simpa using hc)
        left
        refine ⟨rfl, ?_⟩
        dsimp only
        split
        · rename_i hty
          have hty : fr.typ = Gen.c_FramePriority ∨ fr.typ = Gen.c_FrameWindowUpdate := by simpa using hty
          exact h.frame_absent fr h0 habs (Or.inl hle) (by rcases hty with e | e <;> (rw [e]; decide))
        · rename_i hty
          have hty : ¬ fr.typ = Gen.c_FramePriority ∧ ¬ fr.typ = Gen.c_FrameWindowUpdate := by simpa using hty
          exact (h.goaway_frame fr h0 hty.2 _ _ _).quiet (closeIfDone_quiet _)
      · split
        · -- not HEADERS
          left
          split
          · rename_i hty
            have hty : fr.typ = Gen.c_FramePriority := by simpa using hty
            have hp := h.frame_plain fr h0 (by rw [hty]; decide) (by rw [hty]; decide)
            split
            · split
              · exact ⟨rfl, h.goaway_stop fr h0 _ _ _⟩
              · exact ⟨rfl, hp⟩
            · exact ⟨rfl, hp⟩
          · split
            · exact ⟨rfl, h.goaway_stop fr h0 _ _ _⟩
            · rename_i hle
              have hle : fr.stream ≤ r.s.lastID := by omega
              split
              · rename_i hty
                exact ⟨rfl, (h.goaway_frame fr h0 (by simpa using hty) _ _ _).quiet (closeIfDone_quiet _)⟩
              · rename_i hty
                have hty : fr.typ = Gen.c_FrameWindowUpdate := by simpa using hty
                exact ⟨rfl, h.frame_absent fr h0 habs (Or.inl hle) (by rw [hty]; decide)⟩
        · rename_i hty
          have hty : fr.typ = Gen.c_FrameHeaders := by simpa using hty
          split
          · left; exact ⟨rfl, refuse_fi h fr h0 hty⟩
          · split
            · left
              exact ⟨rfl, (h.goaway_frame fr h0 (by rw [hty]; decide) _ _ _).quiet (closeIfDone_quiet _)⟩
            · rename_i hnew
              have hnew : r.s.lastID < fr.stream ∧ r.s.lastRefused < fr.stream := by
                simp only [Bool.or_eq_true, decide_eq_true_eq, not_or, Nat.not_le] at hnew
                exact hnew
              obtain ⟨a, b, st, c⟩ := new_fi h fr h0 hnew.1 hnew.2
              right
              exact ⟨r.s.nextUid, st, rfl, a, b, hty, c⟩


/-- the loop body after `handleFrame` -/
def knownRest (r1 : R) (uid : Nat) (fr : Frame) (wc : Bool) (err : Option SErr) : R :=
  let e := onFrameError r1 uid err
  if e.2 then stopLoop e.1 else
  let r := e.1.updStrm uid (handleState fr)
  match r.getStrm uid with
  | none => r
  | some st =>
    let r := closeIfClosed (dispatchOrSend r uid st) uid
    if wc && canCloseAfterGoAway r.s then stopLoop r else r

theorem knownStream_eq (r : R) (uid : Nat) (fr : Frame) (wc : Bool) :
    knownStream r uid fr wc =
      if !(headersPrelude r fr).2 then (headersPrelude r fr).1
      else knownRest (handleFrame (headersPrelude r fr).1 uid fr).1 uid fr wc (handleFrame (headersPrelude r fr).1 uid fr).2 := rfl

theorem handleState_key (fr : Frame) (x : Strm) :
    (handleState fr x).uid = x.uid ∧ (handleState fr x).id = x.id ∧ (handleState fr x).window = x.window := by
  simp only [handleState]
  repeat' split
  all_goals exact ⟨rfl, rfl, rfl⟩

theorem knownRest_fi {F' : List Frame} {r1 : R} (h : FI O F' r1) (uid : Nat) (fr : Frame) (wc : Bool) (err : Option SErr) :
    FI O F' (knownRest r1 uid fr wc err) := by
  unfold knownRest
  have q1 := onFrameError_quiet h.t uid err
  have h1 := h.quiet q1
  dsimp only
  split
  · exact h1.quiet (stopLoop_quiet _)
  · have h2 := h1.quiet (upd_quiet _ uid (handleState fr) fun x _ _ => handleState_key fr x)
    split
    · exact h2
    · rename_i st hg
      have hle := h2.t.ile st (List.mem_of_find?_eq_some hg)
      have h3 := dispatchOrSend_fi uid st hle h2
      have h4 := h3.quiet (closeIfClosed_quiet h3.t uid)
      split
      · exact h4.quiet (stopLoop_quiet _)
      · exact h4

theorem headersPrelude_other (r : R) (fr : Frame) (hne : fr.typ ≠ Gen.c_FrameHeaders) : headersPrelude r fr = (r, true) := by
  unfold headersPrelude
  simp [hne]

/-- a connection error reported by `handleFrame`: GOAWAY, the loop stops, the frame is filed -/
theorem connError_fi (h : FI O F r) (uid : Nat) (fr : Frame) (wc : Bool) (h0 : fr.stream ≠ 0) (code : Nat) (tag : String)
    (st : Strm) (hg : r.getStrm uid = some st) (hc : code ≠ Gen.c_NoError) :
    FI O (F ++ [fr]) (knownRest r uid fr wc (some (.goAway code tag))) := by
  have q := (writeError_quiet h.t uid (.goAway code tag)).trans
    (upd_quiet _ uid (fun s => { s with state := .closed }) fun _ _ _ => ⟨rfl, rfl, rfl⟩)
  have e : knownRest r uid fr wc (some (.goAway code tag)) =
      stopLoop ((writeError r uid (.goAway code tag)).updStrm uid fun s => { s with state := .closed }) := by
    unfold knownRest onFrameError
    simp [hc]
  rw [e]
  refine (h.quiet (q.trans (stopLoop_quiet _))).frame_dead fr h0 rfl ?_
  show 0 < cnt .goAway (O ++ (writeError r uid (.goAway code tag)).out)
  simp only [cnt_append, writeError_ga r uid code tag st hg]
  omega

theorem knownStream_fi (h : FI O F r) (uid : Nat) (fr : Frame) (wc : Bool) (h0 : fr.stream ≠ 0) (ow : Owns r uid fr)
    (hex : ∃ st, r.getStrm uid = some st) : FI O (F ++ [fr]) (knownStream r uid fr wc) := by
  rw [knownStream_eq]
  have q := headersPrelude_quiet h.t fr
  have h1 := h.quiet q
  have ow1 := ow.quiet q
  have hex1 : fr.typ = Gen.c_FrameData → ∃ st, (headersPrelude r fr).1.getStrm uid = some st := by
    intro e
    rw [headersPrelude_other r fr (by rw [e]; decide)]
    exact hex
  split
  · rename_i hp
    by_cases hH : fr.typ = Gen.c_FrameHeaders
    · exact h1.frame_plain fr h0 (by rw [hH]; decide) (by rw [hH]; decide)
    · rw [headersPrelude_other r fr hH] at hp; simp at hp
  · rcases handleFrame_fi h1 uid fr h0 ow1 hex1 with ⟨code, tag, st, e2, hc, e1, hg⟩ | hr
    · rw [e2, e1]
      exact connError_fi h1 uid fr wc h0 code tag st hg hc
    · exact knownRest_fi hr uid fr wc _


theorem getStrm_some_of_mem {r : R} {st : Strm} (hm : st ∈ r.s.strms) : ∃ st', r.getStrm st.uid = some st' := by
  have : (r.getStrm st.uid).isSome = true := by
    simp only [R.getStrm, List.find?_isSome]
    exact ⟨st, hm, by simp⟩
  exact Option.isSome_iff_exists.mp this

theorem slStreamFrame_fi (h : FI O F r) (fr : Frame) (h0 : fr.stream ≠ 0) : FI O (F ++ [fr]) (slStreamFrame r fr) := by
  unfold slStreamFrame
  dsimp only
  split
  · rename_i st hf
    have hf' : r.s.strms.find? (·.id == fr.stream) = some st := by
      split at hf
      · exact hf
      · cases hf
    have hm : st ∈ r.s.strms := List.mem_of_find?_eq_some hf'
    have hid : st.id = fr.stream := by
      have := List.find?_some hf'
      simpa using this
    refine knownStream_fi h st.uid fr _ h0 ⟨?_, ?_, ?_⟩ (getStrm_some_of_mem hm)
    · rw [← hid]; exact h.t.ile st hm
    · intro x hx hi
      rw [nodup_map_inj (·.id) _ h.t.idn x st hx hm (by rw [hi, hid])]
    · intro x hx hu
      rw [nodup_map_inj (·.uid) _ h.t.un x st hx hm hu]; exact hid
  · rename_i hf
    have habs : ∀ st ∈ r.s.strms, st.id ≠ fr.stream := by
      intro st hm e
      split at hf
      · have := List.find?_eq_none.mp hf st hm
        simp [e] at this
      · have := h.t.ile st hm
        omega
    rcases unknownStream_fi h fr r.s.closing h0 habs with ⟨e, hu⟩ | ⟨uid, st, e, hu, ow, _, hg⟩
    · rw [e]; exact hu
    · rw [e]; exact knownStream_fi hu uid fr _ h0 ow ⟨st, hg⟩

end


/-! ### only `slFrame` appends to `fwd` -/

@[simp] theorem updStrm_fwd (r : R) (uid : Nat) (f : Strm → Strm) : (r.updStrm uid f).fwd = r.fwd := rfl
@[simp] theorem emit_fwd (r : R) (o : Out) : (r.emit o).fwd = r.fwd := rfl
@[simp] theorem stopLoop_fwd (r : R) : (stopLoop r).fwd = r.fwd := rfl
@[simp] theorem rlStop_fwd (r : R) : (rlStop r).fwd = r.fwd := rfl
@[simp] theorem closeBody_fwd (r : R) (uid : Nat) : (closeBody r uid).fwd = r.fwd := rfl
@[simp] theorem writeReset_fwd (r : R) (sid code : Nat) : (writeReset r sid code).fwd = r.fwd := rfl
@[simp] theorem writeGoAway_fwd (r : R) (sid code : Nat) (tag : String) : (writeGoAway r sid code tag).fwd = r.fwd :=
  (writeGoAway_quiet r sid code tag).fwd
@[simp] theorem releaseStream_fwd (r : R) (st : Strm) : (releaseStream r st).fwd = r.fwd := (releaseStream_quiet r st).fwd
@[simp] theorem closeStream_fwd (r : R) (uid : Nat) : (closeStream r uid).fwd = r.fwd := by
  unfold closeStream
  split
  · rfl
  · simp only []
    split
    · rfl
    · exact releaseStream_fwd _ _
@[simp] theorem writeError_fwd (r : R) (uid : Nat) (e : SErr) : (writeError r uid e).fwd = r.fwd := by
  unfold writeError
  split
  · rfl
  · cases e <;> simp
@[simp] theorem refill_fwd (r : R) (uid : Nat) (st : Strm) : (refill r uid st).1.fwd = r.fwd := by
  simp only [refill]
  repeat' split
  all_goals simp
@[simp] theorem sendFrame_fwd (r : R) (uid : Nat) (st : Strm) (step : Nat) : (sendFrame r uid st step).1.fwd = r.fwd := rfl
@[simp] theorem sendDataFuel_fwd (fuel : Nat) (r : R) (uid : Nat) : (sendDataFuel fuel r uid).1.fwd = r.fwd := by
  induction fuel generalizing r with
  | zero => rfl
  | succ n ih =>
    simp only [sendDataFuel]
    repeat' split
    all_goals simp [ih]
@[simp] theorem sendData_fwd (r : R) (uid : Nat) : (sendData r uid).1.fwd = r.fwd := by
  simp only [sendData]
  split
  · rfl
  · exact sendDataFuel_fwd _ _ _
@[simp] theorem flushOne_fwd (acc : R × List Nat) (uid : Nat) : (flushOne acc uid).1.fwd = acc.1.fwd := by
  simp only [flushOne]
  repeat' split
  all_goals simp
@[simp] theorem closeDone_fwd (r : R) (uid : Nat) : (closeDone r uid).fwd = r.fwd := by simp [closeDone]
@[simp] theorem flushStreams_fwd (r : R) : (flushStreams r).fwd = r.fwd := by
  simp only [flushStreams]
  have h1 : ((r.s.strms.map (·.uid)).foldl flushOne (r, [])).1.fwd = r.fwd :=
    foldl_inv (fun acc : R × List Nat => acc.1.fwd = r.fwd) flushOne (fun b a hb => by rw [flushOne_fwd, hb]) _ _ rfl
  exact foldl_inv (fun x : R => x.fwd = r.fwd) closeDone (fun b a hb => by rw [closeDone_fwd, hb]) _ _ h1
@[simp] theorem responseHeaders_fwd (r : R) (st : Strm) (resp : Resp) (hb : Bool) : (responseHeaders r st resp hb).fwd = r.fwd :=
  (responseHeaders_quiet r st resp hb).fwd
@[simp] theorem finishRequest_fwd (r : R) (uid : Nat) (resp : Resp) : (finishRequest r uid resp).1.fwd = r.fwd := by
  simp only [finishRequest]
  repeat' split
  all_goals simp
@[simp] theorem consumeConnWindow_fwd (r : R) (n : Nat) : (consumeConnWindow r n).fwd = r.fwd := by
  simp only [consumeConnWindow]
  repeat' split
  all_goals simp
@[simp] theorem consumeRecvWindow_fwd (r : R) (st : Strm) (fr : Frame) (n : Nat) : (consumeRecvWindow r st fr n).fwd = r.fwd := by
  simp only [consumeRecvWindow]
  repeat' split
  all_goals simp
@[simp] theorem handleFrame_fwd (r : R) (uid : Nat) (fr : Frame) : (handleFrame r uid fr).1.fwd = r.fwd := by
  simp only [handleFrame]
  repeat' split
  all_goals simp
@[simp] theorem closeIdleBelow_fwd (fuel : Nat) (r : R) (id : Nat) : (closeIdleBelow fuel r id).fwd = r.fwd := by
  induction fuel generalizing r with
  | zero => rfl
  | succ n ih =>
    simp only [closeIdleBelow]
    repeat' split
    all_goals simp [ih]
@[simp] theorem closeIfDone_fwd (r : R) : (closeIfDone r).fwd = r.fwd := (closeIfDone_quiet r).fwd
@[simp] theorem closeIfClosing_fwd (r : R) : (closeIfClosing r).fwd = r.fwd := (closeIfClosing_quiet r).fwd
@[simp] theorem unknownStream_fwd (r : R) (fr : Frame) (wc : Bool) : (unknownStream r fr wc).1.fwd = r.fwd := by
  simp only [unknownStream]
  repeat' split
  all_goals simp
@[simp] theorem headersPrelude_fwd (r : R) (fr : Frame) : (headersPrelude r fr).1.fwd = r.fwd := by
  simp only [headersPrelude]
  repeat' split
  all_goals simp
@[simp] theorem onFrameError_fwd (r : R) (uid : Nat) (e : Option SErr) : (onFrameError r uid e).1.fwd = r.fwd := by
  simp only [onFrameError]
  repeat' split
  all_goals simp
@[simp] theorem dispatch_fwd (r : R) (uid : Nat) (st : Strm) : (dispatch r uid st).fwd = r.fwd := (dispatch_quiet r uid st).fwd
@[simp] theorem dispatchOrSend_fwd (r : R) (uid : Nat) (st : Strm) : (dispatchOrSend r uid st).fwd = r.fwd := by
  simp only [dispatchOrSend]
  repeat' split
  all_goals simp
@[simp] theorem closeIfClosed_fwd (r : R) (uid : Nat) : (closeIfClosed r uid).fwd = r.fwd := by
  simp only [closeIfClosed]
  repeat' split
  all_goals simp
@[simp] theorem knownStream_fwd (r : R) (uid : Nat) (fr : Frame) (wc : Bool) : (knownStream r uid fr wc).fwd = r.fwd := by
  simp only [knownStream]
  repeat' split
  all_goals simp
@[simp] theorem slStreamFrame_fwd (r : R) (fr : Frame) : (slStreamFrame r fr).fwd = r.fwd := by
  simp only [slStreamFrame]
  repeat' split
  all_goals simp

/-! ### frames on stream 0 taken by the stream loop -/

/-- SETTINGS in the stream loop -/
def slSettings (r : R) (st : Frame.SettingsVal) : R :=
  let r := applyTableSize r st
  if st.hasWindowSize then
    let delta : Int := (st.windowSize : Int) - r.s.curInitWin
    let x := applyDelta delta r.s.strms
    let r := { r with s := { r.s with curInitWin := st.windowSize, strms := x.1 } }
    if x.2 then stopLoop (writeGoAway r 0 Gen.c_FlowControlError "stream-win-max")
    else closeIfClosing (flushStreams r)
  else closeIfClosing r

/-- connection-level WINDOW_UPDATE in the stream loop -/
def slConnWU (r : R) (inc : Nat) : R :=
  let w := r.s.clientWindow + inc
  let r := { r with s := { r.s with clientWindow := w } }
  if w > 2 ^ 31 - 1 then stopLoop (writeGoAway r 0 Gen.c_FlowControlError "conn-win-max")
  else closeIfClosing (flushStreams r)

theorem slFrame_eq (r : R) (fr : Frame) :
    slFrame r fr =
      if r.s.slStopped then r
      else if fr.stream == 0 then
        match fr.body with
        | .settings st => slSettings { r with fwd := r.fwd ++ [fr] } st
        | .windowUpdate inc => slConnWU { r with fwd := r.fwd ++ [fr] } inc
        | _ => closeIfClosing { r with fwd := r.fwd ++ [fr] }
      else slStreamFrame { r with fwd := r.fwd ++ [fr] } fr := rfl

theorem applyDelta_keys (d : Int) (l : List Strm) :
    (applyDelta d l).1.map (fun s => (s.uid, s.id)) = l.map (fun s => (s.uid, s.id)) := by
  induction l with
  | nil => rfl
  | cons a l ih =>
    simp only [applyDelta]
    split
    · simp
    · simp [ih]

theorem applyDelta_ok (d : Int) (l : List Strm) (h : (applyDelta d l).2 = false) :
    (applyDelta d l).1 = l.map (fun s => { s with window := s.window + d }) := by
  induction l with
  | nil => rfl
  | cons a l ih =>
    simp only [applyDelta] at h ⊢
    split at h
    · cases h
    · rename_i hc
      rw [if_neg hc]
      simp [ih h]

section
variable {O : List Out} {F : List Frame} {r : R}

/-- the table facts depend on the (uid, id) pairs of the table only -/
theorem Tbl.keys (t : Tbl r) (r' : R)
    (hk : r'.s.strms.map (fun s => (s.uid, s.id)) = r.s.strms.map (fun s => (s.uid, s.id)))
    (h1 : r'.s.lastID = r.s.lastID) (h2 : r'.s.nextUid = r.s.nextUid)
    (h3 : r'.s.ring = r.s.ring) (h4 : r'.s.resetByUs = r.s.resetByUs) (h5 : r'.s.lastRefused = r.s.lastRefused) : Tbl r' := by
  have hu : r'.s.strms.map (·.uid) = r.s.strms.map (·.uid) := by
    have := congrArg (List.map Prod.fst) hk
    simpa [List.map_map, Function.comp_def] using this
  have hi : r'.s.strms.map (·.id) = r.s.strms.map (·.id) := by
    have := congrArg (List.map Prod.snd) hk
    simpa [List.map_map, Function.comp_def] using this
  have hmem : ∀ st' ∈ r'.s.strms, ∃ st ∈ r.s.strms, st.uid = st'.uid ∧ st.id = st'.id := by
    intro st' hm
    have : (st'.uid, st'.id) ∈ r.s.strms.map (fun s => (s.uid, s.id)) := by
      rw [← hk]; exact List.mem_map.mpr ⟨st', hm, rfl⟩
    obtain ⟨st, hs, e⟩ := List.mem_map.mp this
    simp only [Prod.mk.injEq] at e
    exact ⟨st, hs, e.1, e.2⟩
  constructor
  · rw [hu]; exact t.un
  · rw [hi]; exact t.idn
  · intro st' hm
    obtain ⟨st, hs, _, e⟩ := hmem st' hm
    rw [h1, ← e]; exact t.ile st hs
  · intro st' hm
    obtain ⟨st, hs, e, _⟩ := hmem st' hm
    rw [h2, ← e]; exact t.ult st hs
  · intro st' hm
    obtain ⟨st, hs, _, e⟩ := hmem st' hm
    rw [← e]; exact t.id0 st hs
  · rw [h3, h1]; exact t.ringle
  · rw [h4, h1, h5]; exact t.rstle

/-- the invariant does not look at `r.fwd` -/
theorem FI.of_eq {r' : R} (h : FI O F r) (hs : r'.s = r.s) (ho : r'.out = r.out) : FI O F r' := by
  cases r; cases r'
  simp only at hs ho
  subst hs; subst ho
  exact ⟨⟨h.t.un, h.t.idn, h.t.ile, h.t.ult, h.t.id0, h.t.ringle, h.t.rstle⟩,
    ⟨h.a.conn, h.a.cpos, h.a.cur, h.a.led, h.a.fresh, h.a.nosent⟩, ⟨h.b.bal, h.b.lo, h.b.hi⟩, h.p⟩

theorem strmInc_conn {fr : Frame} (h0 : fr.stream = 0) (sid : Nat) : strmInc sid fr = 0 := by simp [strmInc, h0]
theorem dataInc_conn {fr : Frame} (h0 : fr.stream = 0) : dataInc fr = 0 := by simp [dataInc, h0]

theorem stop_goaway_quiet (r : R) (sid code : Nat) (tag : String) :
    Quiet (stopLoop r) (stopLoop (writeGoAway r sid code tag)) := by
  quiet_mk
  case sc => simp [Out.dataLen]
  case ss => intro sid; simp [Out.dataOn]
  case cr => simp [Out.credit]
  case ga => simp
  case dz => dz_tac
  case stop => intro _; rfl
  all_goals (unfold writeGoAway stopLoop; simp only []; split)
  quiet_fields

/-- **SETTINGS in the stream loop**: with SETTINGS_INITIAL_WINDOW_SIZE every stream of the table moves by
`new − old`; then what can be sent is sent -/
theorem slSettings_fi (h : FI O F r) (fr : Frame) (h0 : fr.stream = 0) (st : Frame.SettingsVal) (hb : fr.body = .settings st) :
    FI O (F ++ [fr]) (slSettings r st) := by
  have hc : connInc fr = 0 := by simp [connInc, hb]
  have h1 := h.quiet (applyTableSize_quiet r st)
  have hbB := fun {x : R} (hx : LedB O F x) => hx.frame fr (dataInc_conn h0)
  unfold slSettings
  dsimp only
  split
  · rename_i hw
    have hi : ∀ w, initStep w fr = (st.windowSize : Int) := by intro w; simp [initStep, h0, hb, hw]
    -- the state after the delta
    have key : FI O (F ++ [fr]) ({ applyTableSize r st with s := { (applyTableSize r st).s with
        curInitWin := st.windowSize,
        strms := (applyDelta ((st.windowSize : Int) - (applyTableSize r st).s.curInitWin) (applyTableSize r st).s.strms).1 } } : R) ∨
        (applyDelta ((st.windowSize : Int) - (applyTableSize r st).s.curInitWin) (applyTableSize r st).s.strms).2 = true := by
      cases hx : (applyDelta ((st.windowSize : Int) - (applyTableSize r st).s.curInitWin) (applyTableSize r st).s.strms).2 with
      | true => exact Or.inr rfl
      | false =>
        left
        have hmap := applyDelta_ok _ _ hx
        refine ⟨h1.t.keys _ (applyDelta_keys _ _) rfl rfl rfl rfl rfl, ?_, ⟨(hbB h1.b).bal, h1.b.lo, h1.b.hi⟩, h1.p⟩
        constructor
        · simpa [hc] using h1.a.conn
        · exact h1.a.cpos
        · rw [initWin_snoc, hi]
        · intro hs st' hm'
          have hm' : st' ∈ (applyDelta ((st.windowSize : Int) - (applyTableSize r st).s.curInitWin) (applyTableSize r st).s.strms).1 := hm'
          rw [hmap] at hm'
          obtain ⟨x, hx', rfl⟩ := List.mem_map.mp hm'
          have := h1.a.led hs x hx'
          show x.window + ((st.windowSize : Int) - (applyTableSize r st).s.curInitWin) + (sentS x.id (O ++ r.out) : Int) =
            (st.windowSize : Int) + _
          simp only [wuS_append, wuS_single, strmInc_conn h0]
          have e : (applyTableSize r st).out = r.out := rfl
          rw [e] at this
          omega
        · intro hs sid a b
          simpa [strmInc_conn h0] using h1.a.fresh hs sid a b
        · exact h1.a.nosent
    split
    · -- a window above 2^31−1: GOAWAY, the loop stops
      have hdead : FI O (F ++ [fr]) (stopLoop ({ applyTableSize r st with s := { (applyTableSize r st).s with
          curInitWin := st.windowSize,
          strms := (applyDelta ((st.windowSize : Int) - (applyTableSize r st).s.curInitWin) (applyTableSize r st).s.strms).1 } } : R)) := by
        refine ⟨h1.t.keys _ (applyDelta_keys _ _) rfl rfl rfl rfl rfl, ?_, ⟨(hbB h1.b).bal, h1.b.lo, h1.b.hi⟩, h1.p⟩
        constructor
        · show (applyTableSize r st).s.clientWindow + (sentC (O ++ (applyTableSize r st).out) : Int) = _
          simpa [hc] using h1.a.conn
        · exact h1.a.cpos
        · rw [initWin_snoc, hi]; rfl
        · intro hs; cases hs
        · intro hs; cases hs
        · exact h1.a.nosent
      exact hdead.quiet (stop_goaway_quiet _ _ _ _)
    · rename_i hx
      rcases key with k | k
      · exact (flushStreams_fi k).quiet (closeIfClosing_quiet _)
      · exact absurd k hx
  · rename_i hw
    have hi : ∀ w, initStep w fr = w := by intro w; simp [initStep, h0, hb, hw]
    have h2 : FI O (F ++ [fr]) (applyTableSize r st) :=
      ⟨h1.t, h1.a.frame fr hc hi (strmInc_conn h0), hbB h1.b, h1.p⟩
    exact h2.quiet (closeIfClosing_quiet _)


/-- **connection WINDOW_UPDATE in the stream loop**: the connection window goes up by the increment; then what can
be sent is sent -/
theorem slConnWU_fi (h : FI O F r) (fr : Frame) (h0 : fr.stream = 0) (inc : Nat) (hb : fr.body = .windowUpdate inc) :
    FI O (F ++ [fr]) (slConnWU r inc) := by
  have hc : connInc fr = inc := by simp [connInc, h0, hb]
  have hi : ∀ w, initStep w fr = w := by intro w; simp [initStep, hb]
  have h2 : FI O (F ++ [fr]) ({ r with s := { r.s with clientWindow := r.s.clientWindow + inc } } : R) := by
    refine ⟨⟨h.t.un, h.t.idn, h.t.ile, h.t.ult, h.t.id0, h.t.ringle, h.t.rstle⟩, ?_,
      ⟨(h.b.frame fr (dataInc_conn h0)).bal, h.b.lo, h.b.hi⟩, h.p⟩
    constructor
    · have := h.a.conn
      show r.s.clientWindow + (inc : Int) + (sentC (O ++ r.out) : Int) = _
      simp only [grantC_append, grantC_single, hc]
      omega
    · have := h.a.cpos
      show 0 ≤ r.s.clientWindow + (inc : Int)
      omega
    · rw [initWin_snoc, hi]; exact h.a.cur
    · intro hs st hm
      simpa [strmInc_conn h0] using h.a.led hs st hm
    · intro hs sid a b
      simpa [strmInc_conn h0] using h.a.fresh hs sid a b
    · exact h.a.nosent
  unfold slConnWU
  dsimp only
  split
  · exact h2.quiet ((writeGoAway_quiet _ _ _ _).trans (stopLoop_quiet _))
  · exact (flushStreams_fi h2).quiet (closeIfClosing_quiet _)

/-- the invariant of a step in progress: the frames forwarded before the step, then those of the step so far -/
def FInv (O : List Out) (F : List Frame) (r : R) : Prop := FI O (F ++ r.fwd) r

theorem FInv.quiet {r' : R} (h : FInv O F r) (q : Quiet r r') : FInv O F r' := by
  unfold FInv
  rw [q.fwd]
  exact FI.quiet h q

/-- **a frame taken by the stream loop** -/
theorem slFrame_finv (h : FInv O F r) (fr : Frame) : FInv O F (slFrame r fr) := by
  have h1 : FI O (F ++ r.fwd) ({ r with fwd := r.fwd ++ [fr] } : R) := FI.of_eq h rfl rfl
  rw [slFrame_eq]
  split
  · exact h
  · split
    · rename_i hz
      have hz : fr.stream = 0 := by simpa using hz
      split
      · rename_i st hb
        have := slSettings_fi h1 fr hz st hb
        unfold FInv
        have e : (slSettings { r with fwd := r.fwd ++ [fr] } st).fwd = r.fwd ++ [fr] := by
          unfold slSettings
          dsimp only
          repeat' split
          all_goals simp [applyTableSize]
        rw [e, ← List.append_assoc]; exact this
      · rename_i inc hb
        have := slConnWU_fi h1 fr hz inc hb
        unfold FInv
        have e : (slConnWU { r with fwd := r.fwd ++ [fr] } inc).fwd = r.fwd ++ [fr] := by
          unfold slConnWU
          dsimp only
          repeat' split
          all_goals simp
        rw [e, ← List.append_assoc]; exact this
      · rename_i hns hnw
        have hc : connInc fr = 0 := by
          simp only [connInc, hz, beq_self_eq_true, if_true]
        have hi : ∀ w, initStep w fr = w := by
          intro w
          simp only [initStep, hz, beq_self_eq_true, if_true]
        have h2 : FI O (F ++ r.fwd ++ [fr]) ({ r with fwd := r.fwd ++ [fr] } : R) :=
          ⟨h1.t, h1.a.frame fr hc hi (strmInc_conn hz), h1.b.frame fr (dataInc_conn hz), h1.p⟩
        unfold FInv
        rw [closeIfClosing_fwd]
        show FI O (F ++ (r.fwd ++ [fr])) _
        rw [← List.append_assoc]
        exact h2.quiet (closeIfClosing_quiet _)
    · rename_i hz
      have hz : fr.stream ≠ 0 := by simpa using hz
      unfold FInv
      rw [slStreamFrame_fwd]
      show FI O (F ++ (r.fwd ++ [fr])) _
      rw [← List.append_assoc]
      exact slStreamFrame_fi h1 fr hz


/-! ### the read loop, handler completions, the step -/

/-- what `readFrame` guarantees about a SETTINGS frame: MAX_FRAME_SIZE, where stored, is at least 16 384 -/
def FrameOK (fr : Frame) : Prop := ∀ st, fr.body = .settings st → 16384 ≤ st.frameSize

theorem rlConnFrame_finv (h : FInv O F r) (fr : Frame) (hok : FrameOK fr) : FInv O F (rlConnFrame r fr) := by
  unfold rlConnFrame
  split
  · rename_i st hb
    split
    · exact slFrame_finv (h.quiet (handleSettings_quiet r st (hok st hb))) fr
    · exact h
  · split
    · exact h.quiet ((writeGoAway_quiet _ _ _ _).trans (rlStop_quiet _))
    · exact slFrame_finv h fr
  · split
    · exact h.quiet (emit_quiet _ _ rfl rfl rfl)
    · exact h
  · exact h.quiet (rlStop_quiet _)
  · exact h.quiet ((writeGoAway_quiet _ _ _ _).trans (rlStop_quiet _))

theorem rlFrame_finv (h : FInv O F r) (fr : Frame) (hok : FrameOK fr) : FInv O F (rlFrame r fr) := by
  have h1 := h.quiet (contCheck_quiet r fr)
  unfold rlFrame
  dsimp only
  split
  · exact h1.quiet (rlStop_quiet _)
  · split
    · split
      · exact h1.quiet ((writeGoAway_quiet _ _ _ _).trans (rlStop_quiet _))
      · split
        · exact h1.quiet ((writeGoAway_quiet _ _ _ _).trans (rlStop_quiet _))
        · split
          · exact h1.quiet ((writeGoAway_quiet _ _ _ _).trans (rlStop_quiet _))
          · exact slFrame_finv h1 fr
    · exact rlConnFrame_finv h1 fr hok


end


theorem settingsRead_frameSize (p : Bytes) (s s' : Frame.SettingsVal) (h : 16384 ≤ s.frameSize)
    (hr : Frame.settingsRead p s = .inl (some s')) : 16384 ≤ s'.frameSize := by
  fun_induction Frame.settingsRead p s
  all_goals first
    | (rename_i ih; exact ih (by simpa using h) hr)
    | (rename_i hv ih
       refine ih ?_ hr
       simp only [Bool.or_eq_true, decide_eq_true_eq, not_or] at hv
       have := hv.1
       simp only [] 
       omega)
    | (cases hr; done)
    | (simp only [Sum.inl.injEq, Option.some.injEq] at hr; subst hr; exact h)
    | (cases hr; exact h)

theorem deserialize_ok (typ flags : Nat) (p : Bytes) (st : Frame.SettingsVal)
    (h : Frame.deserialize typ flags p = .inl (.settings st)) : 16384 ≤ st.frameSize := by
  unfold Frame.deserialize at h
  split at h
  · repeat' split at h
    all_goals cases h
  · split at h
    · dsimp only at h
      repeat' split at h
      all_goals cases h
    · split at h
      · repeat' split at h
        all_goals cases h
      · split at h
        · repeat' split at h
          all_goals cases h
        · split at h
          · split at h
            · cases h
            · dsimp only at h
              split at h
              · cases h
              · split at h
                · rename_i s hs
                  simp only [Sum.inl.injEq, Body.settings.injEq] at h
                  subst h
                  exact settingsRead_frameSize _ _ _ (Nat.le_refl _) hs
                · cases h
                · cases h
          · split at h
            · dsimp only at h
              repeat' split at h
              all_goals cases h
            · repeat' split at h
              all_goals cases h

theorem readFrame_ok (max : Nat) (b : Bytes) (fr : Frame) (n : Nat) (h : Frame.readFrame max b = .ok fr n) :
    ∀ st, fr.body = .settings st → 16384 ≤ st.frameSize := by
  unfold Frame.readFrame at h
  dsimp only at h
  repeat' split at h
  all_goals first
    | (rename_i body hd
       simp only [Frame.ReadRes.ok.injEq] at h
       obtain ⟨rfl, _⟩ := h
       intro st hb
       simp only at hb
       subst hb
       exact deserialize_ok _ _ _ _ hd)
    | cases h

section
variable {O : List Out} {F : List Frame} {r : R}

theorem rlDrain_finv (fuel : Nat) (h : FInv O F r) : FInv O F (rlDrain fuel r) := by
  induction fuel generalizing r with
  | zero => exact h
  | succ n ih =>
    have hin : ∀ k, FInv O F ({ r with s := { r.s with inbuf := r.s.inbuf.drop k } } : R) := by
      intro k
      refine h.quiet ?_
      quiet_mk
      quiet_fields
    simp only [rlDrain]
    split
    · exact h
    · split
      · rename_i fr k hr
        exact ih (rlFrame_finv (hin k) fr (readFrame_ok _ _ _ _ hr))
      · split
        · exact h
        · split
          · exact (hin _).quiet ((writeGoAway_quiet _ _ _ _).trans (rlStop_quiet _))
          · exact ih (hin _)
      · exact h
      · exact h.quiet ((writeGoAway_quiet _ _ _ _).trans (rlStop_quiet _))
      · exact h.quiet (rlStop_quiet _)

theorem slHandlerDone_finv (sid : Nat) (resp : Resp) (h : FInv O F r) : FInv O F (slHandlerDone r sid resp) := by
  have h0 : FInv O F (if resp.kind == "panic" then r.emit .handlerPanicLogged else r) := by
    split
    · exact h.quiet (emit_quiet _ _ rfl rfl rfl)
    · exact h
  unfold slHandlerDone
  dsimp only
  generalize (if resp.kind == "panic" then r.emit .handlerPanicLogged else r) = r1 at h0 ⊢
  split
  · exact h0
  · split
    · split
      · rename_i st _
        refine h0.quiet (Quiet.trans ?_ (releaseStream_quiet _ st))
        quiet_mk
        quiet_fields
      · exact h0
    · rename_i st _
      have h1 := h0.quiet (upd_quiet r1 st.uid (fun s => { s with handlerRunning := false }) fun _ _ _ => ⟨rfl, rfl, rfl⟩)
      have h2 : FInv O F (finishRequest (r1.updStrm st.uid fun s => { s with handlerRunning := false }) st.uid resp).1 := by
        unfold FInv at h1 ⊢
        rw [finishRequest_fwd]
        exact finishRequest_fi _ _ h1
      split
      · have h3 := h2.quiet (closeDone_quiet (FI.t h2) st.uid)
        split
        · exact h3.quiet (stopLoop_quiet _)
        · exact h3
      · split
        · exact h2.quiet (stopLoop_quiet _)
        · exact h2

theorem stepR_finv (s : Srv) (ev : Event) (h : FI O F { s := s }) : FInv O F (stepR s ev) := by
  have h' : FInv O F ({ s := s } : R) := by
    unfold FInv
    simpa using h
  unfold stepR
  dsimp only
  cases ev with
  | bytes b =>
    refine (rlDrain_finv _ (h'.quiet ?_)).quiet (settle_quiet _)
    quiet_mk
    quiet_fields
  | done sid resp => exact (slHandlerDone_finv sid resp h').quiet (settle_quiet _)
  | cut => exact h'.quiet ((rlStop_quiet _).trans (settle_quiet _))
  | idle => exact h'.quiet (((writeGoAway_quiet _ _ _ _).trans (stopLoop_quiet _)).trans (settle_quiet _))

end


/-! ## Part 3 — runs -/

/-- fold of `stepR` over an event list: the final state, the concatenated outputs, the concatenated lists of frames the
read loop handed to the stream loop -/
def runF (s : Srv) : List Event → Srv × List Out × List Frame
  | [] => (s, [], [])
  | ev :: evs =>
    ((runF (stepR s ev).s evs).1, (stepR s ev).out ++ (runF (stepR s ev).s evs).2.1,
      (stepR s ev).fwd ++ (runF (stepR s ev).s evs).2.2)

/-- the frames forwarded to the stream loop in the run of `evs` from the initial state of configuration `cfg` -/
def runFwd (cfg : Cfg) (evs : List Event) : List Frame := (runF { cfg := cfg } evs).2.2

/-- `runF` is `runFrom` (the run of `ServerOnce`, what `runOuts` is made of) with the forwarded frames added -/
theorem runF_eq (s : Srv) (evs : List Event) : ((runF s evs).1, (runF s evs).2.1) = runFrom s evs := by
  induction evs generalizing s with
  | nil => rfl
  | cons ev evs ih =>
    have := ih (stepR s ev).s
    simp only [runF, runFrom, step]
    rw [← this]

theorem runF_state (cfg : Cfg) (evs : List Event) : (runF { cfg := cfg } evs).1 = (run cfg evs).1 := by
  have := runF_eq { cfg := cfg } evs
  exact congrArg Prod.fst this

theorem runF_outs (cfg : Cfg) (evs : List Event) : (runF { cfg := cfg } evs).2.1 = runOuts cfg evs := by
  have := runF_eq { cfg := cfg } evs
  exact congrArg Prod.snd this

theorem runF_append (s : Srv) (a b : List Event) :
    runF s (a ++ b) = ((runF (runF s a).1 b).1, (runF s a).2.1 ++ (runF (runF s a).1 b).2.1,
      (runF s a).2.2 ++ (runF (runF s a).1 b).2.2) := by
  induction a generalizing s with
  | nil => simp [runF]
  | cons ev a ih => simp [runF, ih, List.append_assoc]

/-- the invariant between steps -/
def SInv (O : List Out) (F : List Frame) (s : Srv) : Prop := FI O F { s := s }

theorem FI.flush {O : List Out} {F : List Frame} {r : R} (h : FI O F r) : FI (O ++ r.out) F { s := r.s } := by
  have e : ∀ l : List Out, (l ++ ({ s := r.s } : R).out) = l := fun l => List.append_nil l
  refine ⟨⟨h.t.un, h.t.idn, h.t.ile, h.t.ult, h.t.id0, h.t.ringle, h.t.rstle⟩, ⟨?_, h.a.cpos, h.a.cur, ?_, h.a.fresh, ?_⟩,
    ⟨?_, h.b.lo, h.b.hi⟩, ⟨h.p.1, ?_⟩⟩
  · rw [e]; exact h.a.conn
  · intro hs st hm; rw [e]; exact h.a.led hs st hm
  · intro sid hl; rw [e]; exact h.a.nosent sid hl
  · rw [e]; exact h.b.bal
  · rw [e]; exact h.p.2

theorem step_sinv {O : List Out} {F : List Frame} {s : Srv} (ev : Event) (h : SInv O F s) :
    SInv (O ++ (stepR s ev).out) (F ++ (stepR s ev).fwd) (stepR s ev).s :=
  (stepR_finv s ev h).flush

theorem runF_sinv {O : List Out} {F : List Frame} {s : Srv} (evs : List Event) (h : SInv O F s) :
    SInv (O ++ (runF s evs).2.1) (F ++ (runF s evs).2.2) (runF s evs).1 := by
  induction evs generalizing s O F with
  | nil => simpa [runF] using h
  | cons ev evs ih =>
    have := ih (step_sinv ev h)
    simpa [runF, List.append_assoc] using this

theorem init_sinv (cfg : Cfg) : SInv [] [] { cfg := cfg } := by
  refine ⟨⟨by simp, by simp, by simp, by simp, by simp, by simp, by simp⟩, ⟨?_, ?_, rfl, ?_, ?_, ?_⟩, ⟨⟨0, ?_, fun _ => rfl⟩, ?_, ?_⟩, ⟨Or.inl rfl, ?_⟩⟩
  · simp
  · simp
  · intro _ st hm; cases hm
  · intro _ sid _ _; rfl
  · intro sid _; rfl
  · simp
  · show ((Gen.c_serverMaxWindow : Nat) : Int) / 2 ≤ ((Gen.c_serverMaxWindow : Nat) : Int); omega
  · simp
  · intro o ho; cases ho

/-- **the invariant holds after every run** from the initial state of any configuration -/
theorem run_sinv (cfg : Cfg) (evs : List Event) : SInv (runOuts cfg evs) (runFwd cfg evs) (run cfg evs).1 := by
  have := runF_sinv evs (init_sinv cfg)
  simpa [runF_state, runF_outs, runFwd] using this

/-! ## Part 4 — step level: every DATA frame fits both windows as they are just before it -/

/-- what may be written while a response body is being sent on stream `sid`, read against the connection window `cw`
and the stream's window `w`: DATA frames on `sid`, each empty or (non-empty and) within both windows as they are just
before it and within 16 384 octets, both windows going down by its length; and RST_STREAM -/
def Fits (sid : Nat) : Int → Int → List Out → Prop
  | _, _, [] => True
  | cw, w, o :: l =>
    (match o with
     | .data s _ len _ => s = sid ∧ (len = 0 ∨ (0 < len ∧ (len : Int) ≤ cw ∧ (len : Int) ≤ w ∧ len ≤ 16384))
     | .rst .. => True
     | _ => False) ∧ Fits sid (cw - o.dataLen) (w - o.dataLen) l

theorem Fits_append (sid : Nat) (cw w : Int) (a b : List Out) :
    Fits sid cw w (a ++ b) ↔ Fits sid cw w a ∧ Fits sid (cw - sentC a) (w - sentC a) b := by
  induction a generalizing cw w with
  | nil => simp [Fits]
  | cons o a ih =>
    simp only [List.cons_append, Fits, ih, sentC, List.map_cons, List.sum_cons, and_assoc]
    have e1 : cw - (o.dataLen : Int) - ((List.map Out.dataLen a).sum : Nat) = cw - ((o.dataLen + (List.map Out.dataLen a).sum : Nat) : Int) := by omega
    have e2 : w - (o.dataLen : Int) - ((List.map Out.dataLen a).sum : Nat) = w - ((o.dataLen + (List.map Out.dataLen a).sum : Nat) : Int) := by omega
    rw [e1, e2]

/-- what `refill` writes: nothing, an empty DATA frame with END_STREAM on the stream, or RST_STREAM -/
theorem refill_out (r : R) (uid : Nat) (st : Strm) :
    ∃ l, (refill r uid st).1.out = r.out ++ l ∧ sentC l = 0 ∧ ∀ cw w, Fits st.id cw w l := by
  rw [refill_eq]
  repeat' split
  all_goals first
    | exact ⟨[.rst st.id Gen.c_InternalError], rfl, rfl, fun _ _ => ⟨trivial, trivial⟩⟩
    | exact ⟨[.data st.id true 0 {}], rfl, rfl, fun _ _ => ⟨⟨rfl, Or.inl rfl⟩, trivial⟩⟩
    | exact ⟨[], (List.append_nil _).symm, rfl, fun _ _ => trivial⟩

theorem refill_pend (r : R) (uid : Nat) (st : Strm) (h : (refill r uid st).2.2 = false) :
    (refill r uid st).2.1.pendLen ≠ 0 := by
  revert h
  rw [refill_eq]
  split
  · split
    · intro h; cases h
    · split
      · intro h; cases h
      · split
        · intro h; cases h
        · rename_i hp; intro _; simpa using hp
  · rename_i hp; intro _; simpa using hp

theorem refill_cw (r : R) (uid : Nat) (st : Strm) : (refill r uid st).1.s.clientWindow = r.s.clientWindow := by
  rw [refill_eq]
  repeat' split
  all_goals rfl

/-- the stream after a DATA frame of `step` octets -/
def sentStrm (s : Strm) (rem step : Nat) : Strm :=
  { s with pendOff := s.pendOff + step, pendLen := rem, window := s.window - step }

section
variable {r : R}

/-- **`sendData` never overdraws** (step level, any state with distinct uids and ids): what `sendDataFuel` appends is a
list `l` of DATA frames on the stream's id (and possibly RST_STREAM) that fits the connection window and the stream's
window as they were, frame by frame; the connection window goes down by exactly the octets of `l`, and so does the
window of the stream if it is still in the table -/
theorem sendDataFuel_fits (fuel : Nat) (t : Tbl r) (uid : Nat) (st : Strm) (hg : r.getStrm uid = some st) :
    ∃ l, (sendDataFuel fuel r uid).1.out = r.out ++ l ∧ Fits st.id r.s.clientWindow st.window l ∧
      (sendDataFuel fuel r uid).1.s.clientWindow = r.s.clientWindow - sentC l ∧
      ∀ st', (sendDataFuel fuel r uid).1.getStrm uid = some st' → st'.id = st.id ∧ st'.window = st.window - sentC l := by
  induction fuel generalizing r st with
  | zero =>
    refine ⟨[], by simp [sendDataFuel], trivial, by simp [sendDataFuel], ?_⟩
    intro st' h'
    simp only [sendDataFuel] at h'
    rw [hg] at h'; cases h'
    simp
  | succ n ih =>
    rw [sendDataFuel_succ, hg]
    dsimp only
    have hu : st.uid = uid := (t.the hg).2.1
    obtain ⟨l1, ho1, hz1, hf1⟩ := refill_out r uid st
    have q1 := refill_quiet t uid st hg
    have t1 := q1.tbl t
    obtain ⟨k1, k2, k3⟩ := refill_key r uid st
    have hcw1 := refill_cw r uid st
    split
    · -- the loop ends in `refill`
      refine ⟨l1, ho1, hf1 _ _, by show (refill r uid st).1.s.clientWindow = _; rw [hcw1, hz1]; simp, ?_⟩
      intro st' h'
      obtain ⟨x, hx, hux, hix, hwx⟩ := (closeBody_quiet (refill r uid st).1 uid).was (List.mem_of_find?_eq_some h')
      obtain ⟨y, hy, huy, hiy, hwy⟩ := q1.was hx
      have hu' : st'.uid = uid := by have := List.find?_some h'; simpa using this
      have : y = st := (t.the hg).2.2.1 y hy (by rw [huy, hux, hu'])
      subst this
      rw [hz1]; simp
      exact ⟨by rw [← hix, ← hiy], by rw [← hwx, ← hwy]⟩
    · rename_i hx
      have hg1 := refill_get t uid st hg (by simpa using hx)
      have hp1 := refill_pend r uid st (by simpa using hx)
      split
      · -- blocked by flow control
        refine ⟨l1, ho1, hf1 _ _, by rw [hcw1, hz1]; simp, ?_⟩
        intro st' h'
        rw [hg1] at h'; cases h'
        rw [hz1]; simp
        exact ⟨k2, k3⟩
      · rename_i hav
        -- one frame
        generalize hstep : min (min Gen.c_maxDataFrameSize (availOf (refill r uid st).1 (refill r uid st).2.1).toNat)
          (refill r uid st).2.1.pendLen = step
        have hbound : 0 < step ∧ (step : Int) ≤ r.s.clientWindow ∧ (step : Int) ≤ st.window ∧ step ≤ 16384 := by
          have hc : Gen.c_maxDataFrameSize = 16384 := rfl
          have : availOf (refill r uid st).1 (refill r uid st).2.1 ≤ r.s.clientWindow ∧
              availOf (refill r uid st).1 (refill r uid st).2.1 ≤ st.window := by
            unfold availOf; rw [hcw1, k3]; split <;> omega
          omega
        have hout2 : ∃ es d, (sendFrame (refill r uid st).1 uid (refill r uid st).2.1 step).1.out =
            r.out ++ (l1 ++ [.data st.id es step d]) := ⟨_, _, by
              show (refill r uid st).1.out ++ [Out.data (refill r uid st).2.1.id _ step _] = _
              rw [ho1, k2, List.append_assoc]⟩
        obtain ⟨es, d, hout2⟩ := hout2
        have hfit : Fits st.id r.s.clientWindow st.window (l1 ++ [.data st.id es step d]) := by
          rw [Fits_append]
          refine ⟨hf1 _ _, ⟨rfl, Or.inr ?_⟩, trivial⟩
          rw [hz1]; simp
          exact hbound
        have hsent : sentC (l1 ++ [.data st.id es step d]) = step := by simp [hz1, Out.dataLen]
        have hcw2 : (sendFrame (refill r uid st).1 uid (refill r uid st).2.1 step).1.s.clientWindow = r.s.clientWindow - step := by
          show (refill r uid st).1.s.clientWindow - step = _
          rw [hcw1]
        have hg2 : (sendFrame (refill r uid st).1 uid (refill r uid st).2.1 step).1.getStrm uid =
            some (sentStrm (refill r uid st).2.1 ((refill r uid st).2.1.pendLen - step) step) :=
          getStrm_upd (refill r uid st).1 uid (fun s => sentStrm s ((refill r uid st).2.1.pendLen - step) step) _
            (fun _ hx => hx) hg1
        have t2 : Tbl (sendFrame (refill r uid st).1 uid (refill r uid st).2.1 step).1 := by
          refine t1.map (fun s => if s.uid == uid then sentStrm s ((refill r uid st).2.1.pendLen - step) step else s)
            ?_ _ rfl rfl rfl rfl rfl rfl
          intro x; split <;> exact ⟨rfl, rfl⟩
        split
        · -- END_STREAM sent
          refine ⟨_, hout2, hfit, by show (sendFrame (refill r uid st).1 uid (refill r uid st).2.1 step).1.s.clientWindow = _; rw [hcw2, hsent], ?_⟩
          intro st' h'
          have h2 := getStrm_upd _ uid (fun s => { s with stream := none }) _ (fun _ hx => hx) hg2
          have h3 : (closeBody (sendFrame (refill r uid st).1 uid (refill r uid st).2.1 step).1 uid).getStrm uid = _ := h2
          rw [h3] at h'; cases h'
          rw [hsent]
          exact ⟨k2, by show (refill r uid st).2.1.window - step = _; rw [k3]⟩
        · -- go on
          obtain ⟨l3, ho3, hf3, hc3, hs3⟩ := ih t2 _ hg2
          refine ⟨(l1 ++ [.data st.id es step d]) ++ l3, ?_, ?_, ?_, ?_⟩
          · rw [ho3, hout2, List.append_assoc]
          · rw [Fits_append]
            refine ⟨hfit, ?_⟩
            rw [hsent]
            have := hf3
            rw [hcw2] at this
            have e1 : (sentStrm (refill r uid st).2.1 ((refill r uid st).2.1.pendLen - step) step).id = st.id := k2
            have e2 : (sentStrm (refill r uid st).2.1 ((refill r uid st).2.1.pendLen - step) step).window = st.window - step := by
              show (refill r uid st).2.1.window - step = _
              rw [k3]
            rw [e1, e2] at this
            exact this
          · rw [hc3, hcw2, sentC_append, hsent]; omega
          · intro st' h'
            obtain ⟨a, b⟩ := hs3 st' h'
            refine ⟨by rw [a]; exact k2, ?_⟩
            rw [b, sentC_append, hsent]
            show (refill r uid st).2.1.window - step - _ = _
            rw [k3]; omega

end


/-! ## Part 5 — the run-level theorems -/

/-- **connection send ledger** (every configuration, every event list): the connection send window plus the DATA octets
written equals 65 535 plus the increments of the connection-level WINDOW_UPDATE frames the read loop forwarded; the
window is never negative -/
theorem conn_ledger (cfg : Cfg) (evs : List Event) :
    (run cfg evs).1.clientWindow + (sentC (runOuts cfg evs) : Int) = 65535 + (grantC (runFwd cfg evs) : Int) ∧
      0 ≤ (run cfg evs).1.clientWindow := by
  have h := run_sinv cfg evs
  have := h.a.conn
  have e : ((Gen.c_defaultWindowSize : Nat) : Int) = 65535 := rfl
  rw [e] at this
  exact ⟨by simpa using this, h.a.cpos⟩

/-- … so the DATA octets written never exceed what the peer has granted the connection, and this holds for every
prefix of the outputs too (the grants counted are those of the whole run: increments are not negative) -/
theorem conn_never_overdrawn (cfg : Cfg) (evs : List Event) (p : List Out) (hp : p <+: runOuts cfg evs) :
    sentC p ≤ 65535 + grantC (runFwd cfg evs) := by
  obtain ⟨q, hq⟩ := hp
  have h := conn_ledger cfg evs
  rw [← hq, sentC_append] at h
  omega

/-- **stream send ledger**: while the stream loop runs, for every stream of the table, its send window plus the DATA
octets written on its id equals the peer's SETTINGS_INITIAL_WINDOW_SIZE in force (65 535 or the last value forwarded —
changes reach every stream of the table as `new − old`, possibly driving a window negative) plus the increments of the
WINDOW_UPDATE frames forwarded on that id -/
theorem stream_ledger (cfg : Cfg) (evs : List Event) (hrun : (run cfg evs).1.slStopped = false) :
    ∀ st ∈ (run cfg evs).1.strms,
      st.window + (sentS st.id (runOuts cfg evs) : Int) = initWin (runFwd cfg evs) + (wuS st.id (runFwd cfg evs) : Int) := by
  intro st hm
  have h := run_sinv cfg evs
  have := h.a.led hrun st hm
  rw [h.a.cur] at this
  simpa using this

/-- new streams start at the initial window in force -/
theorem init_window_in_force (cfg : Cfg) (evs : List Event) :
    (run cfg evs).1.curInitWin = initWin (runFwd cfg evs) := (run_sinv cfg evs).a.cur

/-- the stream table of a reachable state: distinct stream objects, distinct ids, none 0, none above `lastID` -/
theorem reachable_tbl (cfg : Cfg) (evs : List Event) : Tbl { s := (run cfg evs).1 } := (run_sinv cfg evs).t

/-- **no DATA frame exceeds the peer's MAX_FRAME_SIZE**: every DATA frame of a run carries at most 16 384 octets, and
the peer's SETTINGS_MAX_FRAME_SIZE as the server stores it is unset (0, i.e. 16 384 in force) or at least 16 384 -/
theorem data_frames_small (cfg : Cfg) (evs : List Event) :
    (∀ o ∈ runOuts cfg evs, o.dataLen ≤ 16384) ∧
      ((run cfg evs).1.peerFrameSize = 0 ∨ 16384 ≤ (run cfg evs).1.peerFrameSize) := by
  have h := run_sinv cfg evs
  refine ⟨?_, h.p.1⟩
  intro o ho
  have := h.p.2 o (by simpa using ho)
  cases o <;> simp_all [Out.bad, Out.dataLen]

/-- **never an increment of 0**: no WINDOW_UPDATE of a run has increment 0 -/
theorem no_zero_increment (cfg : Cfg) (evs : List Event) (sid inc : Nat) (h : Out.wu sid inc ∈ runOuts cfg evs) : 0 < inc := by
  have := (run_sinv cfg evs).p.2 (.wu sid inc) (by simpa using h)
  simp only [Out.bad, beq_eq_false_iff_ne, ne_eq] at this
  omega

/-- **connection receive ledger**: the receive window plus the flow-controlled octets of the DATA frames forwarded
equals 4 MiB (what the handshake announces) plus the credit handed back plus `lost`, the octets of DATA frames that
were answered with a connection error; `lost` is 0 as long as no GOAWAY has been written. The window stays between
half of 4 MiB and 4 MiB. -/
theorem recv_ledger (cfg : Cfg) (evs : List Event) :
    (∃ lost : Nat, (run cfg evs).1.recvWin + (dataFwd (runFwd cfg evs) : Int) =
        (Gen.c_serverMaxWindow : Nat) + (cred0 (runOuts cfg evs) : Int) + (lost : Int) ∧
      (cnt .goAway (runOuts cfg evs) = 0 → lost = 0)) ∧
    ((Gen.c_serverMaxWindow : Nat) : Int) / 2 ≤ (run cfg evs).1.recvWin ∧
    (run cfg evs).1.recvWin ≤ ((Gen.c_serverMaxWindow : Nat) : Int) := by
  have h := run_sinv cfg evs
  refine ⟨?_, h.b.lo, h.b.hi⟩
  obtain ⟨lost, h1, h2⟩ := h.b.bal
  exact ⟨lost, by simpa using h1, by simpa using h2⟩

/-- … without a connection error: `recvWin + (received − credited) = serverMaxWindow`, and what is outstanding never
exceeds half the window -/
theorem recv_conservation (cfg : Cfg) (evs : List Event) (hga : cnt .goAway (runOuts cfg evs) = 0) :
    (run cfg evs).1.recvWin + ((dataFwd (runFwd cfg evs) : Int) - (cred0 (runOuts cfg evs) : Int)) = (Gen.c_serverMaxWindow : Nat) ∧
    0 ≤ (dataFwd (runFwd cfg evs) : Int) - (cred0 (runOuts cfg evs) : Int) ∧
    (dataFwd (runFwd cfg evs) : Int) - (cred0 (runOuts cfg evs) : Int) ≤ ((Gen.c_serverMaxWindow : Nat) : Int) - ((Gen.c_serverMaxWindow : Nat) : Int) / 2 := by
  obtain ⟨⟨lost, h1, h2⟩, lo, hi⟩ := recv_ledger cfg evs
  have := h2 hga
  subst this
  refine ⟨by omega, by omega, by omega⟩

/-- … and in every run the server never credits more than it received -/
theorem recv_never_overcredits (cfg : Cfg) (evs : List Event) : cred0 (runOuts cfg evs) ≤ dataFwd (runFwd cfg evs) := by
  obtain ⟨⟨lost, h1, _⟩, _, hi⟩ := recv_ledger cfg evs
  omega

/-! ### one step from a state that satisfies the invariant (`windows_only_grow_by_grants`) -/

/-- **the windows only move by what is sent and what is granted**: across one event, from any state satisfying the
invariant, the connection window changes by the grants of the step minus the DATA octets of the step; while the stream
loop runs, a stream that stays in the table changes by the SETTINGS delta of the step plus the WINDOW_UPDATE increments
forwarded on its id minus the DATA octets written on its id; a stream that enters the table (its id was above
`lastID` and above every refused id) starts from the initial window in force -/
theorem step_ledger {O : List Out} {F : List Frame} {s : Srv} (h : SInv O F s) (ev : Event) :
    (stepR s ev).s.clientWindow + (sentC (stepR s ev).out : Int) = s.clientWindow + (grantC (stepR s ev).fwd : Int) ∧
    ((stepR s ev).s.slStopped = false → s.slStopped = false →
      ∀ st' ∈ (stepR s ev).s.strms,
        (∀ st ∈ s.strms, st.id = st'.id →
          st'.window + (sentS st'.id (stepR s ev).out : Int) =
            st.window + ((stepR s ev).s.curInitWin - s.curInitWin) + (wuS st'.id (stepR s ev).fwd : Int)) ∧
        (s.lastID < st'.id → s.lastRefused < st'.id →
          st'.window + (sentS st'.id (stepR s ev).out : Int) =
            (stepR s ev).s.curInitWin + (wuS st'.id (stepR s ev).fwd : Int))) := by
  have h' := step_sinv ev h
  have a0 : s.clientWindow + (sentC (O ++ []) : Int) = (Gen.c_defaultWindowSize : Nat) + (grantC F : Int) := h.a.conn
  have b0 : (stepR s ev).s.clientWindow + (sentC ((O ++ (stepR s ev).out) ++ []) : Int) =
      (Gen.c_defaultWindowSize : Nat) + (grantC (F ++ (stepR s ev).fwd) : Int) := h'.a.conn
  constructor
  · simp only [sentC_append, grantC_append, List.append_nil] at a0 b0
    omega
  · intro hs' hs st' hm'
    have b : st'.window + (sentS st'.id ((O ++ (stepR s ev).out) ++ []) : Int) =
        (stepR s ev).s.curInitWin + (wuS st'.id (F ++ (stepR s ev).fwd) : Int) := h'.a.led hs' st' hm'
    simp only [List.append_nil, sentS_append, wuS_append] at b
    constructor
    · intro st hm hid
      have a : st.window + (sentS st.id (O ++ []) : Int) = s.curInitWin + (wuS st.id F : Int) := h.a.led hs st hm
      simp only [List.append_nil] at a
      rw [hid] at a
      omega
    · intro h1 h2
      have a1 : sentS st'.id (O ++ []) = 0 := h.a.nosent st'.id h1
      have a2 : wuS st'.id F = 0 := h.a.fresh hs st'.id h1 h2
      simp only [List.append_nil] at a1
      rw [a1, a2] at b
      omega

/-- … and this applies to every state of every run -/
theorem reachable_sinv (cfg : Cfg) (evs : List Event) : SInv (runOuts cfg evs) (runFwd cfg evs) (run cfg evs).1 :=
  run_sinv cfg evs

/-! ### `sendData` and its callers (step level) -/

section
variable {r : R}

theorem sendData_fits (t : Tbl r) (uid : Nat) (st : Strm) (hg : r.getStrm uid = some st) :
    ∃ l, (sendData r uid).1.out = r.out ++ l ∧ Fits st.id r.s.clientWindow st.window l ∧
      (sendData r uid).1.s.clientWindow = r.s.clientWindow - sentC l ∧
      ∀ st', (sendData r uid).1.getStrm uid = some st' → st'.id = st.id ∧ st'.window = st.window - sentC l := by
  unfold sendData
  rw [hg]
  exact sendDataFuel_fits _ t uid st hg

/-- **one DATA frame**: exactly what `sendFrame` does -/
theorem sendFrame_spec (r : R) (uid : Nat) (st : Strm) (step : Nat) :
    (∃ es d, (sendFrame r uid st step).1.out = r.out ++ [.data st.id es step d]) ∧
    (sendFrame r uid st step).1.s.clientWindow = r.s.clientWindow - step ∧
    (sendFrame r uid st step).1.s.strms = r.s.strms.map (fun s => if s.uid == uid then sentStrm s (st.pendLen - step) step else s) :=
  ⟨⟨_, _, rfl⟩, rfl, rfl⟩

/-- `flushOne` is `sendData` on that stream, or nothing -/
theorem flushOne_sends (acc : R × List Nat) (uid : Nat) :
    (flushOne acc uid).1 = acc.1 ∨ (flushOne acc uid).1 = (sendData acc.1 uid).1 := by
  unfold flushOne
  repeat' split
  all_goals first | exact Or.inl rfl | exact Or.inr rfl

/-- `finishRequest` once the response is known (a handler panic has been turned into a 500 without body) -/
def finishBody (r : R) (uid : Nat) (st : Strm) (resp : Resp) : R × Bool :=
  let hasBody := resp.kind == "stream" || (resp.kind == "buf" && resp.len > 0)
  let r := responseHeaders r st resp hasBody
  if !hasBody then (r, true)
  else
    let r := if resp.kind == "stream" then
        r.updStrm uid fun s => { s with stream := some resp.stream, bodySize := resp.size, bodyRead := 0,
                                        src := resp.src, pendOff := 0, pendLen := 0, pendingEnd := false }
      else
        r.updStrm uid fun s => { s with src := resp.src, pendOff := 0, pendLen := resp.len, pendingEnd := true }
    sendData r uid

theorem finishRequest_eq (r : R) (uid : Nat) (resp : Resp) :
    finishRequest r uid resp =
      match r.getStrm uid with
      | none => (r, true)
      | some st =>
        finishBody r uid st (if resp.kind == "panic" then
          { (default : Resp) with status := 500, kind := "none", view := resp.view } else resp) := rfl

/-- `finishRequest` writes the response HEADERS (no window moves) and then is `sendData`, or nothing more -/
theorem finishRequest_sends (uid : Nat) (resp : Resp) :
    ∃ r0, Quiet r r0 ∧ wtab r0 = wtab r ∧
      ((finishRequest r uid resp).1 = r0 ∨ (finishRequest r uid resp).1 = (sendData r0 uid).1) := by
  rw [finishRequest_eq]
  split
  · exact ⟨r, Quiet.refl r, rfl, Or.inl rfl⟩
  · generalize (if resp.kind == "panic" then
          { (default : Resp) with status := 500, kind := "none", view := resp.view } else resp) = resp'
    have hq : ∀ st resp hb, Quiet r (responseHeaders r st resp hb) ∧ wtab (responseHeaders r st resp hb) = wtab r := by
      intro st resp hb
      refine ⟨responseHeaders_quiet r st resp hb, ?_⟩
      unfold responseHeaders
      simp only []
      split <;> rfl
    have hu : ∀ (r1 : R) (f : Strm → Strm), (∀ x, (f x).uid = x.uid ∧ (f x).id = x.id ∧ (f x).window = x.window) →
        wtab (r1.updStrm uid f) = wtab r1 := by
      intro r1 f hf
      simp only [wtab, R.updStrm, List.map_map]
      apply List.map_congr_left
      intro x _
      by_cases hx : x.uid = uid
      · obtain ⟨a, b, c⟩ := hf x
        simp [hx, a, b, c]
      · simp [hx]
    unfold finishBody
    dsimp only
    split
    · exact ⟨_, (hq _ _ _).1, (hq _ _ _).2, Or.inl rfl⟩
    · refine ⟨_, ?q, ?w, Or.inr rfl⟩
      case q =>
        split
        · exact (hq _ _ _).1.trans (upd_quiet _ _ _ fun _ _ _ => ⟨rfl, rfl, rfl⟩)
        · exact (hq _ _ _).1.trans (upd_quiet _ _ _ fun _ _ _ => ⟨rfl, rfl, rfl⟩)
      case w =>
        split
        · refine Eq.trans (hu _ _ ?_) (hq _ _ _).2
          intro x; exact ⟨rfl, rfl, rfl⟩
        · refine Eq.trans (hu _ _ ?_) (hq _ _ _).2
          intro x; exact ⟨rfl, rfl, rfl⟩

/-- `dispatchOrSend` hands the request over or resets the stream (no DATA, no window moves), or is `sendData` -/
theorem dispatchOrSend_sends (uid : Nat) (st : Strm) (hle : st.id ≤ r.s.lastID) :
    Quiet r (dispatchOrSend r uid st) ∨
      ∃ r1, Quiet (sendData r uid).1 r1 ∧ dispatchOrSend r uid st = r1 := by
  unfold dispatchOrSend
  split
  · left
    have q := upd_quiet r uid (fun s => { s with responded := true }) fun _ _ _ => ⟨rfl, rfl, rfl⟩
    split
    · exact (q.trans (writeReset_quiet _ _ _ (Or.inl (by rw [q.lid]; exact hle)))).trans
        (upd_quiet _ _ _ fun _ _ _ => ⟨rfl, rfl, rfl⟩)
    · exact q.trans (dispatch_quiet _ _ _)
  · split
    · right
      dsimp only
      split
      · refine ⟨_, ?_, rfl⟩
        exact upd_quiet _ _ _ fun _ _ _ => ⟨rfl, rfl, rfl⟩
      · exact ⟨_, Quiet.refl _, rfl⟩
    · exact Or.inl (Quiet.refl r)

end


/-! ### where a send window goes up (function level) -/

/-- **WINDOW_UPDATE on a stream**: `handleFrame` on a frame it lets through (stream not idle, increment not 0) raises
the window of the stream object `uid` by the increment and does nothing else -/
theorem handleFrame_wu (r : R) (uid : Nat) (fr : Frame) (st : Strm) (hg : r.getStrm uid = some st)
    (hv : verifyState st fr = none) (ht : fr.typ = Gen.c_FrameWindowUpdate) (hs : (st.state == .idle) = false)
    (hi : (wuOf fr == 0) = false) :
    (handleFrame r uid fr).1 = r.updStrm uid fun s => { s with window := st.window + wuOf fr } := by
  rw [handleFrame_eq, hg]
  simp only [hv, ht]
  have e1 : (Gen.c_FrameWindowUpdate == Gen.c_FrameHeaders || Gen.c_FrameWindowUpdate == Gen.c_FrameContinuation) = false := rfl
  have e2 : (Gen.c_FrameWindowUpdate == Gen.c_FrameData) = false := rfl
  have e3 : (Gen.c_FrameWindowUpdate == Gen.c_FrameResetStream) = false := rfl
  have e4 : (Gen.c_FrameWindowUpdate == Gen.c_FramePriority) = false := rfl
  simp only [e1, e2, e3, e4, Bool.false_eq_true, if_false, beq_self_eq_true, if_true]
  unfold hfWU
  simp only [hs, hi, Bool.false_eq_true, if_false]
  split <;> rfl

/-- **no window moves elsewhere**: in a state whose table has distinct uids and ids, none of these functions changes
`clientWindow` or the window of a stream, creates a stream, writes a DATA octet or forwards a frame (`Quiet`: streams
may leave the table, ids may be remembered as closed / reset, GOAWAY / RST_STREAM / HEADERS may be written) -/
theorem quiet_functions {r : R} (t : Tbl r) (uid : Nat) (fr : Frame) (e : SErr) (oe : Option SErr) (st : Strm) (resp : Resp)
    (hb : Bool) (fuel id : Nat) :
    Quiet r (writeError r uid e) ∧ Quiet r (closeStream r uid) ∧ Quiet r (closeDone r uid) ∧
    Quiet r (closeIfClosed r uid) ∧ Quiet r (closeIdleBelow fuel r id) ∧ Quiet r (headersPrelude r fr).1 ∧
    Quiet r (onFrameError r uid oe).1 ∧ Quiet r (dispatch r uid st) ∧ Quiet r (responseHeaders r st resp hb) ∧
    Quiet r (contCheck r fr).1 ∧ Quiet r (closeBody r uid) ∧ Quiet r (settle r) ∧
    (r.getStrm uid = some st → Quiet r (refill r uid st).1 ∧ Quiet r (hfHeaders r uid st fr).1) :=
  ⟨writeError_quiet t uid e, closeStream_quiet t uid, closeDone_quiet t uid, closeIfClosed_quiet t uid,
    closeIdleBelow_quiet fuel t id, headersPrelude_quiet t fr, onFrameError_quiet t uid oe, dispatch_quiet r uid st,
    responseHeaders_quiet r st resp hb, contCheck_quiet r fr, closeBody_quiet r uid, settle_quiet r,
    fun hg => ⟨refill_quiet t uid st hg, hfHeaders_quiet t uid st fr hg⟩⟩


end H2.Server
