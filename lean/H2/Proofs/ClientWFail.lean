import H2.Client.Model
/-! Serial client model: what a failed write (`failwrite`) does to the connection and its requests (C12). -/
namespace H2.Client

/-- `Ctx.resolve` never replaces a result that is already waiting -/
theorem Req.resolve_keeps (r : Req) (e x : Err) (h : r.errBuf = some x) : (r.resolve e).errBuf = some x := by
  simp [Req.resolve, h]

/-- after `Ctx.resolve` the request has a result waiting, or its caller has already taken one -/
theorem Req.resolve_settled (r : Req) (e : Err) : (r.resolve e).errBuf.isSome = true ∨ (r.resolve e).done = true := by
  unfold Req.resolve
  by_cases h : (r.done || r.errBuf.isSome) = true
  · simp only [h, if_true]
    rcases Bool.or_eq_true _ _ |>.mp h with h | h
    · exact Or.inr h
    · exact Or.inl h
  · simp [h]

theorem Req.resolve_tag' (r : Req) (e : Err) : (r.resolve e).tag = r.tag := by
  unfold Req.resolve; split <;> rfl

theorem dieWith_dead (c : Conn) (e : Err) : (dieWith c e).dead = true := rfl

theorem dieWith_table_empty (c : Conn) (e : Err) : (dieWith c e).reqQueued = [] := rfl

theorem setLastErr_reqs (c : Conn) (e : Err) : (setLastErr c e).reqs = c.reqs := by
  unfold setLastErr; split <;> rfl

theorem setLastErr_reqQueued (c : Conn) (e : Err) : (setLastErr c e).reqQueued = c.reqQueued := by
  unfold setLastErr; split <;> rfl

/-- the requests after the teardown are the requests before it, each either untouched or resolved -/
theorem dieWith_reqs (c : Conn) (e : Err) :
    (dieWith c e).reqs = c.reqs.map fun r => if (c.reqQueued.any fun p => p.2 == r.tag) then r.resolve e else r := by
  simp only [dieWith, setLastErr_reqs, setLastErr_reqQueued]

/-- **every request still in the stream table when the connection ends has a result afterwards** -/
theorem dieWith_resolves (c : Conn) (e : Err) (r : Req) (hr : r ∈ c.reqs)
    (hq : (c.reqQueued.any fun p => p.2 == r.tag) = true) :
    ∃ r' ∈ (dieWith c e).reqs, r'.tag = r.tag ∧ (r'.errBuf.isSome = true ∨ r'.done = true) := by
  refine ⟨r.resolve e, ?_, Req.resolve_tag' r e, Req.resolve_settled r e⟩
  rw [dieWith_reqs]
  exact List.mem_map.mpr ⟨r, hr, by simp [hq]⟩

/-- **and no result that was already waiting is replaced** (exactly one result per request) -/
theorem dieWith_keeps (c : Conn) (e x : Err) (r' : Req) (hr : r' ∈ (dieWith c e).reqs) :
    ∃ r ∈ c.reqs, r'.tag = r.tag ∧ (r.errBuf = some x → r'.errBuf = some x) := by
  rw [dieWith_reqs] at hr
  obtain ⟨r, hm, rfl⟩ := List.mem_map.mp hr
  refine ⟨r, hm, ?_, ?_⟩
  · split
    · exact Req.resolve_tag' r e
    · rfl
  · intro h
    split
    · exact Req.resolve_keeps r e x h
    · exact h

/-- the octets a step writes are beyond what the transport still takes: the step ends the connection,
with `write-err` as the recorded reason unless one was recorded before -/
theorem afterWrites_over (c : Conn) (fs : List OutFrame) (b : Nat)
    (hb : (wireBytes c fs).1.wbudget = some b) (ho : b < (wireBytes c fs).2) :
    (afterWrites c fs).1 = dieWith (wireBytes c fs).1 .writeErr ∧ (afterWrites c fs).1.dead = true := by
  have : ¬ (wireBytes c fs).2 ≤ b := by omega
  simp [afterWrites, hb, this, dieWith_dead]

/-- within the budget the step's frames all go out and the budget shrinks by exactly their octets -/
theorem afterWrites_within (c : Conn) (fs : List OutFrame) (b : Nat)
    (hb : (wireBytes c fs).1.wbudget = some b) (hw : (wireBytes c fs).2 ≤ b) :
    (afterWrites c fs).1 = { (wireBytes c fs).1 with wbudget := some (b - (wireBytes c fs).2) } := by
  simp [afterWrites, hb, hw]

/-- a transport that never fails: the write-failure layer changes nothing a caller or the peer can see -/
theorem afterWrites_never (c : Conn) (fs : List OutFrame) (hb : (wireBytes c fs).1.wbudget = none) :
    (afterWrites c fs).1 = (wireBytes c fs).1 := by
  simp [afterWrites, hb]

end H2.Client
