import H2.Huffman.Rfc
/-! Helper lemmas for C15. Table facts by kernel evaluation; everything else by induction. -/
namespace H2.Huffman

/-! ### table facts (kernel evaluation over the regenerated table; no axioms) -/
theorem fact_walk : table.all (fun (s, bs) => trie.walk bs == some (s, [])) = true := by decide +kernel
theorem fact_leaves : (trie.leaves []).all (fun (s, p) => s < 256 && p == code s) = true := by decide +kernel
theorem fact_ones : (List.range 8).all (fun k => (trie.descend (List.replicate k true)).isNode) = true := by decide +kernel
theorem fact_root : trie.isNode = true := by decide +kernel
theorem fact_lens : Gen.huffLens = rfcLens := by decide +kernel
theorem fact_canonical :
    (List.range 256).all (fun s => canonicalCodeOf rfcLensWithEos s == Gen.huffCodes.getD s 0) = true := by
  decide +kernel
theorem fact_eos : canonicalCodeOf rfcLensWithEos 256 = 2 ^ 30 - 1 := by decide +kernel
theorem fact_byte_roundtrip : ∀ x, x < 256 → natOfBits (bitsOf x 8) = x := by decide +kernel
theorem fact_bits_roundtrip : ∀ b0 b1 b2 b3 b4 b5 b6 b7 : Bool,
    bitsOf (natOfBits [b0, b1, b2, b3, b4, b5, b6, b7]) 8 = [b0, b1, b2, b3, b4, b5, b6, b7] := by decide +kernel
theorem fact_byte_lt : ∀ b0 b1 b2 b3 b4 b5 b6 b7 : Bool,
    natOfBits [b0, b1, b2, b3, b4, b5, b6, b7] < 256 := by decide +kernel

/-! ### generic lemmas -/
theorem walk_append (t : Tree) (bs rest : List Bool) (s : Nat) :
    t.walk bs = some (s, []) → t.walk (bs ++ rest) = some (s, rest) := by
  induction bs generalizing t with
  | nil => cases t <;> simp [Tree.walk]
  | cons b bs ih =>
    cases t with
    | empty => simp [Tree.walk]
    | leaf x => simp [Tree.walk]
    | node l r =>
      simp only [Tree.walk, List.cons_append]
      cases b <;> simp <;> exact ih _

theorem trie_walk_code (s : Nat) (hs : s < 256) (rest : List Bool) :
    trie.walk (code s ++ rest) = some (s, rest) := by
  apply walk_append
  have h := fact_walk
  rw [List.all_eq_true] at h
  have hm : (s, code s) ∈ table := by
    simp only [table, List.mem_map, List.mem_range]
    exact ⟨s, hs, rfl⟩
  have := h _ hm
  simpa using this

theorem decGo_walk (root : Tree) (l r : Tree) (bits rest : List Bool) (s pend : Nat) (ones : Bool) (acc : List Nat) :
    (Tree.node l r).walk bits = some (s, rest) →
    decGo root (.node l r) pend ones bits acc = decGo root root 0 true rest (s :: acc) := by
  induction bits generalizing l r pend ones with
  | nil => simp [Tree.walk]
  | cons b bs ih =>
    intro h
    simp only [Tree.walk] at h
    simp only [decGo, Tree.child]
    cases b
    · simp only [Bool.false_eq_true, if_false] at h ⊢
      cases l with
      | empty => simp [Tree.walk] at h
      | leaf x => simp only [Tree.walk, Option.some.injEq, Prod.mk.injEq] at h; obtain ⟨rfl, rfl⟩ := h; rfl
      | node l' r' => exact ih _ _ _ _ h
    · simp only [if_true] at h ⊢
      cases r with
      | empty => simp [Tree.walk] at h
      | leaf x => simp only [Tree.walk, Option.some.injEq, Prod.mk.injEq] at h; obtain ⟨rfl, rfl⟩ := h; rfl
      | node l' r' => exact ih _ _ _ _ h

theorem trie_node : ∃ l r, trie = .node l r := by
  have h := fact_root
  cases ht : trie with
  | empty => rw [ht] at h; simp [Tree.isNode] at h
  | leaf x => rw [ht] at h; simp [Tree.isNode] at h
  | node l r => exact ⟨l, r, rfl⟩

theorem decGo_encBits (s : List Nat) (hs : ∀ x ∈ s, x < 256) (rest : List Bool) (acc : List Nat) :
    decGo trie trie 0 true (encBits s ++ rest) acc = decGo trie trie 0 true rest (s.reverse ++ acc) := by
  induction s generalizing acc with
  | nil => simp [encBits]
  | cons x xs ih =>
    have hx : x < 256 := hs x (by simp)
    have hxs : ∀ y ∈ xs, y < 256 := fun y hy => hs y (by simp [hy])
    obtain ⟨l, r, htr⟩ := trie_node
    have hw := trie_walk_code x hx (encBits xs ++ rest)
    have : encBits (x :: xs) ++ rest = code x ++ (encBits xs ++ rest) := by
      simp [encBits, List.flatMap_cons, List.append_assoc]
    rw [this]
    have step := decGo_walk trie l r (code x ++ (encBits xs ++ rest)) (encBits xs ++ rest) x 0 true acc (by rw [← htr]; exact hw)
    rw [← htr] at step
    rw [step, ih hxs]
    simp [List.append_assoc]

theorem decGo_ones (root cur : Tree) (k pend : Nat) (acc : List Nat)
    (h : ∀ j, j ≤ k → (cur.descend (List.replicate j true)).isNode = true) :
    decGo root cur pend true (List.replicate k true) acc =
      if pend + k < 8 then some acc.reverse else none := by
  induction k generalizing cur pend with
  | zero => simp [decGo]
  | succ k ih =>
    have h1 := h 1 (by omega)
    simp only [List.replicate, Tree.descend] at h1
    simp only [List.replicate_succ, decGo]
    cases hc : cur.child true with
    | empty => rw [hc] at h1; simp [Tree.isNode] at h1
    | leaf x => rw [hc] at h1; simp [Tree.isNode] at h1
    | node l r =>
      simp only [Bool.and_self]
      rw [ih]
      · have : pend + 1 + k = pend + (k + 1) := by omega
        rw [this]
      · intro j hj
        have := h (j + 1) (by omega)
        simpa [List.replicate_succ, Tree.descend, hc] using this

theorem trie_ones (j : Nat) (hj : j ≤ 7) : (trie.descend (List.replicate j true)).isNode = true := by
  have h := fact_ones
  rw [List.all_eq_true] at h
  exact h j (by simp; omega)

theorem dec_enc (s : List Nat) (hs : ∀ x ∈ s, x < 256) (k : Nat) (hk : k < 8) :
    decGo trie trie 0 true (encBits s ++ List.replicate k true) [] = some s := by
  rw [decGo_encBits s hs]
  rw [decGo_ones trie trie k 0 _ (fun j hj => trie_ones j (by omega))]
  simp [hk]

theorem descend_append (t : Tree) (p q : List Bool) : t.descend (p ++ q) = (t.descend p).descend q := by
  induction p generalizing t with
  | nil => rfl
  | cons b bs ih => simp [Tree.descend, ih]

theorem empty_descend (q : List Bool) : Tree.empty.descend q = .empty := by
  induction q with
  | nil => rfl
  | cons b bs ih => simpa [Tree.descend, Tree.child] using ih

theorem descend_leaf_mem (t : Tree) (p pre : List Bool) (s : Nat) :
    t.descend p = .leaf s → (s, pre.reverse ++ p) ∈ t.leaves pre := by
  induction p generalizing t pre with
  | nil =>
    intro h
    simp only [Tree.descend] at h
    subst h
    simp [Tree.leaves]
  | cons b bs ih =>
    intro h
    cases t with
    | empty =>
      simp only [Tree.descend, Tree.child, empty_descend] at h
      cases h
    | leaf x =>
      simp only [Tree.descend, Tree.child, empty_descend] at h
      cases h
    | node l r =>
      simp only [Tree.descend, Tree.child] at h
      simp only [Tree.leaves, List.mem_append]
      cases b
      · left
        have := ih l (false :: pre) (by simpa using h)
        simpa [List.reverse_cons, List.append_assoc] using this
      · right
        have := ih r (true :: pre) (by simpa using h)
        simpa [List.reverse_cons, List.append_assoc] using this

theorem leaf_path (pth : List Bool) (s : Nat) (h : trie.descend pth = .leaf s) : pth = code s ∧ s < 256 := by
  have hm := descend_leaf_mem trie pth [] s h
  have hf := fact_leaves
  rw [List.all_eq_true] at hf
  have := hf _ hm
  simp only [List.reverse_nil, List.nil_append, Bool.and_eq_true, decide_eq_true_eq, beq_iff_eq] at this
  exact ⟨this.2, this.1⟩

theorem decGo_sound (bits : List Bool) : ∀ (pth : List Bool) (cur : Tree) (acc out : List Nat),
    trie.descend pth = cur →
    decGo trie cur pth.length (pth.all id) bits acc = some out →
    ∃ s' p, out = acc.reverse ++ s' ∧ pth ++ bits = encBits s' ++ p ∧ p.length < 8 ∧
      p.all id = true ∧ ∀ x ∈ s', x < 256 := by
  induction bits with
  | nil =>
    intro pth cur acc out _ h
    simp only [decGo] at h
    split at h
    · rename_i hc
      simp only [Bool.and_eq_true, decide_eq_true_eq] at hc
      refine ⟨[], pth, ?_, ?_, hc.1, hc.2, ?_⟩
      · simpa using (Option.some.inj h).symm
      · simp [encBits]
      · simp
    · simp at h
  | cons b bs ih =>
    intro pth cur acc out hcur h
    simp only [decGo] at h
    cases hc : cur.child b with
    | empty => rw [hc] at h; simp at h
    | leaf s =>
      rw [hc] at h
      simp only at h
      have hd : trie.descend (pth ++ [b]) = .leaf s := by
        rw [descend_append, hcur]; simp [Tree.descend, hc]
      obtain ⟨hp, hs⟩ := leaf_path _ _ hd
      obtain ⟨s'', p, ho, hb, hl, ha, hx⟩ := ih [] trie (s :: acc) out rfl (by simpa using h)
      refine ⟨s :: s'', p, ?_, ?_, hl, ha, ?_⟩
      · simp [ho]
      · have : pth ++ b :: bs = (pth ++ [b]) ++ bs := by simp
        rw [this, hp]
        simp only [List.nil_append] at hb
        rw [hb]
        simp [encBits, List.flatMap_cons, List.append_assoc]
      · intro x hx'
        cases hx' with
        | head => exact hs
        | tail _ hm => exact hx x hm
    | node l r =>
      rw [hc] at h
      simp only at h
      have hd : trie.descend (pth ++ [b]) = .node l r := by
        rw [descend_append, hcur]; simp [Tree.descend, hc]
      have h' : decGo trie (.node l r) (pth ++ [b]).length ((pth ++ [b]).all id) bs acc = some out := by
        simpa [List.all_append, Bool.and_comm] using h
      obtain ⟨s', p, ho, hb, hl, ha, hx⟩ := ih (pth ++ [b]) (.node l r) acc out hd h'
      exact ⟨s', p, ho, by simpa using hb, hl, ha, hx⟩

/-- the bit-level characterisation: accepted iff codes followed by < 8 one-bits -/
theorem dec_iff (bits : List Bool) (s : List Nat) :
    decGo trie trie 0 true bits [] = some s ↔
      ∃ k, k < 8 ∧ bits = encBits s ++ List.replicate k true ∧ ∀ x ∈ s, x < 256 := by
  constructor
  · intro h
    obtain ⟨s', p, ho, hb, hl, ha, hx⟩ := decGo_sound bits [] trie [] s rfl (by simpa using h)
    simp only [List.reverse_nil, List.nil_append] at ho hb
    subst ho
    refine ⟨p.length, hl, ?_, hx⟩
    rw [hb]
    congr 1
    apply List.ext_getElem (by simp)
    intro i h1 h2
    rw [List.all_eq_true] at ha
    have := ha p[i] (List.getElem_mem h1)
    simpa using this
  · rintro ⟨k, hk, rfl, hx⟩
    exact dec_enc s hx k hk

/-! ### octets and bits -/
theorem bitsOf_length (v n : Nat) : (bitsOf v n).length = n := by simp [bitsOf]

theorem unpack_length (b : Bytes) : (unpack b).length = 8 * b.length := by
  induction b with
  | nil => rfl
  | cons x xs ih => simp [unpack, List.flatMap_cons, bitsOf_length] at ih ⊢; omega

theorem pack_unpack (b : Bytes) (h : WF b) : pack (unpack b) = b := by
  induction b with
  | nil => rfl
  | cons x xs ih =>
    have hx : x < 256 := h x (by simp)
    have hxs : WF xs := fun y hy => h y (by simp [hy])
    have h8 : (bitsOf x 8).length = 8 := bitsOf_length x 8
    have e : unpack (x :: xs) = bitsOf x 8 ++ unpack xs := by simp [unpack, List.flatMap_cons]
    rw [e]
    match hb : bitsOf x 8, h8 with
    | [b0, b1, b2, b3, b4, b5, b6, b7], _ =>
      simp only [List.cons_append, List.nil_append, pack]
      rw [← hb, fact_byte_roundtrip x hx, ih hxs]

theorem unpack_pack (bits : List Bool) (n : Nat) (h : bits.length = 8 * n) : unpack (pack bits) = bits := by
  induction n generalizing bits with
  | zero =>
    have : bits = [] := List.eq_nil_of_length_eq_zero (by omega)
    subst this; rfl
  | succ n ih =>
    match bits, h with
    | b0 :: b1 :: b2 :: b3 :: b4 :: b5 :: b6 :: b7 :: rest, h =>
      have hr : rest.length = 8 * n := by simp at h; omega
      simp only [pack]
      have e : unpack (natOfBits [b0, b1, b2, b3, b4, b5, b6, b7] :: pack rest)
          = bitsOf (natOfBits [b0, b1, b2, b3, b4, b5, b6, b7]) 8 ++ unpack (pack rest) := by
        simp [unpack, List.flatMap_cons]
      rw [e, fact_bits_roundtrip, ih rest hr]
      rfl

theorem pack_wf (bits : List Bool) : WF (pack bits) := by
  induction bits using pack.induct with
  | case1 b0 b1 b2 b3 b4 b5 b6 b7 rest ih =>
    intro x hx
    simp only [pack, List.mem_cons] at hx
    rcases hx with rfl | hx
    · exact fact_byte_lt _ _ _ _ _ _ _ _
    · exact ih x hx
  | case2 t h =>
    intro x hx
    rw [pack] at hx
    · cases hx
    · exact h

theorem padLen_lt (n : Nat) : padLen n < 8 := by unfold padLen; omega
theorem padLen_spec (n : Nat) : (n + padLen n) % 8 = 0 := by unfold padLen; omega
theorem padLen_unique (n k : Nat) (hk : k < 8) (h : (n + k) % 8 = 0) : k = padLen n := by
  unfold padLen; omega

end H2.Huffman
