import H2.Proofs.StreamSM.TabA
import H2.Proofs.StreamSM.TabB
import H2.Proofs.StreamSM.OutA
import H2.Proofs.StreamSM.OutB
import H2.Proofs.StreamSM.OutC
/-!
# C08 — proofs about the abstract stream-decision model

The state spaces are finite, so the pointwise facts are established by evaluating a Boolean check over the
whole table (`H2/Proofs/StreamSM/*.lean`) and lifted to `∀` statements here. The statements about event
sequences follow by induction.
-/
namespace H2.Server.StreamSpec
open H2.Server.StreamSM

theorem tableOK_all (p : Pos) : tableOK p = true := by
  cases p with
  | tab st a b c =>
    cases st with
    | idle => have := allB_spec (allB_spec (allB_spec table_tabRest a) b) c; simp only [Bool.and_eq_true] at this; exact this.1
    | closed => have := allB_spec (allB_spec (allB_spec table_tabRest a) b) c; simp only [Bool.and_eq_true] at this; exact this.2
    | «open» => exact allB_spec (allB_spec (allB_spec table_tabOpen a) b) c
    | halfClosed => exact allB_spec (allB_spec (allB_spec table_tabHalf a) b) c
  | out a b c =>
    cases a with
    | true => exact Cmp.forall_spec (allB_spec table_outByUs b) c
    | false =>
      cases b with
      | true => exact Cmp.forall_spec table_outRing c
      | false =>
        have h := table_outGone_rest
        simp only [Bool.and_eq_true] at h
        cases c with
        | above => exact h.1.1
        | gap => exact h.1.2
        | equal => exact h.2
        | below => exact table_outGone_below
  | even => exact table_even

theorem cellOK_all {p : Pos} {σ : SpecSt} (h : sim p σ = true) (f : Fr) (c : Ctx) : cellOK p σ f c = true := by
  have h1 := SpecSt.forall_spec (tableOK_all p) σ
  simp only [h, Bool.not_true, Bool.false_or] at h1
  exact Ctx.forall_spec (Fr.forall_spec h1 f) c

/-- the cell, spelled out -/
theorem cell {p : Pos} {σ : SpecSt} (h : sim p σ = true) (f : Fr) (c : Ctx) (hc : consistent σ c = true) :
    allowed σ f c (react p f c).1 = true ∧
    (isConnErr (react p f c).1 = false → sim (react p f c).2 (next σ f (react p f c).1) = true) ∧
    (legal σ f c = true → (react p f c).1.isError = false) ∧
    ((react p f c).1 = .dispatch → completes σ f = true) ∧
    (legal σ f c = true → completes σ f = true → (react p f c).1 = .dispatch) := by
  have h1 := cellOK_all h f c
  simp only [cellOK, hc, Bool.not_true, Bool.false_or, Bool.and_eq_true, Bool.or_eq_true,
    bne_iff_ne, ne_eq, beq_iff_eq, Bool.not_eq_eq_eq_not] at h1
  obtain ⟨⟨⟨⟨a1, a2⟩, a3⟩, a4⟩, a5⟩ := h1
  refine ⟨a1, ?_, ?_, ?_, ?_⟩
  · intro hn; rcases a2 with a2 | a2
    · rw [hn] at a2; exact absurd a2 (by decide)
    · exact a2
  · intro hl; rcases a3 with a3 | a3
    · rw [hl] at a3; exact absurd a3 (by decide)
    · exact a3
  · intro hd; rcases a4 with a4 | a4
    · exact absurd hd a4
    · exact a4
  · intro hl hcp; rcases a5 with a5 | a5
    · simp [hl, hcp] at a5
    · exact a5

/-! ## the other events -/

def envEvents : List Ev :=
  [.newer, .higherRefused, .evictRing, .forgetReset] ++
  ([false, true].flatMap fun a => [false, true].map fun b => Ev.respEnd a b) ++
  ([false, true].flatMap fun a => [false, true].flatMap fun b => [false, true].map fun c => Ev.handlerDone a b c)

def envOK (p : Pos) (σ : SpecSt) (e : Ev) : Bool :=
  !(sim p σ && e.enabled p) || sim (stepEv p e).2 (envNext σ e)

set_option maxRecDepth 100000 in
theorem env_table : (Pos.forall fun p => SpecSt.forall fun σ => envEvents.all fun e => envOK p σ e) = true := by
  decide +kernel

theorem mem_envEvents (e : Ev) (h : ∀ f c, e ≠ .frame f c) : e ∈ envEvents := by
  cases e with
  | frame f c => exact absurd rfl (h f c)
  | handlerDone a b c => cases a <;> cases b <;> cases c <;> decide
  | respEnd a b => cases a <;> cases b <;> decide
  | newer => decide
  | higherRefused => decide
  | evictRing => decide
  | forgetReset => decide

/-- the events that are not frames of the peer keep the tables describing the RFC state -/
theorem env_preserves {p : Pos} {σ : SpecSt} (h : sim p σ = true) (e : Ev) (hf : ∀ f c, e ≠ .frame f c)
    (hen : e.enabled p = true) : sim (stepEv p e).2 (envNext σ e) = true := by
  have h1 := SpecSt.forall_spec (Pos.forall_spec env_table p) σ
  have h2 := List.all_eq_true.mp h1 e (mem_envEvents e hf)
  simpa [envOK, h, hen] using h2

/-! ## event sequences -/

/-- what happened at one frame of a run: the RFC state it arrived in, the frame, the context, the reaction -/
structure Obs where
  σ : SpecSt
  f : Fr
  c : Ctx
  r : Reaction
deriving Repr, DecidableEq

/-- The abstract model and the RFC state machine run side by side over the events on one stream id. The RFC
state is computed from the history alone (`next`, `envNext`). An event that cannot happen where the stream
is (`Ev.enabled`) is skipped; a connection error ends the run. -/
def jrun (p : Pos) (σ : SpecSt) : List Ev → List Obs
  | [] => []
  | e :: es =>
    if !e.enabled p then jrun p σ es
    else match e with
      | .frame f c =>
        let rp := react p f c
        ⟨σ, f, c, rp.1⟩ :: (if isConnErr rp.1 then [] else jrun rp.2 (next σ f rp.1) es)
      | e => jrun (stepEv p e).2 (envNext σ e) es

/-- every frame's context agrees with the history about the header block in progress (the read loop's
CONTINUATION bookkeeping) -/
def wellCtx (p : Pos) (σ : SpecSt) : List Ev → Bool
  | [] => true
  | e :: es =>
    if !e.enabled p then wellCtx p σ es
    else match e with
      | .frame f c =>
        let rp := react p f c
        consistent σ c && (isConnErr rp.1 || wellCtx rp.2 (next σ f rp.1) es)
      | e => wellCtx (stepEv p e).2 (envNext σ e) es

/-- every frame of the run is one the RFC lets the peer send at that point -/
def legalRun (p : Pos) (σ : SpecSt) : List Ev → Bool
  | [] => true
  | e :: es =>
    if !e.enabled p then legalRun p σ es
    else match e with
      | .frame f c =>
        let rp := react p f c
        legal σ f c && (isConnErr rp.1 || legalRun rp.2 (next σ f rp.1) es)
      | e => legalRun (stepEv p e).2 (envNext σ e) es

theorem jrun_spec {p : Pos} {σ : SpecSt} (es : List Ev) (h : sim p σ = true) (hw : wellCtx p σ es = true) :
    ∀ o ∈ jrun p σ es, allowed o.σ o.f o.c o.r = true ∧ (o.r = .dispatch → completes o.σ o.f = true) := by
  induction es generalizing p σ with
  | nil => intro o ho; simp [jrun] at ho
  | cons e es ih =>
    intro o ho
    unfold jrun at ho
    unfold wellCtx at hw
    by_cases hen : e.enabled p = true
    · simp only [hen, Bool.not_true, Bool.false_eq_true, ↓reduceIte] at ho hw
      cases e with
      | frame f c =>
        simp only [Bool.and_eq_true, Bool.or_eq_true] at hw
        obtain ⟨hc, hrest⟩ := hw
        have hcell := cell h f c hc
        simp only [List.mem_cons] at ho
        rcases ho with rfl | ho
        · exact ⟨hcell.1, hcell.2.2.2.1⟩
        · cases hce : isConnErr (react p f c).1 with
          | true => simp [hce] at ho
          | false =>
            simp only [hce, Bool.false_eq_true, ↓reduceIte] at ho
            rcases hrest with hrest | hrest
            · rw [hce] at hrest; exact absurd hrest (by decide)
            · exact ih (hcell.2.1 hce) hrest o ho
      | handlerDone a b c' =>
        exact ih (env_preserves h _ (by intro f c; exact Ev.noConfusion) hen) hw o ho
      | respEnd a b => exact ih (env_preserves h _ (by intro f c; exact Ev.noConfusion) hen) hw o ho
      | newer => exact ih (env_preserves h _ (by intro f c; exact Ev.noConfusion) hen) hw o ho
      | higherRefused => exact ih (env_preserves h _ (by intro f c; exact Ev.noConfusion) hen) hw o ho
      | evictRing => exact ih (env_preserves h _ (by intro f c; exact Ev.noConfusion) hen) hw o ho
      | forgetReset => exact ih (env_preserves h _ (by intro f c; exact Ev.noConfusion) hen) hw o ho
    · simp only [Bool.not_eq_true] at hen
      simp only [hen, Bool.not_false, ↓reduceIte] at ho hw
      exact ih h hw o ho

theorem jrun_legal {p : Pos} {σ : SpecSt} (es : List Ev) (h : sim p σ = true) (hw : wellCtx p σ es = true)
    (hl : legalRun p σ es = true) : ∀ o ∈ jrun p σ es, o.r.isError = false := by
  induction es generalizing p σ with
  | nil => intro o ho; simp [jrun] at ho
  | cons e es ih =>
    intro o ho
    unfold jrun at ho
    unfold wellCtx at hw
    unfold legalRun at hl
    by_cases hen : e.enabled p = true
    · simp only [hen, Bool.not_true, Bool.false_eq_true, ↓reduceIte] at ho hw hl
      cases e with
      | frame f c =>
        simp only [Bool.and_eq_true, Bool.or_eq_true] at hw hl
        obtain ⟨hc, hrest⟩ := hw
        obtain ⟨hlg, hlrest⟩ := hl
        have hcell := cell h f c hc
        simp only [List.mem_cons] at ho
        rcases ho with rfl | ho
        · exact hcell.2.2.1 hlg
        · cases hce : isConnErr (react p f c).1 with
          | true => simp [hce] at ho
          | false =>
            simp only [hce, Bool.false_eq_true, ↓reduceIte] at ho
            rcases hrest with hrest | hrest
            · rw [hce] at hrest; exact absurd hrest (by decide)
            rcases hlrest with hlrest | hlrest
            · rw [hce] at hlrest; exact absurd hlrest (by decide)
            exact ih (hcell.2.1 hce) hrest hlrest o ho
      | handlerDone a b c' => exact ih (env_preserves h _ (by intro f c; exact Ev.noConfusion) hen) hw hl o ho
      | respEnd a b => exact ih (env_preserves h _ (by intro f c; exact Ev.noConfusion) hen) hw hl o ho
      | newer => exact ih (env_preserves h _ (by intro f c; exact Ev.noConfusion) hen) hw hl o ho
      | higherRefused => exact ih (env_preserves h _ (by intro f c; exact Ev.noConfusion) hen) hw hl o ho
      | evictRing => exact ih (env_preserves h _ (by intro f c; exact Ev.noConfusion) hen) hw hl o ho
      | forgetReset => exact ih (env_preserves h _ (by intro f c; exact Ev.noConfusion) hen) hw hl o ho
    · simp only [Bool.not_eq_true] at hen
      simp only [hen, Bool.not_false, ↓reduceIte] at ho hw hl
      exact ih h hw hl o ho

end H2.Server.StreamSpec
