import H2.Proofs.ClientRunGoAway
/-!
# Full serial client model: the counter `openStreams` never undercounts the table of waiting streams

`SlackLe c c'`: `openStreams − |reqQueued|` does not go down. It holds of every function of the model: a stream leaves
the table with the counter decremented (`takeReq`) or without (`dispatch`/`refuse` on a request its caller has taken
back); a stream enters it with the counter incremented (`writeRequest`). So in every reachable state
`|reqQueued| ≤ openStreams`, and with C18c (`headers_within_limit`): whenever HEADERS is written, the streams still
waiting for their response are fewer than the server's MAX_CONCURRENT_STREAMS.
-/
namespace H2.Client

def SlackLe (c c' : Conn) : Prop :=
  c.openStreams - (c.reqQueued.length : Int) ≤ c'.openStreams - (c'.reqQueued.length : Int)

theorem SlackLe.refl (c : Conn) : SlackLe c c := Int.le_refl _
theorem SlackLe.trans {a b c : Conn} (h1 : SlackLe a b) (h2 : SlackLe b c) : SlackLe a c := Int.le_trans h1 h2
theorem SlackLe.of_eq {c c' : Conn} (h1 : c'.openStreams = c.openStreams) (h2 : c'.reqQueued = c.reqQueued) : SlackLe c c' := by
  unfold SlackLe; rw [h1, h2]; exact Int.le_refl _

theorem eraseA_length_le {α} (l : List (Nat × α)) (k : Nat) : (eraseA l k).length ≤ l.length := List.length_filter_le _ _

theorem eraseA_length_lt {α} (l : List (Nat × α)) (k : Nat) (v : α) (h : (k, v) ∈ l) : (eraseA l k).length + 1 ≤ l.length := by
  induction l with
  | nil => cases h
  | cons x xs ih =>
    simp only [eraseA, List.filter_cons]
    by_cases hx : x.1 = k
    · have : (x.1 != k) = false := by simp [hx]
      simp only [this, Bool.false_eq_true, if_false, List.length_cons]
      have := eraseA_length_le xs k
      unfold eraseA at this
      omega
    · have : (x.1 != k) = true := by simpa using hx
      simp only [this, if_true, List.length_cons]
      simp only [List.mem_cons] at h
      rcases h with h | h
      · rw [← h] at hx; exact absurd rfl hx
      · have := ih h
        unfold eraseA at this
        omega

theorem slack_erase (c : Conn) (sid : Nat) : SlackLe c { c with reqQueued := eraseA c.reqQueued sid } := by
  unfold SlackLe
  have := eraseA_length_le c.reqQueued sid
  simp only; omega

theorem slack_takeReq (c : Conn) (sid : Nat) : SlackLe c (takeReq c sid) := by
  unfold takeReq
  split
  · rename_i h
    cases hl : lookupA c.reqQueued sid with
    | none => simp [hl] at h
    | some v =>
      have := eraseA_length_lt c.reqQueued sid v (lookupA_mem hl)
      unfold SlackLe; simp only; omega
  · exact SlackLe.refl c

theorem slack_finish (c : Conn) (tag : String) (sid : Nat) (e : Err) : SlackLe c (finish c tag sid e) := by
  unfold finish
  exact (slack_takeReq c sid).trans (SlackLe.of_eq rfl rfl)

theorem slack_prepare (c : Conn) (f : Frame.Frame) : SlackLe c (prepare c f).1 := by
  obtain ⟨h, e⟩ := prepare_shape c f; rw [e]; exact SlackLe.of_eq rfl rfl

theorem slack_readStream (c : Conn) (tag : String) (r : Req) (f : Frame.Frame) : SlackLe c (readStream c tag r f).1 := by
  unfold readStream
  split
  · simp only; split <;> exact SlackLe.of_eq rfl rfl
  · simp only; split <;> exact SlackLe.of_eq rfl rfl
  · exact SlackLe.refl c
  · simp only; split <;> split <;> exact SlackLe.of_eq rfl rfl
  · exact SlackLe.refl c

theorem slack_settle (c : Conn) (tag : String) (sid : Nat) (err : Option Err) (endS : Bool) :
    SlackLe c (settle c tag sid err endS).1 := by
  unfold settle
  simp only
  split
  · split
    · exact slack_finish _ _ _ _
    · exact SlackLe.refl c
  · exact slack_finish _ _ _ _

theorem slack_dispatch (c : Conn) (f : Frame.Frame) : SlackLe c (dispatch c f).1 := by
  obtain ⟨skd, skb, ske, hsk⟩ := skipHeaders_shape c f
  rw [dispatch_eq, hsk]
  split
  · exact SlackLe.refl c
  · split
    · exact SlackLe.refl c
    · split
      · exact slack_erase c _
      · exact ((slack_prepare c f).trans (slack_readStream _ _ _ _)).trans (slack_settle _ _ _ _ _)

theorem slack_refuse (c : Conn) (sid : Nat) (tag : String) : SlackLe c (refuse c sid tag) := by
  unfold refuse
  split
  · exact slack_erase c _
  · split
    · exact slack_erase c _
    · exact slack_finish _ _ _ _

theorem slack_refuseAbove (l : List (Nat × String)) : ∀ c : Conn, SlackLe c (refuseAbove c l) := by
  induction l with
  | nil => intro c; exact SlackLe.refl c
  | cons x xs ih =>
    intro c
    obtain ⟨sid, tag⟩ := x
    simp only [refuseAbove]
    split
    · exact (slack_refuse c sid tag).trans (ih _)
    · exact ih c

theorem slack_dispatchLoop (c : Conn) (f : Frame.Frame) : SlackLe c (dispatchLoop c f).1 := by
  rw [dispatchLoop_eq]
  split
  · exact (slack_dispatch c f).trans (slack_refuseAbove _ _)
  · exact slack_dispatch c f

theorem slack_rdFrame (c : Conn) (f : Frame.Frame) : SlackLe c (rdFrame c f).1 := by
  unfold rdFrame
  split
  · split
    · split
      · exact SlackLe.refl c
      · obtain ⟨a, b, d, e, g, k, sw, p, w, h⟩ := handleSettings_shape c ‹Frame.SettingsVal›
        rw [h]; exact SlackLe.of_eq rfl rfl
    · obtain ⟨w, p, h⟩ := addWindow_shape c 0 ‹Nat›; rw [h]; exact SlackLe.of_eq rfl rfl
    · split
      · exact SlackLe.refl c
      · exact SlackLe.of_eq rfl rfl
    · simp only
      split
      · obtain ⟨l, h⟩ := setLastErr_shape { c with goAway := true } .goaway; rw [h]; exact SlackLe.of_eq rfl rfl
      · exact (SlackLe.of_eq (c := c) (c' := { c with goAway := true, closeRef := _, stateClosed := true }) rfl rfl).trans
          (slack_refuseAbove _ _)
    · exact SlackLe.refl c
  · split
    · obtain ⟨l, h⟩ := setLastErr_shape c (.h2conn Gen.c_ProtocolError); rw [h]; exact SlackLe.of_eq rfl rfl
    · obtain ⟨w, p, h⟩ := addWindow_shape c f.stream ‹Nat›
      refine SlackLe.trans ?_ (slack_dispatchLoop _ f)
      rw [h]; exact SlackLe.of_eq rfl rfl
    · refine SlackLe.trans ?_ (slack_dispatchLoop _ f)
      unfold consumeConnWindow; simp only; split <;> exact SlackLe.of_eq rfl rfl
    · exact slack_dispatchLoop c f

theorem slack_setLastErr (c : Conn) (e : Err) : SlackLe c (setLastErr c e) := by
  obtain ⟨l, h⟩ := setLastErr_shape c e; rw [h]; exact SlackLe.of_eq rfl rfl

theorem slack_rdFrames (fs : List RdFrame) : ∀ c : Conn, SlackLe c (rdFrames fs c).1 := by
  induction fs with
  | nil => intro c; exact SlackLe.refl c
  | cons x xs ih =>
    intro c
    cases x with
    | unknown => simp only [rdFrames]; exact ih c
    | bad a b =>
      simp only [rdFrames]
      exact slack_setLastErr _ _
    | frame f =>
      rw [rdFrames_cons_frame]
      split
      · exact SlackLe.refl c
      · split
        · exact slack_rdFrame c f
        · exact (slack_rdFrame c f).trans (ih _)

/-- the table is never longer than the counter says -/
def CntOK (c : Conn) : Prop := (c.reqQueued.length : Int) ≤ c.openStreams

theorem CntOK.slack {c c' : Conn} (h : CntOK c) (s : SlackLe c c') : CntOK c' := by
  unfold CntOK SlackLe at *; omega

theorem cnt_dieWith {c : Conn} (h : CntOK c) (e : Err) : CntOK (dieWith c e) := by
  obtain ⟨l, hs⟩ := dieWith_shape c e
  rw [hs]; unfold CntOK at *; simp only [List.length_nil]; omega

theorem cnt_afterWrites {c : Conn} (h : CntOK c) (fs : List OutFrame) : CntOK (afterWrites c fs).1 := by
  rcases afterWrites_cases c fs with ⟨e, s, b, hh⟩ | ⟨e, s, hh⟩
  · rw [hh]; exact h
  · rw [hh]; exact cnt_dieWith (c := { c with enc := e, encTableSet := s }) h _

theorem cnt_drain {c : Conn} (h : CntOK c) : CntOK (drain c).1 := by
  obtain ⟨p, w, a, hs⟩ := drain_shape c; rw [hs]; exact h

theorem insertA_length_le {α} (l : List (Nat × α)) (k : Nat) (v : α) : (insertA l k v).length ≤ l.length + 1 := by
  induction l with
  | nil => simp [insertA]
  | cons x xs ih =>
    obtain ⟨k', v'⟩ := x
    simp only [insertA]
    split
    · simp
    · split
      · simp
      · simp only [List.length_cons]; omega

theorem cnt_writeRequest {c : Conn} (h : CntOK c) (r : ReqSpec) : CntOK (writeRequest c r).1 := by
  rw [writeRequest_eq]
  have h1 : CntOK (wrOpen c r) := by
    unfold CntOK at *
    have := insertA_length_le c.reqQueued c.nextID r.tag
    simp only [wrOpen, updReq]; omega
  split
  · exact h
  · split
    · exact h1
    · show CntOK (sendPending 100000 _ _).1
      obtain ⟨p, w, q, hs⟩ := sendPending_shape 100000 { wrOpen c r with pending := insertA c.pending c.nextID ‹Pending› } c.nextID
      rw [hs]; exact h1

theorem step_cnt (c : Conn) (ev : Event) (h : CntOK c) : CntOK (step c ev).1 := by
  cases ev with
  | read tag =>
    rcases step_read_cases' c tag with hs | hs | ⟨e, q, hs⟩ <;> rw [hs] <;> exact h
  | req r =>
    rw [step_req]; split
    · exact h
    · unfold stepReq; split
      · exact h
      · exact cnt_afterWrites (cnt_drain (cnt_writeRequest (c := withReq c r.tag) h r)) _
  | bytes b =>
    rw [step_bytes]; split
    · exact h
    · unfold stepBytes
      have h1 : CntOK (bytesRead c b).1 :=
        CntOK.slack (c := { c with rdBuf := (bytesSplit c b).2 }) h (slack_rdFrames _ _)
      split
      · exact h
      · split
        · exact h1
        · split
          · exact cnt_dieWith h1 .eof
          · split
            · exact cnt_dieWith h1 .eof
            · exact cnt_afterWrites (cnt_drain h1) _
  | timeout tag =>
    rw [step_timeout]; split
    · exact h
    · unfold stepTimeout
      split
      · exact h
      · rename_i r _
        have h1 : CntOK (takeReq (deletePending (resolve c tag .timeout) r.sid) r.sid) :=
          CntOK.slack (c := deletePending (resolve c tag .timeout) r.sid) h (slack_takeReq _ _)
        split
        · exact h
        · split
          · exact h1
          · exact cnt_afterWrites h1 _
  | close => rw [step_close]; split; exact h; exact cnt_dieWith h _
  | cut => rw [step_cut]; split; exact h; exact cnt_dieWith h _
  | failwrite n => rw [step_failwrite]; split; exact h; exact h

theorem init_cnt {c : Conn} (h : Init c) : CntOK c := by
  unfold CntOK; rw [h.reqQueued, h.openStreams]; simp

theorem run_cnt {c : Conn} (h : Init c) (evs : List Event) : CntOK (run c evs).1 :=
  run_inv (I := CntOK) step_cnt evs c (init_cnt h)

end H2.Client
