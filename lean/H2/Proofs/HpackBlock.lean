import H2.Proofs.HpackDec
/-! Header blocks: the loop of `handleHeaderFrame` (`Block.feed`) against `Spec.decodeBlock`. Core only. -/
namespace H2.Hpack
open H2

/-- only a size update at the very start of a block (HEADERS frame, no field yet) is skipped without a field -/
theorem step_none_start (st : DecState) (bs : Bool) (fp c : Nat) (cs : Bytes) (st' : DecState) (rest : Bytes)
    (h : Spec.step st bs fp (c :: cs) = .ok st' none rest) : bs = true ∧ fp = 0 ∧ 32 ≤ c ∧ c < 64 := by
  unfold Spec.step at h
  simp only [List.length_cons] at h
  unfold Spec.stepFuel at h
  cases hp : Spec.parse (Spec.validIn st) (c :: cs) with
  | incomplete => simp [hp] at h
  | invalid => simp [hp] at h
  | ok r rest1 =>
    simp only [hp] at h
    cases ha : Spec.apply st (if bs then fp else fp + 1) r with
    | none => simp [ha] at h
    | some p =>
      obtain ⟨st1, o1⟩ := p
      cases o1 with
      | some f => simp [ha] at h
      | none =>
        -- a representation without a field is a size update
        cases r with
        | indexed i =>
          simp only [Spec.apply] at ha
          cases hl : Spec.lookup st.dyn i <;> simp [hl] at ha
        | literal m nr v vh =>
          simp only [Spec.apply] at ha
          cases nr with
          | idx i => cases hl : Spec.lookup st.dyn i <;> cases m <;> simp [hl] at ha
          | lit n nh => cases m <;> simp at ha
        | sizeUpdate n =>
          have hk : (if bs then fp else fp + 1) = 0 := by
            simp only [Spec.apply] at ha
            by_cases hk : (if bs then fp else fp + 1) = 0 ∧ n ≤ st.limit
            · exact hk.1
            · simp [hk] at ha
          have hbs : bs = true ∧ fp = 0 := by
            cases bs
            · simp at hk
            · simp at hk; exact ⟨rfl, hk⟩
          refine ⟨hbs.1, hbs.2, ?_⟩
          -- only the octets 001xxxxx parse as a size update
          unfold Spec.parse at hp
          by_cases h128 : c ≥ 128
          · simp only [h128, if_true] at hp
            cases hi : readInt 7 (c :: cs) <;> simp [hi] at hp
          · simp only [h128, if_false] at hp
            by_cases h64 : c ≥ 64
            · simp only [h64, if_true] at hp
              obtain ⟨_, _, _, hr⟩ := parseLiteral_shape _ _ _ _ _ hp
              cases hr
            · simp only [h64, if_false] at hp
              by_cases h32 : c ≥ 32
              · omega
              · simp only [h32, if_false] at hp
                by_cases h16 : c ≥ 16
                · simp only [h16, if_true] at hp
                  obtain ⟨_, _, _, hr⟩ := parseLiteral_shape _ _ _ _ _ hp
                  cases hr
                · simp only [h16, if_false] at hp
                  obtain ⟨_, _, _, hr⟩ := parseLiteral_shape _ _ _ _ _ hp
                  cases hr

theorem step_progress (st : DecState) (bs : Bool) (fp : Nat) (b : Bytes) (st' : DecState) (f : Field) (rest : Bytes)
    (h : Spec.step st bs fp b = .ok st' (some f) rest) : rest.length < b.length := by
  obtain ⟨w, hb, hw⟩ := stepFuel_suffix _ _ _ _ _ _ _ _ h
  have : 0 < w.length := List.length_pos_iff.mpr (hw rfl)
  rw [hb]; simp; omega

/-- `strm.fieldSeen` after a loop that started a block with `fp` fields behind it and decoded `fs` more -/
def seenAfter (fp : Nat) (fs : List Field) : Bool := decide (0 < fp + fs.length)

theorem seenAfter_zero (fs : List Field) : seenAfter 0 fs = !fs.isEmpty := by
  cases fs <;> simp [seenAfter]

/-- **a block delivered in one HEADERS frame with END_HEADERS**: the loop of `handleHeaderFrame` yields
what the specification assigns to the block, and rejects exactly the blocks it rejects -/
theorem loop_whole : ∀ (n m : Nat) (dec : DecState) (fp : Nat) (b : Bytes) (acc : List Field),
    b.length < n → b.length ≤ m →
    match Spec.blockFuel n dec fp b with
    | some (st', fs) => Block.loop m dec true true fp b acc = .ok ⟨st', [], seenAfter fp fs⟩ (acc ++ fs)
    | none => ∃ fs, Block.loop m dec true true fp b acc = .err fs := by
  intro n
  induction n with
  | zero => intro m dec fp b acc h; omega
  | succ n ih =>
    intro m dec fp b acc hn hm
    cases b with
    | nil =>
      simp only [Spec.blockFuel]
      cases m <;> simp [Block.loop, seenAfter]
    | cons c cs =>
      cases m with
      | zero => simp at hm
      | succ m =>
        simp only [Spec.blockFuel, Block.loop, List.isEmpty_cons, Bool.false_eq_true, if_false, next_eq_step]
        cases hs : Spec.step dec true fp (c :: cs) with
        | needMore => exact ⟨acc, by simp⟩
        | err => exact ⟨acc, by simp⟩
        | ok st' o rest =>
          cases o with
          | none => simp [seenAfter]
          | some f =>
            have hlt := step_progress _ _ _ _ _ _ _ hs
            simp only [List.length_cons] at hlt hn hm
            have := ih m st' (fp + 1) rest (acc ++ [f]) (by omega) (by omega)
            simp only
            cases hb : Spec.blockFuel n st' (fp + 1) rest with
            | none => simp only [hb] at this; simpa using this
            | some p =>
              obtain ⟨s, fs⟩ := p
              simp only [hb] at this
              have e : seenAfter (fp + 1) fs = seenAfter fp (f :: fs) := by
                have : fp + 1 + fs.length = fp + (fs.length + 1) := by omega
                simp only [seenAfter, List.length_cons, this]
              simp [this, e]

/-- the HEADERS frame that carries a whole block -/
theorem feed_whole (dec : DecState) (b : Bytes) (sn : Bool) (hle : dec.maxSize ≤ dec.limit) :
    match Spec.decodeBlock dec b with
    | some (st', fs) => Block.feed ⟨dec, [], sn⟩ false true b = .ok ⟨st', [], !fs.isEmpty⟩ fs
    | none => ∃ fs, Block.feed ⟨dec, [], sn⟩ false true b = .err fs := by
  unfold Spec.decodeBlock Block.feed
  have : ¬ dec.maxSize > dec.limit := by omega
  simp only [this, decide_false, Bool.false_and, Bool.false_eq_true, if_false, Bool.not_false, List.nil_append]
  have := loop_whole (b.length + 1) b.length dec 0 b [] (by omega) (by omega)
  cases hb : Spec.blockFuel (b.length + 1) dec 0 b with
  | none => simpa [hb] using this
  | some p =>
    obtain ⟨s, fs⟩ := p
    simp only [hb] at this
    simpa [seenAfter_zero] using this

/-- decoder model over a connection: each block in one frame -/
def decodeBlocks (dec : DecState) : List Bytes → Option (DecState × List (List Field))
  | [] => some (dec, [])
  | b :: bs =>
    match Block.feed ⟨dec, [], false⟩ false true b with
    | .ok s fs => (decodeBlocks s.dec bs).map fun (d, fss) => (d, fs :: fss)
    | .err _ => none

/-- specification over a connection -/
def specBlocks (dec : DecState) : List Bytes → Option (DecState × List (List Field))
  | [] => some (dec, [])
  | b :: bs =>
    match Spec.decodeBlock dec b with
    | some (d, fs) => (specBlocks d bs).map fun (d', fss) => (d', fs :: fss)
    | none => none

/-- a size update never takes the table size above the limit -/
theorem step_le (st : DecState) (bs : Bool) (fp : Nat) (b : Bytes) (st' : DecState) (o : Option Field) (rest : Bytes)
    (hle : st.maxSize ≤ st.limit) (h : Spec.step st bs fp b = .ok st' o rest) : st'.maxSize ≤ st'.limit := by
  unfold Spec.step at h
  generalize b.length + 1 = fuel at h
  induction fuel generalizing st b with
  | zero => simp [Spec.stepFuel] at h
  | succ fuel ih =>
    cases b with
    | nil => simp only [Spec.stepFuel] at h; injection h with h1; subst h1; exact hle
    | cons c cs =>
      unfold Spec.stepFuel at h
      cases hp : Spec.parse (Spec.validIn st) (c :: cs) with
      | incomplete => simp [hp] at h
      | invalid => simp [hp] at h
      | ok r rest1 =>
        simp only [hp] at h
        cases ha : Spec.apply st (if bs then fp else fp + 1) r with
        | none => simp [ha] at h
        | some p =>
          obtain ⟨st1, o1⟩ := p
          have h1 : st1.maxSize ≤ st1.limit := by
            cases r with
            | indexed i =>
              simp only [Spec.apply] at ha
              cases hl : Spec.lookup st.dyn i <;> simp [hl] at ha
              obtain ⟨rfl, _⟩ := ha; exact hle
            | literal m nr v vh =>
              simp only [Spec.apply] at ha
              cases nr with
              | idx i =>
                cases hl : Spec.lookup st.dyn i <;> cases m <;> simp [hl] at ha <;> (obtain ⟨rfl, _⟩ := ha; exact hle)
              | lit n nh => cases m <;> simp at ha <;> (obtain ⟨rfl, _⟩ := ha; exact hle)
            | sizeUpdate n =>
              simp only [Spec.apply] at ha
              by_cases hk : (if bs then fp else fp + 1) = 0 ∧ n ≤ st.limit
              · simp [hk] at ha
                obtain ⟨rfl, _⟩ := ha
                exact hk.2
              · simp [hk] at ha
          cases o1 with
          | some f =>
            simp only [ha] at h
            injection h with h2
            subst h2; exact h1
          | none =>
            simp only [ha] at h
            exact ih st1 rest1 h1 h

theorem blockFuel_le : ∀ (n : Nat) (st : DecState) (fp : Nat) (b : Bytes) (st' : DecState) (fs : List Field),
    st.maxSize ≤ st.limit → Spec.blockFuel n st fp b = some (st', fs) → st'.maxSize ≤ st'.limit := by
  intro n
  induction n with
  | zero => intro st fp b st' fs _ h; simp [Spec.blockFuel] at h
  | succ n ih =>
    intro st fp b st' fs hle h
    cases b with
    | nil => simp only [Spec.blockFuel] at h; injection h with h; injection h with h1; subst h1; exact hle
    | cons c cs =>
      simp only [Spec.blockFuel] at h
      cases hs : Spec.step st true fp (c :: cs) with
      | needMore => simp [hs] at h
      | err => simp [hs] at h
      | ok st1 o rest =>
        have h1 := step_le _ _ _ _ _ _ _ hle hs
        cases o with
        | none => simp only [hs] at h; injection h with h; injection h with h2; subst h2; exact h1
        | some f =>
          simp only [hs] at h
          cases hb : Spec.blockFuel n st1 (fp + 1) rest with
          | none => simp [hb] at h
          | some p =>
            obtain ⟨s, fs'⟩ := p
            simp only [hb, Option.map_some] at h
            injection h with h; injection h with h2
            subst h2
            exact ih _ _ _ _ _ h1 hb

/-- **history_sync** (blocks delivered whole): over any sequence of header blocks the model of the decoder
accepts exactly the histories RFC 7541 makes valid and yields the same header lists and the same table after
every block -/
theorem blocks_sync : ∀ (blocks : List Bytes) (dec : DecState), dec.maxSize ≤ dec.limit →
    decodeBlocks dec blocks = specBlocks dec blocks := by
  intro blocks
  induction blocks with
  | nil => intro dec _; rfl
  | cons b bs ih =>
    intro dec hle
    have hw := feed_whole dec b false hle
    simp only [decodeBlocks, specBlocks]
    cases hd : Spec.decodeBlock dec b with
    | none =>
      simp only [hd] at hw
      obtain ⟨fs, hfs⟩ := hw
      simp [hfs]
    | some p =>
      obtain ⟨d, fs⟩ := p
      simp only [hd] at hw
      simp only [hw]
      have hle' : d.maxSize ≤ d.limit := by
        unfold Spec.decodeBlock at hd
        split at hd
        · cases hd
        · exact blockFuel_le _ _ _ _ _ _ hle hd
      rw [ih d hle']

end H2.Hpack
