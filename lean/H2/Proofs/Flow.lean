import H2.Server.Flow
/-! Helper lemmas for C06 (abstract send-side model). -/
namespace H2.Server.Flow

def total (o : List Data) : Nat := (o.map (·.len)).sum

/-- number of DATA frames carrying END_STREAM -/
def finTotal (o : List Data) : Nat := (o.filter (·.fin)).length

structure SendSpec (s : Strm) (cw : Int) (cs : Nat) (r : Strm × Int × Nat × List Data) : Prop where
  id : r.1.id = s.id
  resp : r.1.responded = s.responded
  run : r.1.running = s.running
  granted : r.1.granted = s.granted
  sent : r.1.sent = s.sent + total r.2.2.2
  win : r.1.window = s.window - total r.2.2.2
  cw : r.2.1 = cw - total r.2.2.2
  cs : r.2.2.1 = cs + total r.2.2.2
  pend : r.1.pending + total r.2.2.2 = s.pending
  blocked : r.1.pending = 0 ∨ min r.1.window r.2.1 ≤ 0
  outs : ∀ d ∈ r.2.2.2, 0 < d.len ∧ (d.len : Int) ≤ d.availBefore ∧ d.len ≤ maxFrame
  fins : r.1.fins = s.fins + finTotal r.2.2.2
  finspec : finTotal r.2.2.2 = if 0 < s.pending ∧ r.1.pending = 0 then 1 else 0
  ids : ∀ d ∈ r.2.2.2, d.id = s.id

theorem sendData_spec (s : Strm) (cw : Int) (cs : Nat) : SendSpec s cw cs (sendData s cw cs) := by
  fun_induction sendData s cw cs with
  | case1 s cw cs h =>
    constructor <;> simp [total, finTotal, h]
  | case2 s cw cs h avail ha =>
    constructor <;> simp [total, finTotal]
    · right; exact ha
    · intro _ h0; exact absurd h0 h
  | case3 s cw cs h avail ha step hstep fin s' s'' cw' cs' outs heq ih =>
    rw [heq] at ih
    have hs : (step : Int) ≤ avail := by
      simp only [step, maxFrame]; omega
    have hm : step ≤ maxFrame := by simp only [step]; omega
    have hp : step ≤ s.pending := by simp only [step]; omega
    constructor
    · simpa [s'] using ih.id
    · simpa [s'] using ih.resp
    · simpa [s'] using ih.run
    · simpa [s'] using ih.granted
    · have := ih.sent; simp only [s'] at this; simp only [total, List.map_cons, List.sum_cons] at *; omega
    · have := ih.win; simp only [s'] at this; simp only [total, List.map_cons, List.sum_cons] at *; omega
    · have := ih.cw; simp only [total, List.map_cons, List.sum_cons] at *; omega
    · have := ih.cs; simp only [total, List.map_cons, List.sum_cons] at *; omega
    · have := ih.pend; simp only [s'] at this; simp only [total, List.map_cons, List.sum_cons] at *; omega
    · exact ih.blocked
    · intro d hd
      simp only [List.mem_cons] at hd
      rcases hd with rfl | hd
      · exact ⟨hstep, hs, hm⟩
      · exact ih.outs d hd
    · have := ih.fins
      simp only [s'] at this
      simp only [finTotal, List.filter_cons] at *
      cases hf : fin <;> simp [hf] at this ⊢ <;> omega
    · have h1 := ih.finspec
      have h2 := ih.pend
      simp only [s'] at h1 h2
      have hpos : 0 < s.pending := by omega
      simp only [finTotal, List.filter_cons] at *
      by_cases hz : s.pending - step = 0
      · have hf : fin = true := by simp [fin, hz]
        -- the recursive call starts from pending = 0: it emits nothing
        have h0 : (List.filter (fun x => x.fin) outs).length = 0 := by
          rw [h1]; simp [hz]
        have hp0 : s''.pending = 0 := by
          simp only [total] at h2; omega
        simp [hf, h0, hpos, hp0]
      · have hf : fin = false := by simp [fin, hz]
        have : (0 < s.pending - step) := by omega
        simp only [hf, Bool.false_eq_true, if_false]
        rw [h1]
        simp [this, hpos]
    · intro d hd
      simp only [List.mem_cons] at hd
      rcases hd with rfl | hd
      · rfl
      · have := ih.ids d hd; simpa [s'] using this


def Ledger (s : Strm) : Prop := s.window = s.granted - s.sent
def Blocked (cw : Int) (s : Strm) : Prop := flushable s = true → min s.window cw ≤ 0

structure Inv (st : St) : Prop where
  led : ∀ s ∈ st.strms, Ledger s
  cled : st.cw = st.cgranted - st.csent
  blk : ∀ s ∈ st.strms, Blocked st.cw s

def OutOK (o : List Data) : Prop := ∀ d ∈ o, 0 < d.len ∧ (d.len : Int) ≤ d.availBefore ∧ d.len ≤ maxFrame

theorem blocked_mono {cw cw' : Int} {s : Strm} (h : Blocked cw s) (hle : cw' ≤ cw) : Blocked cw' s := by
  intro hf; have := h hf; omega

theorem send_ledger {s : Strm} {cw : Int} {cs : Nat} (h : Ledger s) : Ledger (sendData s cw cs).1 := by
  have sp := sendData_spec s cw cs
  unfold Ledger at *
  rw [sp.win, sp.granted, sp.sent]; omega

theorem send_blocked (s : Strm) (cw : Int) (cs : Nat) :
    Blocked (sendData s cw cs).2.1 (sendData s cw cs).1 := by
  have sp := sendData_spec s cw cs
  intro hf
  rcases sp.blocked with h | h
  · simp [flushable, h] at hf
  · exact h

theorem send_cw_le (s : Strm) (cw : Int) (cs : Nat) : (sendData s cw cs).2.1 ≤ cw := by
  have sp := sendData_spec s cw cs; rw [sp.cw]; omega

/-- flushAll: ledgers preserved, every stream ends blocked w.r.t. the final connection window,
    connection ledger moves by the total, outputs are within allowance. -/
theorem flushAll_spec (ss : List Strm) (cw : Int) (cs : Nat)
    (hl : ∀ s ∈ ss, Ledger s) :
    let r := flushAll ss cw cs
    (∀ s ∈ r.1, Ledger s) ∧ (∀ s ∈ r.1, Blocked r.2.1 s) ∧ r.2.1 ≤ cw ∧
    r.2.1 = cw - total r.2.2.2 ∧ r.2.2.1 = cs + total r.2.2.2 ∧ OutOK r.2.2.2 := by
  induction ss generalizing cw cs with
  | nil => simp [flushAll, total, OutOK]
  | cons s rest ih =>
    have hls : Ledger s := hl s (by simp)
    have hlr : ∀ x ∈ rest, Ledger x := fun x hx => hl x (by simp [hx])
    simp only [flushAll]
    split
    · rename_i hf
      have sp := sendData_spec s cw cs
      have hsl := @send_ledger s cw cs hls
      have hsb := send_blocked s cw cs
      have hsc := send_cw_le s cw cs
      rcases hsd : sendData s cw cs with ⟨s1, cw1, cs1, o1⟩
      rw [hsd] at sp hsl hsb hsc
      have ih' := ih cw1 cs1 hlr
      rcases hfa : flushAll rest cw1 cs1 with ⟨r2, cw2, cs2, o2⟩
      rw [hfa] at ih'
      simp only at ih' ⊢
      obtain ⟨i1, i2, i3, i4, i5, i6⟩ := ih'
      have e1 := sp.cw
      have e2 := sp.cs
      simp only at e1 e2 hsc
      refine ⟨?_, ?_, ?_, ?_, ?_, ?_⟩
      · intro x hx
        simp only [List.mem_cons] at hx
        rcases hx with rfl | hx
        · exact hsl
        · exact i1 x hx
      · intro x hx
        simp only [List.mem_cons] at hx
        rcases hx with rfl | hx
        · exact blocked_mono hsb i3
        · exact i2 x hx
      · omega
      · simp only [total, List.map_append, List.sum_append] at *; omega
      · simp only [total, List.map_append, List.sum_append] at *; omega
      · intro d hd
        simp only [List.mem_append] at hd
        rcases hd with hd | hd
        · exact sp.outs d hd
        · exact i6 d hd
    · rename_i hf
      have ih' := ih cw cs hlr
      rcases hfa : flushAll rest cw cs with ⟨r2, cw2, cs2, o2⟩
      rw [hfa] at ih'
      simp only at ih' ⊢
      obtain ⟨i1, i2, i3, i4, i5, i6⟩ := ih'
      refine ⟨?_, ?_, i3, i4, i5, i6⟩
      · intro x hx
        simp only [List.mem_cons] at hx
        rcases hx with rfl | hx
        · exact hls
        · exact i1 x hx
      · intro x hx
        simp only [List.mem_cons] at hx
        rcases hx with rfl | hx
        · intro hfl; simp [hfl] at hf
        · exact i2 x hx


theorem mem_updStrm {f : Strm → Strm} {id : Nat} {l : List Strm} {x : Strm} :
    x ∈ updStrm f id l → x ∈ l ∨ ∃ y ∈ l, y.id = id ∧ x = f y := by
  induction l with
  | nil => simp [updStrm]
  | cons a rest ih =>
    simp only [updStrm]
    split
    · rename_i h
      intro hx
      simp only [List.mem_cons] at hx
      rcases hx with rfl | hx
      · right; exact ⟨a, by simp, h, rfl⟩
      · left; simp [hx]
    · intro hx
      simp only [List.mem_cons] at hx
      rcases hx with rfl | hx
      · left; simp
      · rcases ih hx with h | ⟨y, hy, hid, rfl⟩
        · left; simp [h]
        · right; exact ⟨y, by simp [hy], hid, rfl⟩

theorem findStrm_mem {id : Nat} {l : List Strm} {s : Strm} : findStrm id l = some s → s ∈ l ∧ s.id = id := by
  induction l with
  | nil => simp [findStrm]
  | cons a rest ih =>
    simp only [findStrm]
    split
    · rename_i h; intro he; cases he; exact ⟨by simp, h⟩
    · intro he; have := ih he; exact ⟨by simp [this.1], this.2⟩

theorem step_inv (st : St) (e : Ev) (h : Inv st) : Inv (step st e).1 ∧ OutOK (step st e).2 := by
  cases e with
  | opn id =>
    simp only [step]
    split
    · exact ⟨h, by simp [OutOK]⟩
    · refine ⟨⟨?_, h.cled, ?_⟩, by simp [OutOK]⟩
      · intro s hs
        simp only [List.mem_append, List.mem_singleton] at hs
        rcases hs with hs | rfl
        · exact h.led s hs
        · simp [Ledger]
      · intro s hs
        simp only [List.mem_append, List.mem_singleton] at hs
        rcases hs with hs | rfl
        · exact h.blk s hs
        · intro hf; simp [flushable] at hf
  | done id len =>
    simp only [step]
    split
    · exact ⟨h, by simp [OutOK]⟩
    · rename_i s hfind
      obtain ⟨hmem, hid⟩ := findStrm_mem hfind
      split
      · exact ⟨h, by simp [OutOK]⟩
      · have hl1 : Ledger { s with responded := true, running := false, pending := len } := by
          have := h.led s hmem; simpa [Ledger] using this
        have sp := sendData_spec { s with responded := true, running := false, pending := len } st.cw st.csent
        have hsl := send_ledger (cw := st.cw) (cs := st.csent) hl1
        have hsb := send_blocked { s with responded := true, running := false, pending := len } st.cw st.csent
        have hsc := send_cw_le { s with responded := true, running := false, pending := len } st.cw st.csent
        rcases hsd : sendData { s with responded := true, running := false, pending := len } st.cw st.csent with ⟨s2, cw2, cs2, o2⟩
        rw [hsd] at sp hsl hsb hsc
        have e1 := sp.cw; have e2 := sp.cs
        simp only at e1 e2 hsc hsb hsl ⊢
        refine ⟨⟨?_, ?_, ?_⟩, sp.outs⟩
        · intro x hx
          rcases mem_updStrm hx with hx | ⟨y, _, _, rfl⟩
          · exact h.led x hx
          · exact hsl
        · simp only; have := h.cled; omega
        · intro x hx
          rcases mem_updStrm hx with hx | ⟨y, _, _, rfl⟩
          · exact blocked_mono (h.blk x hx) hsc
          · exact hsb
  | wuS id n =>
    simp only [step]
    split
    · exact ⟨h, by simp [OutOK]⟩
    · rename_i s hfind
      obtain ⟨hmem, hid⟩ := findStrm_mem hfind
      have hl1 : Ledger { s with window := s.window + n, granted := s.granted + n } := by
        have := h.led s hmem; simp only [Ledger] at *; omega
      split
      · have sp := sendData_spec { s with window := s.window + n, granted := s.granted + n } st.cw st.csent
        have hsl := send_ledger (cw := st.cw) (cs := st.csent) hl1
        have hsb := send_blocked { s with window := s.window + n, granted := s.granted + n } st.cw st.csent
        have hsc := send_cw_le { s with window := s.window + n, granted := s.granted + n } st.cw st.csent
        rcases hsd : sendData { s with window := s.window + n, granted := s.granted + n } st.cw st.csent with ⟨s2, cw2, cs2, o2⟩
        rw [hsd] at sp hsl hsb hsc
        have e1 := sp.cw; have e2 := sp.cs
        simp only at e1 e2 hsc hsb hsl ⊢
        refine ⟨⟨?_, ?_, ?_⟩, sp.outs⟩
        · intro x hx
          rcases mem_updStrm hx with hx | ⟨y, _, _, rfl⟩
          · exact h.led x hx
          · exact hsl
        · simp only; have := h.cled; omega
        · intro x hx
          rcases mem_updStrm hx with hx | ⟨y, _, _, rfl⟩
          · exact blocked_mono (h.blk x hx) hsc
          · exact hsb
      · rename_i hnf
        refine ⟨⟨?_, h.cled, ?_⟩, by simp [OutOK]⟩
        · intro x hx
          rcases mem_updStrm hx with hx | ⟨y, _, _, rfl⟩
          · exact h.led x hx
          · exact hl1
        · intro x hx
          rcases mem_updStrm hx with hx | ⟨y, _, _, rfl⟩
          · exact h.blk x hx
          · intro hf; simp [hf] at hnf
  | wuC n =>
    simp only [step]
    have sp := flushAll_spec st.strms (st.cw + n) st.csent h.led
    rcases hfa : flushAll st.strms (st.cw + n) st.csent with ⟨ss, cw2, cs2, o2⟩
    rw [hfa] at sp
    simp only at sp ⊢
    obtain ⟨i1, i2, i3, i4, i5, i6⟩ := sp
    refine ⟨⟨i1, ?_, i2⟩, i6⟩
    simp only; have := h.cled; omega
  | rst id =>
    simp only [step, stepRst]
    refine ⟨⟨?_, h.cled, ?_⟩, by simp [OutOK]⟩
    · intro x hx
      rcases mem_updStrm hx with hx | ⟨y, hy, _, rfl⟩
      · exact h.led x hx
      · have := h.led y hy; simpa [Ledger, dropPending] using this
    · intro x hx
      rcases mem_updStrm hx with hx | ⟨y, hy, _, rfl⟩
      · exact h.blk x hx
      · intro hf; simp [flushable, dropPending] at hf
  | settings v =>
    simp only [step]
    have hl : ∀ s ∈ st.strms.map (bump ((v : Int) - st.initWin)), Ledger s := by
      intro s hs
      simp only [List.mem_map] at hs
      obtain ⟨y, hy, rfl⟩ := hs
      have := h.led y hy; simp only [Ledger, bump] at *; omega
    have sp := flushAll_spec _ st.cw st.csent hl
    rcases hfa : flushAll (st.strms.map (bump ((v : Int) - st.initWin))) st.cw st.csent with ⟨ss, cw2, cs2, o2⟩
    rw [hfa] at sp
    simp only at sp ⊢
    obtain ⟨i1, i2, i3, i4, i5, i6⟩ := sp
    refine ⟨⟨i1, ?_, i2⟩, i6⟩
    simp only; have := h.cled; omega

theorem init_inv' : True := trivial

theorem init_inv : Inv init := ⟨by simp [init], by simp [init], by simp [init]⟩

/-- C06 on the reduced model, for every event sequence: ledgers exact, no sendable
    stream is ever left unsent, every DATA frame is within both allowances and the frame size. -/
theorem run_inv (evs : List Ev) (st : St) (h : Inv st) : Inv (run st evs).1 ∧ OutOK (run st evs).2 := by
  induction evs generalizing st with
  | nil => exact ⟨h, by simp [run, OutOK]⟩
  | cons e es ih =>
    simp only [run]
    obtain ⟨h1, o1⟩ := step_inv st e h
    obtain ⟨h2, o2⟩ := ih (step st e).1 h1
    refine ⟨h2, ?_⟩
    intro d hd
    simp only [List.mem_append] at hd
    rcases hd with hd | hd
    · exact o1 d hd
    · exact o2 d hd


/-! ## END_STREAM is sent once (ghost counter `fins`, linked to the outputs by `sendData_spec.fins`) -/

def FinInv (s : Strm) : Prop := s.fins ≤ 1 ∧ (s.fins = 1 → s.pending = 0 ∧ s.responded = true)

def FinAll (st : St) : Prop := ∀ s ∈ st.strms, FinInv s

theorem send_fin {s : Strm} (cw : Int) (cs : Nat) (h : FinInv s) (hr : s.responded = true) :
    FinInv (sendData s cw cs).1 := by
  have sp := sendData_spec s cw cs
  have h1 := sp.fins
  have h2 := sp.finspec
  have h3 := sp.resp
  obtain ⟨hle, himp⟩ := h
  by_cases hp : 0 < s.pending
  · have hf0 : s.fins = 0 := by
      by_cases h1' : s.fins = 1
      · have := (himp h1').1; omega
      · omega
    by_cases hz : (sendData s cw cs).1.pending = 0
    · rw [h2] at h1; simp [hp, hz] at h1
      exact ⟨by omega, fun _ => ⟨hz, by rw [h3]; exact hr⟩⟩
    · rw [h2] at h1; simp [hp, hz] at h1
      exact ⟨by omega, fun h' => by omega⟩
  · have hp0 : s.pending = 0 := by omega
    have hpend := sp.pend
    rw [h2] at h1; simp [hp0] at h1
    refine ⟨by omega, fun h' => ⟨by omega, by rw [h3]; exact hr⟩⟩

theorem flushAll_fin (ss : List Strm) (cw : Int) (cs : Nat) (h : ∀ s ∈ ss, FinInv s) :
    ∀ s ∈ (flushAll ss cw cs).1, FinInv s := by
  induction ss generalizing cw cs with
  | nil => simp [flushAll]
  | cons s rest ih =>
    have hs : FinInv s := h s (by simp)
    have hr : ∀ x ∈ rest, FinInv x := fun x hx => h x (by simp [hx])
    simp only [flushAll]
    split
    · rename_i hf
      have hresp : s.responded = true := by
        simp only [flushable, Bool.and_eq_true] at hf; exact hf.1.1
      have h1 := send_fin cw cs hs hresp
      rcases hsd : sendData s cw cs with ⟨s1, cw1, cs1, o1⟩
      rw [hsd] at h1
      have ih' := ih cw1 cs1 hr
      rcases hfa : flushAll rest cw1 cs1 with ⟨r2, cw2, cs2, o2⟩
      rw [hfa] at ih'
      intro x hx
      simp only [List.mem_cons] at hx
      rcases hx with rfl | hx
      · exact h1
      · exact ih' x hx
    · have ih' := ih cw cs hr
      rcases hfa : flushAll rest cw cs with ⟨r2, cw2, cs2, o2⟩
      rw [hfa] at ih'
      intro x hx
      simp only [List.mem_cons] at hx
      rcases hx with rfl | hx
      · exact hs
      · exact ih' x hx

theorem step_fin (st : St) (e : Ev) (h : FinAll st) : FinAll (step st e).1 := by
  cases e with
  | opn id =>
    simp only [step]
    split
    · exact h
    · intro s hs
      simp only [List.mem_append, List.mem_singleton] at hs
      rcases hs with hs | rfl
      · exact h s hs
      · simp [FinInv]
  | done id len =>
    simp only [step]
    split
    · exact h
    · rename_i s hfind
      obtain ⟨hmem, _⟩ := findStrm_mem hfind
      split
      · exact h
      · rename_i hnr
        have hs := h s hmem
        have hf0 : s.fins = 0 := by
          by_cases h1 : s.fins = 1
          · have := (hs.2 h1).2; simp [this] at hnr
          · have := hs.1; omega
        have hs1 : FinInv { s with responded := true, running := false, pending := len } := by
          simp [FinInv, hf0]
        have h1 := send_fin st.cw st.csent hs1 rfl
        rcases hsd : sendData { s with responded := true, running := false, pending := len } st.cw st.csent with ⟨s2, cw2, cs2, o2⟩
        rw [hsd] at h1
        intro x hx
        rcases mem_updStrm hx with hx | ⟨y, _, _, rfl⟩
        · exact h x hx
        · exact h1
  | wuS id n =>
    simp only [step]
    split
    · exact h
    · rename_i s hfind
      obtain ⟨hmem, _⟩ := findStrm_mem hfind
      have hs := h s hmem
      have hs1 : FinInv { s with window := s.window + n, granted := s.granted + n } := by
        simpa [FinInv] using hs
      split
      · rename_i hf
        have hresp : ({ s with window := s.window + n, granted := s.granted + n } : Strm).responded = true := by
          simp only [flushable, Bool.and_eq_true] at hf; exact hf.1.1
        have h1 := send_fin st.cw st.csent hs1 hresp
        rcases hsd : sendData { s with window := s.window + n, granted := s.granted + n } st.cw st.csent with ⟨s2, cw2, cs2, o2⟩
        rw [hsd] at h1
        intro x hx
        rcases mem_updStrm hx with hx | ⟨y, _, _, rfl⟩
        · exact h x hx
        · exact h1
      · intro x hx
        rcases mem_updStrm hx with hx | ⟨y, _, _, rfl⟩
        · exact h x hx
        · exact hs1
  | wuC n =>
    simp only [step]
    have := flushAll_fin st.strms (st.cw + n) st.csent h
    rcases hfa : flushAll st.strms (st.cw + n) st.csent with ⟨ss, cw2, cs2, o2⟩
    rw [hfa] at this
    exact this
  | rst id =>
    simp only [step, stepRst]
    intro x hx
    rcases mem_updStrm hx with hx | ⟨y, hy, _, rfl⟩
    · exact h x hx
    · have := h y hy
      refine ⟨by simpa [dropPending] using this.1, fun h1 => ⟨by simp [dropPending], ?_⟩⟩
      have := this.2 (by simpa [dropPending] using h1)
      simpa [dropPending] using this.2
  | settings v =>
    simp only [step]
    have hb : ∀ s ∈ st.strms.map (bump ((v : Int) - st.initWin)), FinInv s := by
      intro s hs
      simp only [List.mem_map] at hs
      obtain ⟨y, hy, rfl⟩ := hs
      simpa [FinInv, bump] using h y hy
    have := flushAll_fin _ st.cw st.csent hb
    rcases hfa : flushAll (st.strms.map (bump ((v : Int) - st.initWin))) st.cw st.csent with ⟨ss, cw2, cs2, o2⟩
    rw [hfa] at this
    exact this

theorem run_fin (evs : List Ev) (st : St) (h : FinAll st) : FinAll (run st evs).1 := by
  induction evs generalizing st with
  | nil => exact h
  | cons e es ih =>
    simp only [run]
    exact ih _ (step_fin st e h)

end H2.Server.Flow
