import H2.Proofs.ClientRunHdr
/-!
# C07 on the full serial client model — groundwork

* `int32` arithmetic of the send windows: `WOK m w iws` ties a window `m` held in an `int32` (with the wrap-around of
  `addWindow` and `applyInitialWindow`) to the window `w` of RFC 9113 6.9 computed in the integers.
* association lists kept in ascending key order (`pending`).
* what `ReadFrameFrom` guarantees about a SETTINGS frame it accepts (`SettingsOK`).
-/
namespace H2.Client

/-! ## `int32` -/

def Rng (m : Int) : Prop := -2147483648 ≤ m ∧ m < 2147483648

theorem wrap32_eq (x : Int) : wrap32 x = (x + 2147483648) % 4294967296 - 2147483648 := by
  unfold wrap32
  have h1 : (2 : Int) ^ 31 = 2147483648 := by decide
  have h2 : (2 : Int) ^ 32 = 4294967296 := by decide
  rw [h1, h2]

theorem wrap32_rng (x : Int) : Rng (wrap32 x) := by
  rw [wrap32_eq]; unfold Rng; omega

/-- `wrap32 x` is `x` less a multiple of 2^32 -/
theorem wrap32_mul (x : Int) : ∃ j : Int, wrap32 x = x - 4294967296 * j ∧
    (-2147483648 ≤ x → 0 ≤ j) ∧ (x < 2147483648 → j ≤ 0) := by
  refine ⟨(x + 2147483648) / 4294967296, ?_, ?_, ?_⟩
  · rw [wrap32_eq]; omega
  · intro h; omega
  · intro h; omega

theorem wrap32_le (x : Int) (h : -2147483648 ≤ x) : wrap32 x ≤ x := by
  obtain ⟨j, e, h1, _⟩ := wrap32_mul x
  have := h1 h
  omega

/-- the window `m` the client holds for a stream against the window `w` of the RFC (current INITIAL_WINDOW_SIZE plus
increments received minus octets sent): `m` is `w` less a multiple of 2^32 (each overflow of the `int32` loses one) or
less; while none was lost, `m` has not fallen more than 2^31-1 below INITIAL_WINDOW_SIZE, so that lowering
INITIAL_WINDOW_SIZE cannot wrap it upwards -/
def WOK (m w iws : Int) : Prop := ∃ k : Nat, m + 4294967296 * (k : Int) ≤ w ∧ (k = 0 → -2147483647 ≤ m - iws)

theorem WOK.le {m w iws : Int} (h : WOK m w iws) : m ≤ w := by
  obtain ⟨k, h1, _⟩ := h; omega

theorem WOK.mono {m w w' iws : Int} (h : WOK m w iws) (hw : w ≤ w') : WOK m w' iws := by
  obtain ⟨k, h1, h2⟩ := h; exact ⟨k, by omega, h2⟩

theorem wok_new (iws : Int) (inc : Nat) : WOK iws (iws + inc - 0) iws := ⟨0, by omega, fun _ => by omega⟩

/-- WINDOW_UPDATE -/
theorem wok_wu {m w iws : Int} (h : WOK m w iws) (hr : Rng m) (inc : Nat) : WOK (wrap32 (m + inc)) (w + inc) iws := by
  obtain ⟨k, h1, h2⟩ := h
  obtain ⟨j, e, hj, hj2⟩ := wrap32_mul (m + inc)
  have hj0 : 0 ≤ j := hj (by unfold Rng at hr; omega)
  refine ⟨k + j.toNat, ?_, ?_⟩
  · rw [e]; omega
  · intro hk
    have hk0 : k = 0 := by omega
    have hj1 : j = 0 := by omega
    rw [e, hj1]
    have := h2 hk0
    omega

/-- a change of SETTINGS_INITIAL_WINDOW_SIZE from `old` to `new` (both at most 2^31-1, as `Settings.Read` checks) -/
theorem wok_settings {m w old new : Int} (h : WOK m w old) (hr : Rng m) (ho : 0 ≤ old ∧ old ≤ 2147483647)
    (hn : 0 ≤ new ∧ new ≤ 2147483647) : WOK (wrap32 (m + wrap32 (new - old))) (w + new - old) new := by
  obtain ⟨k, h1, h2⟩ := h
  obtain ⟨a, ea, _, _⟩ := wrap32_mul (new - old)
  obtain ⟨b, eb, _, _⟩ := wrap32_mul (m + wrap32 (new - old))
  have r1 := wrap32_rng (m + wrap32 (new - old))
  unfold Rng at hr r1
  -- the new window is m + (new - old) - 2^32 (a + b)
  have e : wrap32 (m + wrap32 (new - old)) = m + (new - old) - 4294967296 * (a + b) := by rw [eb, ea]; omega
  rw [e] at r1 ⊢
  have hab : -1 ≤ a + b := by omega
  by_cases hk : k = 0
  · have := h2 hk
    have hab0 : 0 ≤ a + b := by omega
    refine ⟨(a + b).toNat, by omega, ?_⟩
    intro hz
    have : a + b = 0 := by omega
    rw [this]; omega
  · refine ⟨(k + (a + b)).toNat, by omega, ?_⟩
    intro hz
    have : a + b = -1 ∧ k = 1 := by omega
    rw [this.1]; omega

/-- `n` octets leave the window (`n` at most the window when that is positive, else 0); the ledger moves by `n` when the
frames reach the transport and by nothing when they do not -/
theorem wok_spend {m w w' iws : Int} (h : WOK m w iws) (n : Nat) (hn : (n : Int) ≤ max m 0) (hi : iws ≤ 2147483647)
    (hw : w - n ≤ w') : WOK (m - n) w' iws := by
  obtain ⟨k, h1, h2⟩ := h
  refine ⟨k, by omega, ?_⟩
  intro hk
  have := h2 hk
  by_cases h0 : n = 0
  · omega
  · have : (n : Int) ≤ m := by omega
    omega

theorem rng_spend {m : Int} (hr : Rng m) (n : Nat) (hn : (n : Int) ≤ max m 0) : Rng (m - n) := by
  unfold Rng at *; omega

/-- `spendN` never exceeds a window that is positive and is 0 for one that is not -/
theorem spendN_le (body : Nat) (window connWindow : Int) :
    ((spendN body window connWindow : Nat) : Int) ≤ max window 0 ∧ ((spendN body window connWindow : Nat) : Int) ≤ max connWindow 0 ∧
    spendN body window connWindow ≤ body := by
  unfold spendN
  omega

/-! ## association lists in ascending key order -/

def SortedA {α} (l : List (Nat × α)) : Prop := l.Pairwise fun a b => a.1 < b.1

theorem sortedA_nil {α} : SortedA ([] : List (Nat × α)) := List.Pairwise.nil

theorem sortedA_eraseA {α} {l : List (Nat × α)} (h : SortedA l) (k : Nat) : SortedA (eraseA l k) :=
  List.Pairwise.filter _ h

theorem mem_insertA {α} {l : List (Nat × α)} (h : SortedA l) (k : Nat) (v : α) (p : Nat × α) :
    p ∈ insertA l k v ↔ p = (k, v) ∨ (p ∈ l ∧ p.1 ≠ k) := by
  induction l with
  | nil => simp [insertA]
  | cons x xs ih =>
    obtain ⟨k', v'⟩ := x
    have hx : ∀ q ∈ xs, k' < q.1 := (List.pairwise_cons.mp h).1
    have hs : SortedA xs := (List.pairwise_cons.mp h).2
    simp only [insertA]
    split
    · rename_i hlt
      simp only [List.mem_cons]
      constructor
      · rintro (h1 | h1 | h1)
        · exact .inl h1
        · right; rw [h1]; exact ⟨.inl rfl, by simp; omega⟩
        · right; exact ⟨.inr h1, by have := hx p h1; omega⟩
      · rintro (h1 | ⟨h1 | h1, _⟩)
        · exact .inl h1
        · exact .inr (.inl h1)
        · exact .inr (.inr h1)
    · rename_i hnlt
      split
      · rename_i heq
        have heq' : k = k' := by simpa using heq
        subst heq'
        simp only [List.mem_cons]
        constructor
        · rintro (h1 | h1)
          · exact .inl h1
          · right; exact ⟨.inr h1, by have := hx p h1; omega⟩
        · rintro (h1 | ⟨h1 | h1, h2⟩)
          · exact .inl h1
          · rw [h1] at h2; exact absurd rfl h2
          · exact .inr h1
      · rename_i hne
        have hne' : k ≠ k' := by simpa using hne
        simp only [List.mem_cons, ih hs]
        constructor
        · rintro (h1 | h1 | ⟨h1, h2⟩)
          · right; rw [h1]; exact ⟨.inl rfl, fun e => hne' e.symm⟩
          · exact .inl h1
          · exact .inr ⟨.inr h1, h2⟩
        · rintro (h1 | ⟨h1 | h1, h2⟩)
          · exact .inr (.inl h1)
          · exact .inl h1
          · exact .inr (.inr ⟨h1, h2⟩)

theorem sortedA_insertA {α} {l : List (Nat × α)} (h : SortedA l) (k : Nat) (v : α) : SortedA (insertA l k v) := by
  induction l with
  | nil => exact List.pairwise_singleton _ _
  | cons x xs ih =>
    obtain ⟨k', v'⟩ := x
    have hx : ∀ q ∈ xs, k' < q.1 := (List.pairwise_cons.mp h).1
    have hs : SortedA xs := (List.pairwise_cons.mp h).2
    simp only [insertA]
    split
    · rename_i hlt
      refine List.pairwise_cons.mpr ⟨?_, h⟩
      intro q hq
      simp only [List.mem_cons] at hq
      rcases hq with rfl | hq
      · exact hlt
      · have := hx q hq; simp only; omega
    · split
      · rename_i heq
        have heq' : k = k' := by simpa using heq
        subst heq'
        exact List.pairwise_cons.mpr ⟨hx, hs⟩
      · rename_i hnlt hne
        have hne' : k ≠ k' := by simpa using hne
        refine List.pairwise_cons.mpr ⟨?_, ih hs⟩
        intro q hq
        rcases (mem_insertA hs k v q).mp hq with rfl | ⟨hq, _⟩
        · simp only; omega
        · exact hx q hq

theorem sortedA_keys {α} {l : List (Nat × α)} (h : SortedA l) : (l.map (·.1)).Nodup := by
  unfold SortedA at h
  rw [List.Nodup, List.pairwise_map]
  exact h.imp (fun hab => by omega)

theorem lookupA_iff {α} {l : List (Nat × α)} (h : SortedA l) (k : Nat) (v : α) : lookupA l k = some v ↔ (k, v) ∈ l := by
  constructor
  · exact lookupA_mem
  · intro hm
    cases hl : lookupA l k with
    | none =>
      simp only [lookupA, Option.map_eq_none_iff, List.find?_eq_none] at hl
      have := hl (k, v) hm
      simp at this
    | some v' =>
      rw [keys_unique (sortedA_keys h) (lookupA_mem hl) hm]

theorem sortedA_map {α} {l : List (Nat × α)} (h : SortedA l) (f : Nat × α → Nat × α) (hf : ∀ p, (f p).1 = p.1) :
    SortedA (l.map f) := by
  unfold SortedA
  rw [List.pairwise_map]
  exact h.imp (fun hab => by rw [hf, hf]; exact hab)

/-! ## SETTINGS frames that `ReadFrameFrom` accepts -/

/-- INITIAL_WINDOW_SIZE at most 2^31-1, MAX_FRAME_SIZE within 2^14 … 2^24-1: the recorded values and every pair -/
structure SettingsOK (s : Frame.SettingsVal) : Prop where
  win : s.windowSize ≤ 2147483647
  frame : 16384 ≤ s.frameSize ∧ s.frameSize ≤ 16777215
  pairs : ∀ p ∈ s.pairs, p.1 = Gen.c_MaxFrameSize → 16384 ≤ p.2 ∧ p.2 ≤ 16777215

theorem SettingsOK.push {s : Frame.SettingsVal} (h : SettingsOK s) (key v : Nat)
    (hk : key = Gen.c_MaxFrameSize → 16384 ≤ v ∧ v ≤ 16777215) :
    ∀ p ∈ s.pairs ++ [(key, v)], p.1 = Gen.c_MaxFrameSize → 16384 ≤ p.2 ∧ p.2 ≤ 16777215 := by
  intro p hp hpk
  simp only [List.mem_append, List.mem_singleton] at hp
  rcases hp with hp | rfl
  · exact h.pairs p hp hpk
  · exact hk hpk

/-- (plain recursion over the payload, six octets at a time; `fun_induction` is avoided on purpose: the auxiliary
declarations it generates for `settingsRead` would be generated a second time by another proof file of the library) -/
theorem settingsRead_ok : ∀ (b : Bytes) (s0 s : Frame.SettingsVal), SettingsOK s0 →
    Frame.settingsRead b s0 = .inl (some s) → SettingsOK s
  | k0 :: k1 :: v0 :: v1 :: v2 :: v3 :: rest, s0, s, h0, h => by
    rw [Frame.settingsRead] at h
    simp only at h
    have other : ∀ key v : Nat, key ≠ Gen.c_MaxFrameSize →
        ∀ p ∈ s0.pairs ++ [(key, v)], p.1 = Gen.c_MaxFrameSize → 16384 ≤ p.2 ∧ p.2 ≤ 16777215 :=
      fun key v hne => h0.push key v (fun e => absurd e hne)
    have hc1 : Gen.c_HeaderTableSize ≠ Gen.c_MaxFrameSize := by decide
    have hc2 : Gen.c_EnablePush ≠ Gen.c_MaxFrameSize := by decide
    have hc3 : Gen.c_MaxConcurrentStreams ≠ Gen.c_MaxFrameSize := by decide
    have hc4 : Gen.c_MaxWindowSize ≠ Gen.c_MaxFrameSize := by decide
    split at h
    · rename_i hk
      refine settingsRead_ok rest _ s ⟨?_, ?_, ?_⟩ h
      · exact h0.win
      · exact h0.frame
      · exact other _ _ (by rw [hk]; exact hc1)
    · split at h
      · rename_i hk
        split at h
        · cases h
        · refine settingsRead_ok rest _ s ⟨?_, ?_, ?_⟩ h
          · exact h0.win
          · exact h0.frame
          · exact other _ _ (by rw [hk]; exact hc2)
      · split at h
        · rename_i hk
          refine settingsRead_ok rest _ s ⟨?_, ?_, ?_⟩ h
          · exact h0.win
          · exact h0.frame
          · exact other _ _ (by rw [hk]; exact hc3)
        · split at h
          · rename_i hk
            split at h
            · cases h
            · rename_i hv
              refine settingsRead_ok rest _ s ⟨?_, ?_, ?_⟩ h
              · simp only; simp at hv; omega
              · exact h0.frame
              · exact other _ _ (by rw [hk]; exact hc4)
          · split at h
            · rename_i hk
              split at h
              · cases h
              · rename_i hv
                refine settingsRead_ok rest _ s ⟨?_, ?_, ?_⟩ h
                · exact h0.win
                · simp only; simp at hv; omega
                · refine h0.push _ _ (fun _ => ?_)
                  simp at hv; omega
            · rename_i hk5
              split at h
              · refine settingsRead_ok rest _ s ⟨?_, ?_, ?_⟩ h
                · exact h0.win
                · exact h0.frame
                · exact other _ _ hk5
              · refine settingsRead_ok rest _ s ⟨?_, ?_, ?_⟩ h
                · exact h0.win
                · exact h0.frame
                · exact other _ _ hk5
  | [], s0, s, h0, h => by
    have e : Frame.settingsRead [] s0 = .inl (some s0) := rfl
    rw [e] at h; cases h; exact h0
  | [a1], s0, s, h0, h => by
    have e : Frame.settingsRead [a1] s0 = .inl (some s0) := rfl
    rw [e] at h; cases h; exact h0
  | [a1, a2], s0, s, h0, h => by
    have e : Frame.settingsRead [a1, a2] s0 = .inl (some s0) := rfl
    rw [e] at h; cases h; exact h0
  | [a1, a2, a3], s0, s, h0, h => by
    have e : Frame.settingsRead [a1, a2, a3] s0 = .inl (some s0) := rfl
    rw [e] at h; cases h; exact h0
  | [a1, a2, a3, a4], s0, s, h0, h => by
    have e : Frame.settingsRead [a1, a2, a3, a4] s0 = .inl (some s0) := rfl
    rw [e] at h; cases h; exact h0
  | [a1, a2, a3, a4, a5], s0, s, h0, h => by
    have e : Frame.settingsRead [a1, a2, a3, a4, a5] s0 = .inl (some s0) := rfl
    rw [e] at h; cases h; exact h0

/-- a SETTINGS frame, if the frame is one, carries values `Settings.Read` admits -/
def FrameOK (f : Frame.Frame) : Prop := ∀ s, f.body = .settings s → SettingsOK s

theorem settingsOK_default (ack : Bool) : SettingsOK { ack := ack } :=
  ⟨by show Gen.c_defaultWindowSize ≤ _; decide, by show Gen.c_defaultDataFrameSize ≥ _ ∧ Gen.c_defaultDataFrameSize ≤ _; decide,
   fun p hp => by cases hp⟩

theorem deserialize_ok (typ flags : Nat) (p : Bytes) (s : Frame.SettingsVal)
    (h : Frame.deserialize typ flags p = .inl (.settings s)) : SettingsOK s := by
  simp only [Frame.deserialize] at h
  repeat' split at h
  all_goals first
    | (cases h; done)
    | (rename_i hsr
       simp only [Sum.inl.injEq, Frame.Body.settings.injEq] at h
       subst h
       exact settingsRead_ok _ _ _ (settingsOK_default _) hsr)

theorem readFrame_ok (max : Nat) (b : Bytes) (f : Frame.Frame) (n : Nat) (h : Frame.readFrame max b = .ok f n) :
    FrameOK f := by
  simp only [Frame.readFrame] at h
  repeat' split at h
  all_goals first
    | (cases h; done)
    | (rename_i hd
       simp only [Frame.ReadRes.ok.injEq] at h
       obtain ⟨rfl, _⟩ := h
       intro s hs
       simp only at hs
       subst hs
       exact deserialize_ok _ _ _ _ hd)

theorem splitFrames_ok (fuel : Nat) : ∀ (b : Bytes) (f : Frame.Frame), .frame f ∈ (splitFrames fuel b).1 → FrameOK f := by
  induction fuel with
  | zero => intro b f hf; simp [splitFrames] at hf
  | succ k ih =>
    intro b f hf
    simp only [splitFrames] at hf
    repeat' split at hf
    all_goals first
      | (simp at hf; done)
      | (rename_i hrf
         simp only [List.mem_cons, RdFrame.frame.injEq] at hf
         rcases hf with rfl | hf
         · exact readFrame_ok _ _ _ _ hrf
         · exact ih _ _ hf)
      | (simp only [List.mem_cons] at hf
         rcases hf with hf | hf
         · cases hf
         · exact ih _ _ hf)

end H2.Client
