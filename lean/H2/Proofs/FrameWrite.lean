import H2.Proofs.Frame
import H2.Frame.Write
/-! Helper lemmas for C05, write side: what `WriteTo` emits parses under the RFC grammar to the frame the caller described. -/
namespace H2.Frame
open H2
set_option linter.unusedSimpArgs false

theorem parseHdr_header (len typ flags stream : Nat) (rest : Bytes)
    (hl : len < 2 ^ 24) (ht : typ < 256) (hf : flags < 256) (hs : stream < 2 ^ 31) :
    Spec.parseHdr (header len typ flags stream ++ rest) = some (⟨len, typ, flags, stream⟩, rest) := by
  simp only [header, toBe24, toBe32, List.cons_append, List.nil_append, List.append_assoc, Spec.parseHdr, Spec.u31, Spec.u32]
  simp only [Option.some.injEq, Prod.mk.injEq, and_true, Spec.Hdr.mk.injEq]
  omega

/-- a header announcing exactly the payload that follows, nothing after it -/
theorem parse_written (typ flags stream : Nat) (p : Bytes)
    (hl : p.length < 2 ^ 24) (ht : typ ≤ 9) (hf : flags < 256) (hs : stream < 2 ^ 31) :
    Spec.parse 0 (header p.length typ flags stream ++ p) =
      match Spec.body typ flags p with
      | .ok bd => .frame ⟨typ, flags, stream, p.length, bd⟩ []
      | .bad c => .malformed c := by
  have ht' : ¬ typ > 9 := by omega
  simp only [Spec.parse, parseHdr_header p.length typ flags stream p hl (by omega) hf hs]
  simp only [ht', Nat.lt_irrefl, List.take_length, List.drop_length, if_false, reduceCtorEq, false_and, ne_eq, not_true_eq_false]
  cases h : Spec.body typ flags p <;> rfl


/-- frame values within the ranges the setters document. PUSH_PROMISE is in with every promised id `SetStream`
can be handed (finding F14, repaired: `Serialize` writes the promised id with the reserved bit clear, END_HEADERS
and the padding). SETTINGS values of zero are in (finding F35, repaired: the setters mark a value as present and
`Encode` writes what is present). -/
def Buildable : WFrame → Prop
  | .data _ b => WF b
  | .headers _ _ prio raw => WF raw ∧ (∀ d w, prio = some (d, w) → d < 2 ^ 31 ∧ w < 256)
  | .priority dep w => dep < 2 ^ 31 ∧ w < 256
  | .rstStream c => c < 2 ^ 32
  | .settings ack ts _ ms ws fs hs =>
    ack = true ∨ (ts < 2 ^ 32 ∧ ms < 2 ^ 32 ∧ ws < 2 ^ 31 ∧ 2 ^ 14 ≤ fs ∧ fs < 2 ^ 24 ∧ hs < 2 ^ 32)
  | .pushPromise pr _ h => pr < 2 ^ 32 ∧ WF h
  | .ping _ d => d.length = 8
  | .goAway last code _ => last < 2 ^ 31 ∧ code < 2 ^ 32
  | .windowUpdate inc => inc < 2 ^ 31
  | .continuation _ _ => True

def PadOk (pad : Nat) : Prop := pad = 0 ∨ (9 ≤ pad ∧ pad ≤ 255)

theorem u32_toBe32 (n : Nat) (h : n < 2 ^ 32) :
    Spec.u32 (n / 16777216 % 256) (n / 65536 % 256) (n / 256 % 256) (n % 256) = n := by
  simp [Spec.u32]; omega

theorem u31_toBe32 (n : Nat) (h : n < 2 ^ 31) :
    Spec.u31 (n / 16777216 % 256) (n / 65536 % 256) (n / 256 % 256) (n % 256) = n := by
  simp [Spec.u31, Spec.u32]; omega

theorem unpad_addPadding (b : Bytes) (n : Nat) : Spec.unpad true (addPadding b n) = some b := by
  simp [Spec.unpad, addPadding]

theorem body_data (es : Bool) (b : Bytes) (pad : Nat) (hp : PadOk pad) :
    Spec.body Gen.c_FrameData (serialize 0 pad (.data es b)).1 (serialize 0 pad (.data es b)).2 = .ok (.data es b) := by
  rcases hp with rfl | hp
  · cases es <;> simp [serialize, addFlag, hasFlag, Gen.c_FlagEndStream, Gen.c_FrameData, Spec.body, Spec.bitAt, Spec.unpad]
  · have : pad ≠ 0 := by omega
    cases es <;>
      simp [serialize, addFlag, hasFlag, Gen.c_FlagEndStream, Gen.c_FlagPadded, Gen.c_FrameData, Spec.body, Spec.bitAt, this,
        unpad_addPadding]


theorem body_headers (es eh : Bool) (prio : Option (Nat × Nat)) (raw : Bytes) (pad : Nat) (hp : PadOk pad)
    (hB : ∀ d w, prio = some (d, w) → d < 2 ^ 31 ∧ w < 256) :
    Spec.body Gen.c_FrameHeaders (serialize 0 pad (.headers es eh prio raw)).1 (serialize 0 pad (.headers es eh prio raw)).2
      = .ok (.headers es eh prio raw) := by
  have hpad : pad = 0 ∨ pad ≠ 0 := by omega
  rcases prio with _ | ⟨d, w⟩
  · rcases hpad with rfl | hpad
    · cases es <;> cases eh <;>
        simp [serialize, addFlag, hasFlag, Gen.c_FlagEndStream, Gen.c_FlagEndHeaders, Gen.c_FrameHeaders, Spec.body, Spec.bitAt, Spec.unpad]
    · cases es <;> cases eh <;>
        simp [serialize, addFlag, hasFlag, Gen.c_FlagEndStream, Gen.c_FlagEndHeaders, Gen.c_FlagPadded, Gen.c_FrameHeaders,
          Spec.body, Spec.bitAt, hpad, unpad_addPadding]
  · have hd := (hB d w rfl).1
    rcases hpad with rfl | hpad
    · cases es <;> cases eh <;>
        simp [serialize, addFlag, hasFlag, Gen.c_FlagEndStream, Gen.c_FlagEndHeaders, Gen.c_FlagPriority, Gen.c_FrameHeaders,
          Spec.body, Spec.bitAt, Spec.unpad, toBe32, u31_toBe32 d hd]
    · cases es <;> cases eh <;>
        simp [serialize, addFlag, hasFlag, Gen.c_FlagEndStream, Gen.c_FlagEndHeaders, Gen.c_FlagPriority, Gen.c_FlagPadded,
          Gen.c_FrameHeaders, Spec.body, Spec.bitAt, hpad, unpad_addPadding, toBe32, u31_toBe32 d hd]

theorem body_pushPromise (pr : Nat) (eh : Bool) (h : Bytes) (pad : Nat) (hp : PadOk pad) :
    Spec.body Gen.c_FramePushPromise (serialize 0 pad (.pushPromise pr eh h)).1 (serialize 0 pad (.pushPromise pr eh h)).2
      = .ok (.pushPromise (pr % 2 ^ 31) eh h) := by
  have hd : pr % 2 ^ 31 < 2 ^ 31 := Nat.mod_lt _ (by decide)
  have hpad : pad = 0 ∨ pad ≠ 0 := by omega
  rcases hpad with rfl | hpad
  · cases eh <;>
      simp [serialize, addFlag, hasFlag, Gen.c_FlagEndHeaders, Gen.c_FramePushPromise, Spec.body, Spec.bitAt, Spec.unpad,
        toBe32, Spec.u31, Spec.u32] <;> omega
  · cases eh <;>
      simp [serialize, addFlag, hasFlag, Gen.c_FlagEndHeaders, Gen.c_FlagPadded, Gen.c_FramePushPromise, Spec.body, Spec.bitAt,
        hpad, unpad_addPadding, toBe32, Spec.u31, Spec.u32] <;> omega

theorem body_priority (dep w pad : Nat) (hd : dep < 2 ^ 31) :
    Spec.body Gen.c_FramePriority (serialize 0 pad (.priority dep w)).1 (serialize 0 pad (.priority dep w)).2
      = .ok (.priority dep w) := by
  simp [serialize, Gen.c_FramePriority, Spec.body, toBe32, u31_toBe32 dep hd]

theorem body_rst (code pad : Nat) (hc : code < 2 ^ 32) :
    Spec.body Gen.c_FrameResetStream (serialize 0 pad (.rstStream code)).1 (serialize 0 pad (.rstStream code)).2
      = .ok (.rstStream code) := by
  simp [serialize, Gen.c_FrameResetStream, Spec.body, toBe32, u32_toBe32 code hc]

theorem body_ping (ack : Bool) (d : Bytes) (pad : Nat) (hd : d.length = 8) :
    Spec.body Gen.c_FramePing (serialize 0 pad (.ping ack d)).1 (serialize 0 pad (.ping ack d)).2 = .ok (.ping ack d) := by
  cases ack <;> simp [serialize, addFlag, hasFlag, Gen.c_FlagAck, Gen.c_FramePing, Spec.body, Spec.bitAt, hd]

theorem body_goaway (last code : Nat) (dbg : Bytes) (pad : Nat) (hl : last < 2 ^ 31) (hc : code < 2 ^ 32) :
    Spec.body Gen.c_FrameGoAway (serialize 0 pad (.goAway last code dbg)).1 (serialize 0 pad (.goAway last code dbg)).2
      = .ok (.goAway last code dbg) := by
  simp [serialize, Gen.c_FrameGoAway, Spec.body, toBe32, u31_toBe32 last hl, u32_toBe32 code hc]

theorem body_wu (inc pad : Nat) (hi : inc < 2 ^ 31) :
    Spec.body Gen.c_FrameWindowUpdate (serialize 0 pad (.windowUpdate inc)).1 (serialize 0 pad (.windowUpdate inc)).2
      = .ok (.windowUpdate inc) := by
  simp [serialize, Gen.c_FrameWindowUpdate, Spec.body, toBe32, u31_toBe32 inc hi]

theorem body_cont (eh : Bool) (raw : Bytes) (pad : Nat) :
    Spec.body Gen.c_FrameContinuation (serialize 0 pad (.continuation eh raw)).1 (serialize 0 pad (.continuation eh raw)).2
      = .ok (.continuation eh raw) := by
  cases eh <;> simp [serialize, addFlag, hasFlag, Gen.c_FlagEndHeaders, Gen.c_FrameContinuation, Spec.body, Spec.bitAt]


theorem body_settings (ack push : Bool) (ts ms ws fs hs pad : Nat)
    (hB : ack = true ∨ (ts < 2 ^ 32 ∧ ms < 2 ^ 32 ∧ ws < 2 ^ 31 ∧ 2 ^ 14 ≤ fs ∧ fs < 2 ^ 24 ∧ hs < 2 ^ 32)) :
    ∃ sv, Spec.body Gen.c_FrameSettings (serialize 0 pad (.settings ack ts push ms ws fs hs)).1
        (serialize 0 pad (.settings ack ts push ms ws fs hs)).2 = .ok (.settings sv) ∧
      sameBody (.settings sv) (WFrame.want (.settings ack ts push ms ws fs hs)) = true := by
  cases ack with
  | true =>
    refine ⟨Spec.settingsVal true [], ?_, ?_⟩
    · simp [serialize, addFlag, hasFlag, Gen.c_FlagAck, Gen.c_FrameSettings, Spec.body, Spec.bitAt, Spec.pairsOf, Spec.firstBad]
    · simp [sameBody, WFrame.want, Spec.settingsVal]
  | false =>
    rcases hB with h | ⟨h2, h4, h6, h7, h8, h9⟩
    · cases h
    · have hfs : fs ≠ 0 := by omega
      have hfs32 : fs < 2 ^ 32 := by omega
      have hws32 : ws < 2 ^ 32 := by omega
      have e1 := u32_toBe32 ts h2
      have e3 := u32_toBe32 ms h4
      have e4 := u32_toBe32 ws hws32
      have e5 := u32_toBe32 fs hfs32
      have e6 := u32_toBe32 hs h9
      have e2 : Spec.u32 0 0 0 1 = 1 := by decide
      have e0 : Spec.u32 0 0 0 0 = 0 := by decide
      have b4 : ¬ (2147483647 < ws) := by omega
      have b5 : ¬ (fs < 16384 ∨ 16777215 < fs) := by omega
      refine ⟨Spec.settingsVal false (Spec.pairsOf (serialize 0 pad (.settings false ts push ms ws fs hs)).2), ?_, ?_⟩
      · by_cases hh : hs = 0 <;> cases push <;>
          simp [serialize, settingsEncode, settingsPair, Gen.c_FrameSettings, Gen.c_HeaderTableSize, Gen.c_EnablePush,
            Gen.c_MaxConcurrentStreams, Gen.c_MaxWindowSize, Gen.c_MaxFrameSize, Gen.c_MaxHeaderListSize, hfs, hh,
            toBe16, toBe32, Spec.body, Spec.bitAt, Spec.pairsOf, Spec.firstBad, Spec.pairBad, e0, e1, e2, e3, e4, e5, e6, b4, b5]
      · by_cases hh : hs = 0 <;> cases push <;>
          simp [serialize, settingsEncode, settingsPair, Gen.c_FrameSettings, Gen.c_HeaderTableSize, Gen.c_EnablePush,
            Gen.c_MaxConcurrentStreams, Gen.c_MaxWindowSize, Gen.c_MaxFrameSize, Gen.c_MaxHeaderListSize, hfs, hh,
            toBe16, toBe32, Spec.pairsOf, e0, e1, e2, e3, e4, e5, e6, sameBody, WFrame.want, Spec.settingsVal, Spec.applyPair]


theorem typ_le (w : WFrame) : w.typ ≤ 9 := by
  cases w <;> simp [WFrame.typ, Gen.c_FrameData, Gen.c_FrameHeaders, Gen.c_FramePriority, Gen.c_FrameResetStream,
    Gen.c_FrameSettings, Gen.c_FramePushPromise, Gen.c_FramePing, Gen.c_FrameGoAway, Gen.c_FrameWindowUpdate, Gen.c_FrameContinuation]

theorem flags_lt (pad : Nat) (w : WFrame) : (serialize 0 pad w).1 < 256 := by
  have hpad : pad = 0 ∨ pad ≠ 0 := by omega
  cases w with
  | data es b => rcases hpad with rfl | hpad <;> cases es <;> simp [serialize, addFlag, hasFlag, Gen.c_FlagEndStream, Gen.c_FlagPadded, *]
  | headers es eh prio raw =>
    rcases hpad with rfl | hpad <;> cases es <;> cases eh <;> rcases prio with _ | ⟨d, w⟩ <;>
      simp [serialize, addFlag, hasFlag, Gen.c_FlagEndStream, Gen.c_FlagEndHeaders, Gen.c_FlagPriority, Gen.c_FlagPadded, *]
  | settings ack => cases ack <;> simp [serialize, addFlag, hasFlag, Gen.c_FlagAck]
  | ping ack => cases ack <;> simp [serialize, addFlag, hasFlag, Gen.c_FlagAck]
  | continuation eh => cases eh <;> simp [serialize, addFlag, hasFlag, Gen.c_FlagEndHeaders]
  | pushPromise pr eh h =>
    rcases hpad with rfl | hpad <;> cases eh <;> simp [serialize, addFlag, hasFlag, Gen.c_FlagEndHeaders, Gen.c_FlagPadded, *]
  | _ => simp [serialize]

/-- the payload grammar reads what `Serialize` wrote as the body the caller described -/
theorem body_written (pad : Nat) (w : WFrame) (hB : Buildable w) (hp : PadOk pad) :
    ∃ bd, Spec.body w.typ (serialize 0 pad w).1 (serialize 0 pad w).2 = .ok bd ∧ sameBody bd w.want = true := by
  cases w with
  | data es b => exact ⟨_, body_data es b pad hp, by simp [sameBody, WFrame.want]⟩
  | headers es eh prio raw => exact ⟨_, body_headers es eh prio raw pad hp hB.2, by simp [sameBody, WFrame.want]⟩
  | priority dep w => exact ⟨_, body_priority dep w pad hB.1, by simp [sameBody, WFrame.want]⟩
  | rstStream c => exact ⟨_, body_rst c pad hB, by simp [sameBody, WFrame.want]⟩
  | settings ack ts push ms ws fs hs =>
    obtain ⟨sv, h1, h2⟩ := body_settings ack push ts ms ws fs hs pad hB
    exact ⟨_, h1, h2⟩
  | pushPromise pr eh h => exact ⟨_, body_pushPromise pr eh h pad hp, by simp [sameBody, WFrame.want]⟩
  | ping ack d => exact ⟨_, body_ping ack d pad hB, by simp [sameBody, WFrame.want]⟩
  | goAway last code dbg => exact ⟨_, body_goaway last code dbg pad hB.1 hB.2, by simp [sameBody, WFrame.want]⟩
  | windowUpdate inc => exact ⟨_, body_wu inc pad hB, by simp [sameBody, WFrame.want]⟩
  | continuation eh raw => exact ⟨_, body_cont eh raw pad, by simp [sameBody, WFrame.want]⟩

/-- C05, write side: the octets `WriteTo` emits are one RFC 7540 frame, nothing before or after it, whose
header carries the type, the stream and the exact payload length, and whose fields are the caller's -/
theorem write_parse (stream pad : Nat) (w : WFrame) (hB : Buildable w) (hp : PadOk pad) (hs : stream < 2 ^ 31)
    (hsz : (serialize 0 pad w).2.length < 2 ^ 24) :
    ∃ bd, Spec.parse 0 (write 0 stream pad w) =
        .frame ⟨w.typ, (serialize 0 pad w).1, stream, (serialize 0 pad w).2.length, bd⟩ [] ∧
      sameBody bd w.want = true := by
  obtain ⟨bd, h1, h2⟩ := body_written pad w hB hp
  refine ⟨bd, ?_, h2⟩
  unfold write
  simp only [parse_written w.typ _ stream _ hsz (typ_le w) (flags_lt pad w) hs, h1]



theorem write_r_bit (stream pad : Nat) (w : WFrame) (hs : stream < 2 ^ 31) : (write 0 stream pad w).getD 5 0 < 128 := by
  simp [write, header, toBe24, toBe32]; omega

theorem write_drop9 (stream pad : Nat) (w : WFrame) : (write 0 stream pad w).drop 9 = (serialize 0 pad w).2 := by
  simp [write, header, toBe24, toBe32]

theorem padZero_addPadding (b : Bytes) (n : Nat) : Spec.padZero true (addPadding b n) = true := by
  simp [Spec.padZero, addPadding]

theorem flagsOk_written (pad : Nat) (w : WFrame) : Spec.flagsOk w.typ (serialize 0 pad w).1 = true := by
  have hpad : pad = 0 ∨ pad ≠ 0 := by omega
  cases w with
  | data es b =>
    rcases hpad with rfl | hpad <;> cases es <;>
      simp [serialize, addFlag, hasFlag, Gen.c_FlagEndStream, Gen.c_FlagPadded, WFrame.typ, Gen.c_FrameData, *] <;> decide
  | headers es eh prio raw =>
    rcases hpad with rfl | hpad <;> cases es <;> cases eh <;> rcases prio with _ | ⟨d, w⟩ <;>
      simp [serialize, addFlag, hasFlag, Gen.c_FlagEndStream, Gen.c_FlagEndHeaders, Gen.c_FlagPriority, Gen.c_FlagPadded,
        WFrame.typ, Gen.c_FrameHeaders, *] <;> decide
  | settings ack => cases ack <;> simp [serialize, addFlag, hasFlag, Gen.c_FlagAck, WFrame.typ, Gen.c_FrameSettings] <;> decide
  | ping ack => cases ack <;> simp [serialize, addFlag, hasFlag, Gen.c_FlagAck, WFrame.typ, Gen.c_FramePing] <;> decide
  | continuation eh => cases eh <;> simp [serialize, addFlag, hasFlag, Gen.c_FlagEndHeaders, WFrame.typ, Gen.c_FrameContinuation] <;> decide
  | priority => simp [serialize, WFrame.typ, Gen.c_FramePriority]; decide
  | rstStream => simp [serialize, WFrame.typ, Gen.c_FrameResetStream]; decide
  | pushPromise pr eh h =>
    rcases hpad with rfl | hpad <;> cases eh <;>
      simp [serialize, addFlag, hasFlag, Gen.c_FlagEndHeaders, Gen.c_FlagPadded, WFrame.typ, Gen.c_FramePushPromise, *] <;> decide
  | goAway => simp [serialize, WFrame.typ, Gen.c_FrameGoAway]; decide
  | windowUpdate => simp [serialize, WFrame.typ, Gen.c_FrameWindowUpdate]; decide


theorem padZero_written (pad : Nat) (w : WFrame) (hB : Buildable w) :
    Spec.padZero ((w.typ = 0 ∨ w.typ = 1 ∨ w.typ = 5) ∧ Spec.bitAt (serialize 0 pad w).1 3) (serialize 0 pad w).2 = true := by
  have hpad : pad = 0 ∨ pad ≠ 0 := by omega
  cases w with
  | data es b =>
    rcases hpad with rfl | hpad
    · cases es <;> simp [serialize, addFlag, hasFlag, Gen.c_FlagEndStream, Spec.bitAt, Spec.padZero]
    · cases es <;>
        simp [serialize, addFlag, hasFlag, Gen.c_FlagEndStream, Gen.c_FlagPadded, WFrame.typ, Gen.c_FrameData, hpad,
          Spec.bitAt, padZero_addPadding]
  | headers es eh prio raw =>
    rcases hpad with rfl | hpad
    · cases es <;> cases eh <;> rcases prio with _ | ⟨d, w⟩ <;>
        simp [serialize, addFlag, hasFlag, Gen.c_FlagEndStream, Gen.c_FlagEndHeaders, Gen.c_FlagPriority, Spec.bitAt, Spec.padZero]
    · cases es <;> cases eh <;> rcases prio with _ | ⟨d, w⟩ <;>
        simp [serialize, addFlag, hasFlag, Gen.c_FlagEndStream, Gen.c_FlagEndHeaders, Gen.c_FlagPriority, Gen.c_FlagPadded,
          WFrame.typ, Gen.c_FrameHeaders, hpad, Spec.bitAt, padZero_addPadding]
  | pushPromise pr eh h =>
    rcases hpad with rfl | hpad
    · cases eh <;> simp [serialize, addFlag, hasFlag, Gen.c_FlagEndHeaders, Spec.bitAt, Spec.padZero]
    · cases eh <;>
        simp [serialize, addFlag, hasFlag, Gen.c_FlagEndHeaders, Gen.c_FlagPadded, WFrame.typ, Gen.c_FramePushPromise, hpad,
          Spec.bitAt, padZero_addPadding]
  | settings ack => simp [WFrame.typ, Gen.c_FrameSettings, Spec.padZero]
  | ping ack => simp [WFrame.typ, Gen.c_FramePing, Spec.padZero]
  | continuation eh => simp [WFrame.typ, Gen.c_FrameContinuation, Spec.padZero]
  | priority => simp [WFrame.typ, Gen.c_FramePriority, Spec.padZero]
  | rstStream => simp [WFrame.typ, Gen.c_FrameResetStream, Spec.padZero]
  | goAway => simp [WFrame.typ, Gen.c_FrameGoAway, Spec.padZero]
  | windowUpdate => simp [WFrame.typ, Gen.c_FrameWindowUpdate, Spec.padZero]

theorem reservedOk_written (pad : Nat) (w : WFrame) (hB : Buildable w) :
    Spec.reservedOk w.typ (serialize 0 pad w).1 (serialize 0 pad w).2 = true := by
  cases w with
  | pushPromise pr eh h =>
    have hd : pr % 2 ^ 31 < 2 ^ 31 := Nat.mod_lt _ (by decide)
    have hpad : pad = 0 ∨ pad ≠ 0 := by omega
    rcases hpad with rfl | hpad
    · cases eh <;>
        simp [serialize, addFlag, hasFlag, Gen.c_FlagEndHeaders, WFrame.typ, Gen.c_FramePushPromise, Spec.reservedOk, Spec.bitAt,
          toBe32] <;> omega
    · cases eh <;>
        simp [serialize, addFlag, hasFlag, Gen.c_FlagEndHeaders, Gen.c_FlagPadded, WFrame.typ, Gen.c_FramePushPromise, hpad,
          Spec.reservedOk, Spec.bitAt, addPadding, toBe32] <;> omega
  | goAway last code dbg =>
    have := hB.1
    simp [serialize, WFrame.typ, Gen.c_FrameGoAway, Spec.reservedOk, toBe32]; omega
  | windowUpdate inc =>
    have : inc < 2 ^ 31 := hB
    simp [serialize, WFrame.typ, Gen.c_FrameWindowUpdate, Spec.reservedOk, toBe32]; omega
  | data => simp [WFrame.typ, Gen.c_FrameData, Spec.reservedOk]
  | headers => simp [WFrame.typ, Gen.c_FrameHeaders, Spec.reservedOk]
  | settings ack => simp [WFrame.typ, Gen.c_FrameSettings, Spec.reservedOk]
  | ping ack => simp [WFrame.typ, Gen.c_FramePing, Spec.reservedOk]
  | continuation eh => simp [WFrame.typ, Gen.c_FrameContinuation, Spec.reservedOk]
  | priority => simp [WFrame.typ, Gen.c_FramePriority, Spec.reservedOk]
  | rstStream => simp [WFrame.typ, Gen.c_FrameResetStream, Spec.reservedOk]

/-- C05, write side: … and that frame is one a conforming sender may emit (R bits zero, padding zero,
no undefined flag, stream identifier as the type requires) -/
theorem write_sendwf (stream pad : Nat) (w : WFrame) (hB : Buildable w) (hp : PadOk pad) (hs : stream < 2 ^ 31)
    (hsz : (serialize 0 pad w).2.length < 2 ^ 24) (hso : Spec.streamOk w.typ stream = true) :
    Spec.sendWF (write 0 stream pad w) = true := by
  obtain ⟨bd, h1, _⟩ := write_parse stream pad w hB hp hs hsz
  unfold Spec.sendWF
  rw [h1]
  simp only [write_drop9, Bool.and_eq_true, decide_eq_true_eq]
  exact ⟨⟨⟨⟨write_r_bit stream pad w hs, flagsOk_written pad w⟩, hso⟩, padZero_written pad w hB⟩, reservedOk_written pad w hB⟩


/-- field ranges only: what the full property quantifies over -/
def InRange : WFrame → Prop
  | .data _ b => WF b
  | .headers _ _ prio raw => WF raw ∧ (∀ d w, prio = some (d, w) → d < 2 ^ 31 ∧ w < 256)
  | .priority dep w => dep < 2 ^ 31 ∧ w < 256
  | .rstStream c => c < 2 ^ 32
  | .settings ack ts _ ms ws fs hs =>
    ack = true ∨ (ts < 2 ^ 32 ∧ ms < 2 ^ 32 ∧ ws < 2 ^ 31 ∧ 2 ^ 14 ≤ fs ∧ fs < 2 ^ 24 ∧ hs < 2 ^ 32)
  | .pushPromise pr _ h => pr < 2 ^ 32 ∧ WF h
  | .ping _ d => d.length = 8
  | .goAway last code _ => last < 2 ^ 31 ∧ code < 2 ^ 32
  | .windowUpdate inc => inc < 2 ^ 31
  | .continuation _ _ => True

/-- no finding is left on the write side: everything in range can be built through the public setters -/
theorem buildable_of (w : WFrame) (hr : InRange w) : Buildable w := by
  cases w with
  | pushPromise pr eh h => exact hr
  | settings ack ts push ms ws fs hs => exact hr
  | data => exact hr
  | headers => exact hr
  | priority => exact hr
  | rstStream => exact hr
  | ping => exact hr
  | goAway => exact hr
  | windowUpdate => exact hr
  | continuation => exact hr

end H2.Frame
