import H2.Server.Abs.Slots
/-! Helper lemmas for C13 / C17 (abstract slot accounting `H2.Server.Abs.Slots`). -/
namespace H2.Server.Abs.Slots

/-! ## counting: `openStreams` is the number of live stream objects and never passes the limit -/

structure Cnt (st : St) : Prop where
  cnt : st.opn = (st.tbl.length : Int) + st.abandoned.length
  lim : st.opn ≤ (st.max : Int)

theorem setRunning_length (l : List Strm) (u : Nat) (b : Bool) : (setRunning l u b).length = l.length := by
  simp [setRunning]

theorem find_mem {p : Strm → Bool} {l : List Strm} {s : Strm} (h : l.find? p = some s) : s ∈ l :=
  List.mem_of_find?_eq_some h

theorem closeEntry_cnt {st : St} {s : Strm} (h : Cnt st) (hs : s ∈ st.tbl) : Cnt (closeEntry st s) := by
  have hl := List.length_erase_of_mem hs
  have hpos : 0 < st.tbl.length := List.length_pos_of_mem hs
  obtain ⟨c, l⟩ := h
  unfold closeEntry release
  split <;> constructor <;> simp only [List.length_append, List.length_cons, List.length_nil] <;> omega

theorem step_cnt {st : St} (e : Ev) (h : Cnt st) : Cnt (step st e) := by
  cases e with
  | hdrNew id closing =>
    obtain ⟨c, l⟩ := h
    simp only [step]
    repeat' split
    all_goals constructor <;> (try simp only [List.length_append, List.length_cons, List.length_nil]) <;> omega
  | dispatch id =>
    obtain ⟨c, l⟩ := h
    simp only [step]
    repeat' split
    all_goals constructor <;> (try simp only [setRunning_length]) <;> omega
  | close id =>
    simp only [step, closeStream]
    split
    · exact h
    · rename_i s hf
      exact closeEntry_cnt h (find_mem hf)
  | done id fin =>
    simp only [step]
    split
    · rename_i s hf
      have hs : s ∈ st.tbl := find_mem hf
      have h1 : Cnt { st with tbl := setRunning st.tbl s.uid false, handlers := st.handlers.erase s.uid,
                              trace := st.trace ++ [.returned s.uid] } := by
        obtain ⟨c, l⟩ := h
        constructor <;> simp only [setRunning_length] <;> omega
      split
      · apply closeEntry_cnt h1
        simp only [setRunning, List.mem_map]
        exact ⟨s, hs, by simp⟩
      · exact h1
    · split
      · exact h
      · rename_i s hf
        have hs : s ∈ st.abandoned := find_mem hf
        have hl := List.length_erase_of_mem hs
        have hpos : 0 < st.abandoned.length := List.length_pos_of_mem hs
        obtain ⟨c, l⟩ := h
        constructor <;> simp only [release] <;> omega

theorem run_cnt (evs : List Ev) : ∀ st, Cnt st → Cnt (run st evs) := by
  induction evs with
  | nil => intro st h; exact h
  | cons e es ih => intro st h; exact ih _ (step_cnt e h)

theorem closeEntry_max (st : St) (s : Strm) : (closeEntry st s).max = st.max := by
  unfold closeEntry release; split <;> rfl

theorem step_max (st : St) (e : Ev) : (step st e).max = st.max := by
  cases e <;> simp only [step, closeStream] <;> repeat' split
  all_goals first | rfl | (simp only [closeEntry_max]) | (simp only [release])

theorem run_max (evs : List Ev) : ∀ st, (run st evs).max = st.max := by
  induction evs with
  | nil => intro st; rfl
  | cons e es ih => intro st; simp only [run]; rw [ih, step_max]

theorem init_cnt (max : Nat) : Cnt (init max) := by
  constructor <;> simp [init]

theorem runningCount_le (st : St) : runningCount st ≤ st.tbl.length + st.abandoned.length := by
  unfold runningCount
  have := List.length_filter_le (fun s : Strm => s.running) st.tbl
  omega


/-! ## the ring of closed ids -/

theorem markClosed_length (ring : List Nat) (id : Nat) (h : ring.length ≤ 256) : (markClosed ring id).length ≤ 256 := by
  unfold markClosed
  have hc : ringCap = 256 := rfl
  split
  · exact h
  · split
    · simp only [List.length_append, List.length_cons, List.length_nil]; omega
    · simp only [List.length_append, List.length_drop, List.length_cons, List.length_nil]; omega

theorem closeEntry_ring {st : St} (s : Strm) (h : st.ring.length ≤ 256) : (closeEntry st s).ring.length ≤ 256 := by
  unfold closeEntry release
  split <;> exact markClosed_length _ _ h

theorem step_ring {st : St} (e : Ev) (h : st.ring.length ≤ 256) : (step st e).ring.length ≤ 256 := by
  cases e <;> simp only [step, closeStream] <;> repeat' split
  all_goals first | exact h | exact closeEntry_ring _ h | (simp only [release]; exact h)

theorem run_ring (evs : List Ev) : ∀ st, st.ring.length ≤ 256 → (run st evs).ring.length ≤ 256 := by
  induction evs with
  | nil => intro st h; exact h
  | cons e es ih => intro st h; exact ih _ (step_ring e h)

/-! ## ownership of request contexts -/

theorem not_mem_map_erase {α β} [DecidableEq α] (f : α → β) :
    ∀ (l : List α) (s : α), (l.map f).Nodup → s ∈ l → f s ∉ (l.erase s).map f := by
  intro l
  induction l with
  | nil => intro s _ h; cases h
  | cons x xs ih =>
    intro s hn hs
    simp only [List.map_cons, List.nodup_cons] at hn
    by_cases hx : x = s
    · subst hx; simpa using hn.1
    · have hs' : s ∈ xs := by
        rcases List.mem_cons.mp hs with h | h
        · exact absurd h.symm hx
        · exact h
      rw [List.erase_cons_tail (by simpa using hx)]
      simp only [List.map_cons, List.mem_cons, not_or]
      refine ⟨?_, ih s hn.2 hs'⟩
      intro h
      exact hn.1 (h ▸ List.mem_map_of_mem hs')

theorem nodup_of_nodup_map {α β} (f : α → β) : ∀ l : List α, (l.map f).Nodup → l.Nodup := by
  intro l
  induction l with
  | nil => intro _; exact List.nodup_nil
  | cons x xs ih =>
    intro h
    simp only [List.map_cons, List.nodup_cons] at h ⊢
    exact ⟨fun hx => h.1 (List.mem_map_of_mem hx), ih h.2⟩

theorem setRunning_map_uid (l : List Strm) (u : Nat) (b : Bool) : (setRunning l u b).map (·.uid) = l.map (·.uid) := by
  simp only [setRunning, List.map_map]
  apply List.map_congr_left
  intro x _
  simp only [Function.comp]
  split <;> rfl

theorem mem_setRunning {l : List Strm} {u : Nat} {b : Bool} {y : Strm} :
    y ∈ setRunning l u b ↔ ∃ x ∈ l, (if x.uid = u then { x with running := b } else x) = y := by
  simp [setRunning]

def live (st : St) : List Strm := st.tbl ++ st.abandoned

def relUid : Rec → Option Nat
  | .released u _ => some u
  | _ => none

structure Own (st : St) : Prop where
  nodup : ((live st).map (·.uid)).Nodup
  lt : ∀ s ∈ live st, s.uid < st.nextUid
  poolLt : ∀ u ∈ st.pool, u < st.nextUid
  poolNodup : st.pool.Nodup
  disj : ∀ s ∈ live st, s.uid ∉ st.pool
  hand : ∀ u, u ∈ st.handlers ↔ ∃ s ∈ live st, s.uid = u ∧ s.running = true
  handNodup : st.handlers.Nodup
  abRun : ∀ s ∈ st.abandoned, s.running = true
  relOK : ∀ u b, Rec.released u b ∈ st.trace → b = false
  poolTrace : st.pool = st.trace.filterMap relUid

theorem uid_inj : ∀ {l : List Strm}, (l.map (·.uid)).Nodup → ∀ {a b : Strm}, a ∈ l → b ∈ l → a.uid = b.uid → a = b := by
  intro l
  induction l with
  | nil => intro _ a b ha; cases ha
  | cons x xs ih =>
    intro hn a b ha hb he
    simp only [List.map_cons, List.nodup_cons, List.mem_map, not_exists, not_and] at hn
    rcases List.mem_cons.mp ha with ha' | ha' <;> rcases List.mem_cons.mp hb with hb' | hb'
    · rw [ha', hb']
    · subst ha'; exact absurd he.symm (hn.1 b hb')
    · subst hb'; exact absurd he (hn.1 a ha')
    · exact ih hn.2 ha' hb' he

theorem live_erase_perm {tbl ab : List Strm} {s : Strm} (hs : s ∈ tbl) :
    (tbl.erase s ++ (ab ++ [s])).Perm (tbl ++ ab) := by
  have h1 : (s :: tbl.erase s).Perm tbl := (List.perm_cons_erase hs).symm
  have h2 : (tbl.erase s ++ (ab ++ [s])).Perm (s :: (tbl.erase s ++ ab)) := by
    rw [← List.append_assoc]
    exact List.perm_append_singleton s (tbl.erase s ++ ab)
  exact h2.trans ((List.Perm.append_right ab h1))

theorem abandon_own {st : St} {s : Strm} (h : Own st) (hs : s ∈ st.tbl) (hr : s.running = true) (ring : List Nat) :
    Own { st with ring := ring, tbl := st.tbl.erase s, abandoned := st.abandoned ++ [s] } := by
  have hp := live_erase_perm (ab := st.abandoned) hs
  have hm : ∀ x, x ∈ st.tbl.erase s ++ (st.abandoned ++ [s]) ↔ x ∈ st.tbl ++ st.abandoned := fun x => hp.mem_iff
  obtain ⟨h1,h2,h3,h4,h5,h6,h7,h8,h9,h10⟩ := h
  simp only [live] at *
  refine ⟨?_, ?_, h3, h4, ?_, ?_, h7, ?_, h9, h10⟩
  · exact (hp.map _).nodup_iff.mpr h1
  · intro x hx; exact h2 x ((hm x).mp hx)
  · intro x hx; exact h5 x ((hm x).mp hx)
  · intro u; rw [h6 u]
    constructor
    · rintro ⟨x, hx, e⟩; exact ⟨x, (hm x).mpr hx, e⟩
    · rintro ⟨x, hx, e⟩; exact ⟨x, (hm x).mp hx, e⟩
  · intro x hx
    simp only [List.mem_append, List.mem_singleton] at hx
    rcases hx with hx | hx
    · exact h8 x hx
    · subst hx; exact hr


theorem filterMap_relUid_append (t : List Rec) (r : Rec) :
    (t ++ [r]).filterMap relUid = t.filterMap relUid ++ (match relUid r with | some u => [u] | none => []) := by
  rw [List.filterMap_append]
  cases r <;> simp [relUid]

/-- a stream whose handler is not running leaves the table: its context goes back to the pool -/
theorem release_own {st : St} {s : Strm} (h : Own st) (hs : s ∈ st.tbl) (hr : s.running = false) (ring : List Nat) :
    Own (release { st with ring := ring, tbl := st.tbl.erase s } s) := by
  obtain ⟨h1,h2,h3,h4,h5,h6,h7,h8,h9,h10⟩ := h
  simp only [live] at *
  have hsl : s ∈ st.tbl ++ st.abandoned := List.mem_append_left _ hs
  have her : (st.tbl ++ st.abandoned).erase s = st.tbl.erase s ++ st.abandoned := List.erase_append_left _ hs
  have hnot : s.uid ∉ (st.tbl.erase s ++ st.abandoned).map (·.uid) := by
    rw [← her]; exact not_mem_map_erase _ _ _ h1 hsl
  have hsub : ∀ x, x ∈ st.tbl.erase s ++ st.abandoned → x ∈ st.tbl ++ st.abandoned := by
    intro x hx; rw [← her] at hx; exact List.mem_of_mem_erase hx
  have hnh : s.uid ∉ st.handlers := by
    intro hc
    obtain ⟨x, hx, e1, e2⟩ := (h6 _).mp hc
    have := uid_inj h1 hx hsl e1
    subst this; rw [hr] at e2; cases e2
  simp only [release]
  refine ⟨?_, ?_, ?_, ?_, ?_, ?_, h7, h8, ?_, ?_⟩ <;> (try simp only [live])
  · rw [← her]; exact h1.sublist ((List.erase_sublist).map _)
  · intro x hx; exact h2 x (hsub x hx)
  · intro u hu
    simp only [List.mem_append, List.mem_singleton] at hu
    rcases hu with hu | hu
    · exact h3 u hu
    · subst hu; exact h2 s hsl
  · rw [List.nodup_append]
    refine ⟨h4, by simp, ?_⟩
    intro a ha b hb
    simp only [List.mem_singleton] at hb
    subst hb
    intro e; subst e; exact h5 s hsl ha
  · intro x hx
    simp only [List.mem_append, List.mem_singleton, not_or]
    refine ⟨h5 x (hsub x hx), ?_⟩
    intro e
    exact hnot (List.mem_map.mpr ⟨x, hx, e⟩)
  · intro u; rw [h6 u]
    constructor
    · rintro ⟨x, hx, e1, e2⟩
      refine ⟨x, ?_, e1, e2⟩
      rw [← her]
      apply (List.mem_erase_of_ne ?_).mpr hx
      intro e; subst e; rw [hr] at e2; cases e2
    · rintro ⟨x, hx, e⟩; exact ⟨x, hsub x hx, e⟩
  · intro u b hm
    simp only [List.mem_append, List.mem_singleton] at hm
    rcases hm with hm | hm
    · exact h9 u b hm
    · injection hm with e1 e2
      rw [e2]; simpa using hnh
  · rw [filterMap_relUid_append, h10]; rfl


theorem closeEntry_own {st : St} {s : Strm} (h : Own st) (hs : s ∈ st.tbl) : Own (closeEntry st s) := by
  unfold closeEntry
  by_cases hr : s.running = true
  · simp only [hr, if_true]
    exact abandon_own h hs hr _
  · simp only [hr]
    exact release_own h hs (by simpa using hr) _

/-- membership in the live set after `handlerRunning` of the table entry `s` is set to `b` -/
theorem mem_live_setRunning {tbl ab : List Strm} {s : Strm} (hn : ((tbl ++ ab).map (·.uid)).Nodup) (hs : s ∈ tbl)
    (b : Bool) (y : Strm) :
    y ∈ setRunning tbl s.uid b ++ ab ↔ ((y ∈ tbl ++ ab ∧ y.uid ≠ s.uid) ∨ y = { s with running := b }) := by
  have hsl : s ∈ tbl ++ ab := List.mem_append_left _ hs
  have hdis : ∀ x ∈ ab, x.uid ≠ s.uid := by
    intro x hx e
    rw [List.map_append, List.nodup_append] at hn
    exact hn.2.2 s.uid (List.mem_map.mpr ⟨s, hs, rfl⟩) x.uid (List.mem_map.mpr ⟨x, hx, rfl⟩) e.symm
  simp only [List.mem_append, mem_setRunning]
  constructor
  · rintro (⟨x, hx, e⟩ | hy)
    · by_cases hu : x.uid = s.uid
      · have : x = s := uid_inj hn (List.mem_append_left _ hx) hsl hu
        subst this
        simp only [if_true] at e
        exact Or.inr e.symm
      · simp only [hu, if_false] at e
        subst e
        exact Or.inl ⟨Or.inl hx, hu⟩
    · exact Or.inl ⟨Or.inr hy, hdis y hy⟩
  · rintro (⟨hy | hy, hu⟩ | e)
    · exact Or.inl ⟨y, hy, by simp [hu]⟩
    · exact Or.inr hy
    · exact Or.inl ⟨s, hs, by simp [e]⟩

theorem dispatch_own {st : St} {s : Strm} (id : Nat) (h : Own st) (hs : s ∈ st.tbl) (hr : s.running = false) :
    Own { st with tbl := setRunning st.tbl s.uid true, handlers := st.handlers ++ [s.uid],
                  trace := st.trace ++ [.dispatched id s.uid] } := by
  obtain ⟨h1,h2,h3,h4,h5,h6,h7,h8,h9,h10⟩ := h
  simp only [live] at *
  have hsl : s ∈ st.tbl ++ st.abandoned := List.mem_append_left _ hs
  have hm := mem_live_setRunning h1 hs true
  have hnh : s.uid ∉ st.handlers := by
    intro hc
    obtain ⟨x, hx, e1, e2⟩ := (h6 _).mp hc
    have := uid_inj h1 hx hsl e1
    subst this; rw [hr] at e2; cases e2
  refine ⟨?_, ?_, h3, h4, ?_, ?_, ?_, h8, ?_, ?_⟩ <;> (try simp only [live])
  · rw [List.map_append, setRunning_map_uid, ← List.map_append]; exact h1
  · intro y hy
    rcases (hm y).mp hy with ⟨hy, _⟩ | e
    · exact h2 y hy
    · subst e; exact h2 s hsl
  · intro y hy
    rcases (hm y).mp hy with ⟨hy, _⟩ | e
    · exact h5 y hy
    · subst e; exact h5 s hsl
  · intro u
    simp only [List.mem_append, List.mem_singleton]
    constructor
    · rintro (hu | hu)
      · obtain ⟨x, hx, e1, e2⟩ := (h6 u).mp hu
        have hne : x.uid ≠ s.uid := by
          intro e; have := uid_inj h1 hx hsl e; subst this; rw [hr] at e2; cases e2
        have := (hm x).mpr (Or.inl ⟨hx, hne⟩)
        simp only [List.mem_append] at this
        exact ⟨x, this, e1, e2⟩
      · subst hu
        have := (hm { s with running := true }).mpr (Or.inr rfl)
        simp only [List.mem_append] at this
        exact ⟨_, this, rfl, rfl⟩
    · rintro ⟨y, hy, e1, e2⟩
      rcases (hm y).mp (List.mem_append.mpr hy) with ⟨hy', _⟩ | e
      · exact Or.inl ((h6 u).mpr ⟨y, hy', e1, e2⟩)
      · subst e; exact Or.inr e1.symm
  · rw [List.nodup_append]
    refine ⟨h7, by simp, ?_⟩
    intro a ha b hb
    simp only [List.mem_singleton] at hb
    subst hb; intro e; subst e; exact hnh ha
  · intro u b hm'
    simp only [List.mem_append, List.mem_singleton] at hm'
    rcases hm' with hm' | hm'
    · exact h9 u b hm'
    · cases hm'
  · rw [filterMap_relUid_append, h10]; simp [relUid]


/-- a handler reports back for the table entry `s` -/
theorem returned_own {st : St} {s : Strm} (h : Own st) (hs : s ∈ st.tbl) :
    Own { st with tbl := setRunning st.tbl s.uid false, handlers := st.handlers.erase s.uid,
                  trace := st.trace ++ [.returned s.uid] } := by
  obtain ⟨h1,h2,h3,h4,h5,h6,h7,h8,h9,h10⟩ := h
  simp only [live] at *
  have hsl : s ∈ st.tbl ++ st.abandoned := List.mem_append_left _ hs
  have hm := mem_live_setRunning h1 hs false
  refine ⟨?_, ?_, h3, h4, ?_, ?_, h7.erase _, h8, ?_, ?_⟩ <;> (try simp only [live])
  · rw [List.map_append, setRunning_map_uid, ← List.map_append]; exact h1
  · intro y hy
    rcases (hm y).mp hy with ⟨hy, _⟩ | e
    · exact h2 y hy
    · subst e; exact h2 s hsl
  · intro y hy
    rcases (hm y).mp hy with ⟨hy, _⟩ | e
    · exact h5 y hy
    · subst e; exact h5 s hsl
  · intro u
    rw [h7.mem_erase_iff]
    constructor
    · rintro ⟨hne, hu⟩
      obtain ⟨x, hx, e1, e2⟩ := (h6 u).mp hu
      have := (hm x).mpr (Or.inl ⟨hx, by rw [e1]; exact hne⟩)
      exact ⟨x, this, e1, e2⟩
    · rintro ⟨y, hy, e1, e2⟩
      rcases (hm y).mp hy with ⟨hy', hne⟩ | e
      · exact ⟨by rw [← e1]; exact hne, (h6 u).mpr ⟨y, hy', e1, e2⟩⟩
      · subst e; cases e2
  · intro u b hm'
    simp only [List.mem_append, List.mem_singleton] at hm'
    rcases hm' with hm' | hm'
    · exact h9 u b hm'
    · cases hm'
  · rw [filterMap_relUid_append, h10]; simp [relUid]

/-- the handler of an abandoned stream reports back: the slot and the context are released now -/
theorem returned_abandoned_own {st : St} {s : Strm} (h : Own st) (hs : s ∈ st.abandoned) :
    Own (release { st with abandoned := st.abandoned.erase s, handlers := st.handlers.erase s.uid,
                           trace := st.trace ++ [.returned s.uid] } { s with running := false }) := by
  obtain ⟨h1,h2,h3,h4,h5,h6,h7,h8,h9,h10⟩ := h
  simp only [live] at *
  have hsl : s ∈ st.tbl ++ st.abandoned := List.mem_append_right _ hs
  have hnd : ((st.tbl ++ st.abandoned.erase s).map (·.uid)).Nodup :=
    h1.sublist ((List.Sublist.append_left (List.erase_sublist) _).map _)
  have hsub : ∀ x, x ∈ st.tbl ++ st.abandoned.erase s → x ∈ st.tbl ++ st.abandoned := by
    intro x hx
    rcases List.mem_append.mp hx with hx | hx
    · exact List.mem_append_left _ hx
    · exact List.mem_append_right _ (List.mem_of_mem_erase hx)
  have hin : ∀ x, x ∈ st.tbl ++ st.abandoned → x.uid ≠ s.uid → x ∈ st.tbl ++ st.abandoned.erase s := by
    intro x hx hne
    rcases List.mem_append.mp hx with hx | hx
    · exact List.mem_append_left _ hx
    · exact List.mem_append_right _ ((List.mem_erase_of_ne (by intro e; exact hne (by rw [e]))).mpr hx)
  have hnot : ∀ x, x ∈ st.tbl ++ st.abandoned.erase s → x.uid ≠ s.uid := by
    intro x hx e
    have hxs : x = s := uid_inj h1 (hsub x hx) hsl e
    subst hxs
    rw [List.map_append, List.nodup_append] at h1
    rcases List.mem_append.mp hx with hx | hx
    · exact h1.2.2 x.uid (List.mem_map.mpr ⟨x, hx, rfl⟩) x.uid (List.mem_map.mpr ⟨x, hs, rfl⟩) rfl
    · have hnda : st.abandoned.Nodup := by
        exact nodup_of_nodup_map _ _ h1.2.1
      exact (hnda.not_mem_erase) hx
  simp only [release]
  refine ⟨?_, ?_, ?_, ?_, ?_, ?_, h7.erase _, ?_, ?_, ?_⟩ <;> (try simp only [live])
  · exact hnd
  · intro x hx; exact h2 x (hsub x hx)
  · intro u hu
    simp only [List.mem_append, List.mem_singleton] at hu
    rcases hu with hu | hu
    · exact h3 u hu
    · subst hu; exact h2 s hsl
  · rw [List.nodup_append]
    refine ⟨h4, by simp, ?_⟩
    intro a ha b hb
    simp only [List.mem_singleton] at hb
    subst hb; intro e; subst e; exact h5 s hsl ha
  · intro x hx
    simp only [List.mem_append, List.mem_singleton, not_or]
    exact ⟨h5 x (hsub x hx), hnot x hx⟩
  · intro u
    rw [h7.mem_erase_iff]
    constructor
    · rintro ⟨hne, hu⟩
      obtain ⟨x, hx, e1, e2⟩ := (h6 u).mp hu
      exact ⟨x, hin x hx (by rw [e1]; exact hne), e1, e2⟩
    · rintro ⟨y, hy, e1, e2⟩
      exact ⟨by rw [← e1]; exact hnot y hy, (h6 u).mpr ⟨y, hsub y hy, e1, e2⟩⟩
  · intro x hx; exact h8 x (List.mem_of_mem_erase hx)
  · intro u b hm'
    simp only [List.mem_append, List.mem_singleton] at hm'
    rcases hm' with (hm' | hm') | hm'
    · exact h9 u b hm'
    · cases hm'
    · injection hm' with e1 e2
      rw [e2]
      simp only [List.contains_eq_mem, decide_eq_false_iff_not]
      exact fun hc => (h7.not_mem_erase) hc
  · rw [filterMap_relUid_append, filterMap_relUid_append, h10]; simp [relUid]


theorem init_own (max : Nat) : Own (init max) := by
  constructor <;> simp [init, live]

theorem step_own {st : St} (e : Ev) (h : Own st) : Own (step st e) := by
  cases e with
  | hdrNew id closing =>
    simp only [step]
    split
    · exact h
    · split
      · obtain ⟨h1,h2,h3,h4,h5,h6,h7,h8,h9,h10⟩ := h
        refine ⟨h1,h2,h3,h4,h5,h6,h7,h8,?_,?_⟩
        · intro u b hm; simp only [List.mem_append, List.mem_singleton] at hm
          rcases hm with hm | hm
          · exact h9 u b hm
          · cases hm
        · rw [filterMap_relUid_append, h10]; simp [relUid]
      · split
        · exact h
        · obtain ⟨h1,h2,h3,h4,h5,h6,h7,h8,h9,h10⟩ := h
          constructor <;> simp only [live] at * <;> grind
  | dispatch id =>
    simp only [step]
    split
    · exact h
    · rename_i s hf
      split
      · exact h
      · rename_i hr
        exact dispatch_own id h (find_mem hf) (by simpa using hr)
  | close id =>
    simp only [step, closeStream]
    split
    · exact h
    · rename_i s hf
      exact closeEntry_own h (find_mem hf)
  | done id fin =>
    simp only [step]
    split
    · rename_i s hf
      have hs : s ∈ st.tbl := find_mem hf
      have h1 := returned_own h hs
      split
      · apply closeEntry_own h1
        simp only [mem_setRunning]
        exact ⟨s, hs, by simp⟩
      · exact h1
    · split
      · exact h
      · rename_i s hf
        exact returned_abandoned_own h (find_mem hf)

theorem run_own (evs : List Ev) : ∀ st, Own st → Own (run st evs) := by
  induction evs with
  | nil => intro st h; exact h
  | cons e es ih => intro st h; exact ih _ (step_own e h)

/-! ## ids in the table -/

structure Ids (st : St) : Prop where
  le : ∀ s ∈ st.tbl, s.id ≤ st.lastID
  nodup : (st.tbl.map (·.id)).Nodup

theorem setRunning_map_id (l : List Strm) (u : Nat) (b : Bool) : (setRunning l u b).map (·.id) = l.map (·.id) := by
  simp only [setRunning, List.map_map]
  apply List.map_congr_left
  intro x _
  simp only [Function.comp]
  split <;> rfl

theorem setRunning_ids {st : St} (u : Nat) (b : Bool) (h : Ids st) (hd tr : _) :
    Ids { st with tbl := setRunning st.tbl u b, handlers := hd, trace := tr } := by
  obtain ⟨h1, h2⟩ := h
  refine ⟨?_, by simp only [setRunning_map_id]; exact h2⟩
  intro y hy
  obtain ⟨x, hx, e⟩ := mem_setRunning.mp hy
  have := h1 x hx
  split at e <;> (subst e; simpa using this)

theorem closeEntry_ids {st : St} (s : Strm) (h : Ids st) : Ids (closeEntry st s) := by
  obtain ⟨h1, h2⟩ := h
  have hle : ∀ x ∈ st.tbl.erase s, x.id ≤ st.lastID := fun x hx => h1 x (List.mem_of_mem_erase hx)
  have hnd : ((st.tbl.erase s).map (·.id)).Nodup := h2.sublist ((List.erase_sublist).map _)
  unfold closeEntry release
  split <;> exact ⟨hle, hnd⟩

theorem step_ids {st : St} (e : Ev) (h : Ids st) : Ids (step st e) := by
  cases e with
  | hdrNew id closing =>
    simp only [step]
    split
    · exact h
    · rename_i hk
      split
      · exact ⟨h.1, h.2⟩
      · split
        · exact h
        · rename_i hge
          obtain ⟨h1, h2⟩ := h
          have hnew : ∀ x ∈ st.tbl, x.id ≠ id := by
            intro x hx e
            simp only [knows, Bool.not_eq_true] at hk
            have hle := h1 x hx
            rw [e] at hle
            simp only [hle, if_true] at hk
            have : st.tbl.find? (fun y => decide (y.id = id)) = none := by
              cases hq : st.tbl.find? (fun y => decide (y.id = id)) with
              | none => rfl
              | some z => rw [hq] at hk; cases hk
            have := List.find?_eq_none.mp this x hx
            simp [e] at this
          constructor
          · intro x hx
            simp only [List.mem_append, List.mem_singleton] at hx
            rcases hx with hx | hx
            · have := h1 x hx; simp only []; omega
            · subst hx; exact Nat.le_refl _
          · simp only [List.map_append, List.map_cons, List.map_nil]
            rw [List.nodup_append]
            refine ⟨h2, by simp, ?_⟩
            intro a ha b hb
            simp only [List.mem_singleton] at hb
            subst hb
            obtain ⟨x, hx, e⟩ := List.mem_map.mp ha
            rw [← e]; exact hnew x hx
  | dispatch id =>
    simp only [step]
    split
    · exact h
    · split
      · exact h
      · exact setRunning_ids _ _ h _ _
  | close id =>
    simp only [step, closeStream]
    split
    · exact h
    · exact closeEntry_ids _ h
  | done id fin =>
    simp only [step]
    split
    · split
      · exact closeEntry_ids _ (setRunning_ids _ _ h _ _)
      · exact setRunning_ids _ _ h _ _
    · split
      · exact h
      · simp only [release]; exact ⟨h.1, h.2⟩

theorem run_ids (evs : List Ev) : ∀ st, Ids st → Ids (run st evs) := by
  induction evs with
  | nil => intro st h; exact h
  | cons e es ih => intro st h; exact ih _ (step_ids e h)

theorem init_ids (max : Nat) : Ids (init max) := by
  constructor <;> simp [init]

end H2.Server.Abs.Slots
