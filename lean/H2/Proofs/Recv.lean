import H2.Server.Abs.Recv
/-! Helper lemmas for C14, server half (abstract receive-credit model `H2.Server.Abs.Recv`). -/
namespace H2.Server.Abs.Recv

theorem maxWin_val : maxWin = 4194304 := by decide

structure Inv (st : St) : Prop where
  lo : maxWin / 2 ≤ st.recvWin
  hi : st.recvWin ≤ maxWin
  lostLe : st.lost ≤ st.received
  cons : (st.credited : Int) + (maxWin - st.recvWin) = (st.received : Int) - st.lost
  leds : ∀ l ∈ st.leds, l.credited + l.final = l.received
  nz : ∀ sid inc, Rec.wu sid inc ∈ st.trace → 0 < inc

theorem init_inv : Inv init := by
  constructor <;> simp [init, maxWin_val]

/-- what one `consumeConnWindow` does to the ledger -/
structure ConnSpec (st : St) (n : Nat) (st' : St) : Prop where
  lo : maxWin / 2 ≤ st'.recvWin
  hi : st'.recvWin ≤ maxWin
  bal : (st'.credited : Int) + (maxWin - st'.recvWin) = (st.credited : Int) + (maxWin - st.recvWin) + n
  received : st'.received = st.received
  lost : st'.lost = st.lost
  leds : st'.leds = st.leds
  nz : (∀ sid inc, Rec.wu sid inc ∈ st.trace → 0 < inc) → ∀ sid inc, Rec.wu sid inc ∈ st'.trace → 0 < inc

theorem consumeConn_spec (st : St) (n : Nat) (lo : maxWin / 2 ≤ st.recvWin) (hi : st.recvWin ≤ maxWin) :
    ConnSpec st n (consumeConn st n) := by
  simp only [consumeConn]
  have hv := maxWin_val
  split
  · rename_i h0; subst h0
    constructor <;> first | rfl | omega | (intro h; exact h)
  · split
    · rename_i h0 hlt
      have hpos : 0 ≤ maxWin - (st.recvWin - n) := by omega
      constructor
      · simp only []; omega
      · simp only []; omega
      · simp only [Int.natCast_add, Int.toNat_of_nonneg hpos]; omega
      · rfl
      · rfl
      · rfl
      · intro h sid inc hm
        simp only [List.mem_append, List.mem_singleton] at hm
        rcases hm with hm | hm
        · exact h sid inc hm
        · injection hm with h1 h2
          omega
    · rename_i h0 hge
      constructor <;> simp only [] <;> first | omega | rfl | (intro h; exact h)

theorem bump_leds {sid recv cred fin : Nat} (hb : cred + fin = recv) :
    ∀ ls : List Led, (∀ l ∈ ls, l.credited + l.final = l.received) →
      ∀ l ∈ bump sid recv cred fin ls, l.credited + l.final = l.received := by
  intro ls
  induction ls with
  | nil =>
    intro _ l hl
    simp only [bump, List.mem_singleton] at hl
    subst hl; exact hb
  | cons x xs ih =>
    intro h l hl
    simp only [bump] at hl
    split at hl
    · simp only [List.mem_cons] at hl
      rcases hl with rfl | hl
      · have := h x (by simp); simp only []; omega
      · exact h l (by simp [hl])
    · simp only [List.mem_cons] at hl
      rcases hl with rfl | hl
      · exact h l (by simp)
      · exact ih (fun l hl => h l (by simp [hl])) l hl

theorem step_inv {st : St} (e : Ev) (h : Inv st) : Inv (step st e) := by
  obtain ⟨lo, hi, ll, cons, leds, nz⟩ := h
  cases e with
  | accepted sid len es =>
    simp only [step]
    split
    · rename_i h0; subst h0
      exact ⟨lo, hi, by simpa using ll, by simpa using cons, bump_leds (by rfl) _ leds, nz⟩
    · cases es with
      | true =>
        simp only [if_true]
        have sp := consumeConn_spec { st with received := st.received + len, leds := bump sid len 0 len st.leds } len lo hi
        refine ⟨sp.lo, sp.hi, ?_, ?_, ?_, sp.nz nz⟩
        · rw [sp.lost, sp.received]; simp only []; omega
        · have := sp.bal; rw [sp.lost, sp.received]; simp only [] at *; omega
        · rw [sp.leds]; exact bump_leds (by omega) _ leds
      | false =>
        simp only [Bool.false_eq_true, if_false]
        have nz' : ∀ s inc, Rec.wu s inc ∈ st.trace ++ [Rec.wu sid len] → 0 < inc := by
          intro s inc hm
          simp only [List.mem_append, List.mem_singleton] at hm
          rcases hm with hm | hm
          · exact nz s inc hm
          · injection hm with h1 h2; omega
        have sp := consumeConn_spec { st with received := st.received + len, leds := bump sid len len 0 st.leds,
                                              trace := st.trace ++ [.wu sid len] } len lo hi
        refine ⟨sp.lo, sp.hi, ?_, ?_, ?_, sp.nz nz'⟩
        · rw [sp.lost, sp.received]; simp only []; omega
        · have := sp.bal; rw [sp.lost, sp.received]; simp only [] at *; omega
        · rw [sp.leds]; exact bump_leds (by omega) _ leds
  | dropped sid len =>
    simp only [step]
    have sp := consumeConn_spec { st with received := st.received + len } len lo hi
    refine ⟨sp.lo, sp.hi, ?_, ?_, ?_, sp.nz nz⟩
    · rw [sp.lost, sp.received]; simp only []; omega
    · have := sp.bal; rw [sp.lost, sp.received]; simp only [] at *; omega
    · rw [sp.leds]; exact leds
  | connErr sid len =>
    simp only [step]
    exact ⟨lo, hi, by simp only []; omega, by simp only []; omega, leds, nz⟩

theorem run_inv (evs : List Ev) : ∀ st, Inv st → Inv (run st evs) := by
  induction evs with
  | nil => intro st h; exact h
  | cons e es ih => intro st h; exact ih _ (step_inv e h)

end H2.Server.Abs.Recv
