import H2.Hpack.Spec
/-! Prefix integers (RFC 7541 §5.1): `readInt` inverts `writeInt`; what `readInt` accepts. Core only. -/
namespace H2.Hpack
open H2

theorem contBytes_eq_digits (v : Nat) : contBytes v = Spec.digits v := by
  induction v using Nat.strongRecOn with
  | _ v ih =>
    unfold contBytes Spec.digits
    by_cases h : v < 128
    · simp [h]
    · simp only [h, dite_false]
      rw [ih (v / 128) (by omega)]
      congr 1; omega

theorem writeInt_eq_encInt (n flags v : Nat) : writeInt n flags v = Spec.encInt n flags v := by
  unfold writeInt Spec.encInt
  simp only [contBytes_eq_digits]

theorem pow7_lt {i : Nat} (h : 2 ^ (7 * i) < 2 ^ 64) : 7 * i < 64 :=
  (Nat.pow_lt_pow_iff_right (by decide)).1 h

theorem readCont_contBytes (m x : Nat) : ∀ (i acc : Nat) (rest : Bytes),
    acc + x * 2 ^ (7 * i) + m < 2 ^ 64 → (i = 0 ∨ 1 ≤ x) →
    readCont m (contBytes x ++ rest) i acc = .ok (acc + x * 2 ^ (7 * i) + m) rest := by
  induction x using Nat.strongRecOn with
  | _ x ih =>
    intro i acc rest h hi
    have h7 : ¬ 7 * i ≥ 64 := by
      rcases hi with rfl | hx
      · omega
      · have : 2 ^ (7 * i) ≤ x * 2 ^ (7 * i) := Nat.le_mul_of_pos_left _ hx
        have : 2 ^ (7 * i) < 2 ^ 64 := by omega
        have := pow7_lt this
        omega
    unfold contBytes
    by_cases hx : x < 128
    · simp only [hx, dite_true, List.cons_append, List.nil_append]
      unfold readCont
      simp only [h7, if_false, Nat.mod_eq_of_lt hx]
      have : ¬ acc + x * 2 ^ (7 * i) + m ≥ 2 ^ 64 := by omega
      simp only [this, if_false, hx, if_true]
    · simp only [hx, dite_false, List.cons_append]
      unfold readCont
      have hmod : (128 + x % 128) % 128 = x % 128 := by omega
      have hsplit : x * 2 ^ (7 * i) = x % 128 * 2 ^ (7 * i) + x / 128 * 2 ^ (7 * (i + 1)) := by
        have e : 2 ^ (7 * (i + 1)) = 128 * 2 ^ (7 * i) := by
          rw [show 7 * (i + 1) = 7 + 7 * i by omega, Nat.pow_add]
        rw [e, ← Nat.mul_assoc, ← Nat.add_mul]
        congr 1; omega
      simp only [h7, if_false, hmod]
      have h1 : ¬ acc + x % 128 * 2 ^ (7 * i) + m ≥ 2 ^ 64 := by
        rw [hsplit] at h; omega
      have h2 : ¬ 128 + x % 128 < 128 := by omega
      simp only [h1, if_false, h2]
      rw [ih (x / 128) (by omega) (i + 1) (acc + x % 128 * 2 ^ (7 * i)) rest (by rw [hsplit] at h; omega)
        (Or.inr (by omega))]
      rw [hsplit]; simp only [Nat.add_assoc]

/-- round trip: an `n`-bit-prefix integer below 2^64 written by `writeInt` is read back, and the
octets after it are untouched -/
theorem readInt_writeInt (n flags v : Nat) (rest : Bytes) (hn : 0 < n) (hf : flags % 2 ^ n = 0)
    (hv : v < 2 ^ 64) : readInt n (writeInt n flags v ++ rest) = .ok v rest := by
  have hp : 2 ≤ 2 ^ n := by
    have := Nat.pow_le_pow_right (show 0 < 2 by decide) hn; simpa using this
  unfold writeInt
  by_cases h : v < 2 ^ n - 1
  · simp only [h, if_true, List.cons_append, List.nil_append]
    unfold readInt
    have e : (flags + v) % 2 ^ n = v := by
      rw [Nat.add_mod, hf, Nat.zero_add, Nat.mod_mod, Nat.mod_eq_of_lt (by omega)]
    simp only [e]
    have : v ≠ 2 ^ n - 1 := by omega
    simp [this]
  · simp only [h, if_false, List.cons_append]
    unfold readInt
    have e : (flags + (2 ^ n - 1)) % 2 ^ n = 2 ^ n - 1 := by
      rw [Nat.add_mod, hf, Nat.zero_add, Nat.mod_mod, Nat.mod_eq_of_lt (by omega)]
    simp only [e, ne_eq, not_true_eq_false, if_false]
    rw [readCont_contBytes (2 ^ n - 1) (v - (2 ^ n - 1)) 0 0 rest (by simp; omega) (Or.inl rfl)]
    congr 1; simp; omega

/-! ### what `readInt` accepts -/

theorem readCont_suffix (m : Nat) : ∀ (b : Bytes) (i acc v : Nat) (r : Bytes),
    readCont m b i acc = .ok v r → ∃ w, w ≠ [] ∧ b = w ++ r ∧ m ≤ v ∧ v < 2 ^ 64 := by
  intro b
  induction b with
  | nil => intro i acc v r h; simp [readCont] at h
  | cons c cs ih =>
    intro i acc v r h
    unfold readCont at h
    by_cases h1 : 7 * i ≥ 64
    · simp [h1] at h
    · by_cases h2 : acc + c % 128 * 2 ^ (7 * i) + m ≥ 2 ^ 64
      · simp [h1, h2] at h
      · by_cases h3 : c < 128
        · simp only [h1, h2, h3, if_false, if_true] at h
          injection h with h4 h5
          subst h5
          exact ⟨[c], by simp, by simp, by omega, by omega⟩
        · simp only [h1, h2, h3, if_false] at h
          obtain ⟨w, _, hw, hm, hv⟩ := ih _ _ _ _ h
          exact ⟨c :: w, by simp, by simp [hw], hm, hv⟩

/-- `readInt` consumes at least one octet, returns a value below 2^64, and leaves a suffix -/
theorem readInt_suffix (n : Nat) (b : Bytes) (v : Nat) (r : Bytes) (h : readInt n b = .ok v r) :
    ∃ w, w ≠ [] ∧ b = w ++ r ∧ (0 < n → n ≤ 8 → v < 2 ^ 64) := by
  cases b with
  | nil => simp [readInt] at h
  | cons b0 rest =>
    unfold readInt at h
    simp only at h
    split at h
    · injection h with h1 h2
      subst h1 h2
      refine ⟨[b0], by simp, by simp, ?_⟩
      intro hn h8
      have : b0 % 2 ^ n < 2 ^ n := Nat.mod_lt _ (Nat.pow_pos (by decide))
      have : 2 ^ n ≤ 2 ^ 8 := Nat.pow_le_pow_right (by decide) h8
      omega
    · obtain ⟨w, _, hw, _, hv⟩ := readCont_suffix _ _ _ _ _ _ h
      exact ⟨b0 :: w, by simp, by simp [hw], fun _ _ => hv⟩

theorem readInt_progress (n : Nat) (b : Bytes) (v : Nat) (r : Bytes) (h : readInt n b = .ok v r) :
    r.length < b.length := by
  obtain ⟨w, hw, rfl, _⟩ := readInt_suffix n b v r h
  have : 0 < w.length := List.length_pos_iff.mpr hw
  simp; omega

/-- a first octet whose prefix bits are not all ones is the whole integer -/
theorem readInt_zero (n b0 : Nat) (rest : Bytes) (hn : 0 < n) (h : b0 % 2 ^ n = 0) :
    readInt n (b0 :: rest) = .ok 0 rest := by
  have hp : 2 ≤ 2 ^ n := by
    have := Nat.pow_le_pow_right (show 0 < 2 by decide) hn; simpa using this
  unfold readInt
  have : ¬ (0 = 2 ^ n - 1) := by omega
  simp [this, h]

theorem readInt_nonzero (n b0 : Nat) (rest : Bytes) (hn : 0 < n) (h : b0 % 2 ^ n ≠ 0) (v : Nat) (r : Bytes)
    (hr : readInt n (b0 :: rest) = .ok v r) : v ≠ 0 := by
  have hp : 2 ≤ 2 ^ n := by
    have := Nat.pow_le_pow_right (show 0 < 2 by decide) hn; simpa using this
  unfold readInt at hr
  simp only at hr
  split at hr
  · injection hr with h1 _; omega
  · obtain ⟨_, _, _, hm, _⟩ := readCont_suffix _ _ _ _ _ _ hr
    omega

end H2.Hpack
