import H2.Proofs.StreamSMRefine.Known
set_option linter.unusedSimpArgs false
/-!
# C08 refinement — assembling the per-frame theorems (see `REPORT` of round r08 for what is proved and what is left)
-/
namespace H2.Server.Lock.Refine
open H2.Frame (Frame Body)
open H2.Server
open H2.Server.StreamSM (Pos Fr Ctx Reaction Code TSt Cmp Inc Blk BlockOn)

/-- `handleState` of the full model is the abstract `handleState` on the abstracted frame -/
theorem handleState_abs (s : Srv) (fr : Frame) (st : Strm) (hwf : FrWF fr) (hres : st.state ≠ .reserved) :
    absT (handleState fr st) = StreamSM.handleState (absFrame s fr) (absT st) := by
  obtain ⟨typ, flags, sid, len, body⟩ := fr
  cases body
  all_goals
    simp only [FrWF] at hwf
    first | subst hwf | (obtain ⟨rfl, rfl⟩ := hwf) | (obtain ⟨rfl, rfl, rfl⟩ := hwf)
    cases hst : st.state <;> first | exact absurd hst hres | skip
  all_goals cases hes : Frame.hasFlag flags Gen.c_FlagEndStream
  all_goals
    simp +decide [handleState, StreamSM.handleState, absFrame, absT, absTSt, hst, hes, StreamSM.isRst, StreamSM.isHeaders, StreamSM.endStream]

theorem writeError_of {r : R} {u : Nat} {st : Strm} (hg : r.getStrm u = some st) (e : SErr) :
    writeError r u e = (match e with
      | .goAway code tag => writeGoAway r st.id code tag
      | .reset code => writeReset r st.id code).updStrm u fun s => { s with state := .closed } := by
  simp only [writeError, hg]
  cases e <;> rfl

theorem handleState_closed (fr : Frame) (x : Strm) (hx : x.state = .closed) : (handleState fr x).state = .closed := by
  simp only [handleState]
  (repeat' split) <;> simp_all

theorem cond_abs (x : Strm) : (x.state == .halfClosed && x.headersFinished && !x.responded) =
    ((absT x).st == .halfClosed && (absT x).hf && !(absT x).responded) := by
  have e : (x.state == .halfClosed) = (absTSt x.state == .halfClosed) := by cases x.state <;> decide
  simp only [absT, e]

theorem closed_abs (x : Strm) : (x.state == .closed) = ((absT x).st == .closed) := by
  simp only [absT]; cases x.state <;> decide

theorem code_ne0 (c : Code) : (c.num != Gen.c_NoError) = true := by cases c <;> decide

theorem cmpOf_le {s : Srv} {sid : Nat} (h : sid ≤ s.lastID) : cmpOf s sid = if sid == s.lastID then .equal else .below := by
  simp only [cmpOf]; split
  · omega
  · rfl

/-- **a frame on a stream that is in the table**, once the previous-block check of `headersPrelude` has let it through:
the class of the full model's outputs is the abstract model's reaction, and unless that is a connection error the
stream's place afterwards is the abstract model's. `HFspec` is the statement about `handleFrame` alone (proved for
every frame type without a header fragment: `hf_simple`, `hf_wu`, `hf_data`). -/
theorem known_refines {r : R} {u sid : Nat} {st : Strm} (h : TB r u sid st) (fr : Frame) (wc : Bool)
    (hwf : FrWF fr) (hodd : sid % 2 = 1) (hres : st.state ≠ .reserved)
    (hout : fm (pX sid) r.out = []) (hnr : resume st = false) (hnb : r.s.resetByUs.contains sid = false)
    (hpre : headersPrelude r fr = (r, true))
    (c : Ctx) (hpu : (StreamSM.isHeaders (absFrame r.s fr) && c.prevUnfinished) = false)
    (hlast : c.isLast = (sid == r.s.lastID))
    (hf : HFspec r u sid st fr (absFrame r.s fr) c.clMismatch) :
    rcOf (fm (pX sid) (knownStream r u fr wc).out) = absRC (StreamSM.afterLookup (absT st) (absFrame r.s fr) c).1 ∧
    (isConn (StreamSM.afterLookup (absT st) (absFrame r.s fr) c).1 = false →
      absPos (knownStream r u fr wc).s sid = (StreamSM.afterLookup (absT st) (absFrame r.s fr) c).2) := by
  obtain ⟨o1, o2, o3, o4, o5, st', tb', hst', hres', hm⟩ := hf
  have hk : knownStream r u fr wc =
      (if (onFrameError (handleFrame r u fr).1 u (handleFrame r u fr).2).2 then
        stopLoop (onFrameError (handleFrame r u fr).1 u (handleFrame r u fr).2).1
       else tail (onFrameError (handleFrame r u fr).1 u (handleFrame r u fr).2).1 u fr wc) := by
    simp only [knownStream, hpre, tail]; rfl
  have hcp : ∀ b, StreamSM.closedPos b c = .out b true (cmpOf r.s sid) := by
    intro b; simp only [StreamSM.closedPos, hlast, cmpOf_le h.le]
  rw [hk]
  simp only [StreamSM.afterLookup, hpu, Bool.false_eq_true, if_false]
  cases hh : StreamSM.handleFrame (absT st) (absFrame r.s fr) with
  | error e =>
    rw [hh] at hm
    cases he : (handleFrame r u fr).2 with
    | none => rw [he] at hm; simp at hm
    | some e' =>
      rw [he] at hm
      simp only [Option.map_some, Option.some.injEq] at hm
      cases e with
      | conn code =>
        cases e' with
        | reset n => simp [errRC, errAbsRC] at hm
        | goAway n tag =>
          simp only [errRC, errAbsRC, RC.conn.injEq] at hm
          subst hm
          simp only [onFrameError, code_ne0, if_true, writeError_of tb'.g]
          simp [pX, o1, hout, absRC, isConn]
      | strm code =>
        cases e' with
        | goAway n tag => simp [errRC, errAbsRC] at hm
        | reset n =>
          simp only [errRC, errAbsRC, RC.strm.injEq] at hm
          subst hm
          simp only [onFrameError, Bool.false_eq_true, if_false, writeError_of tb'.g]
          have t1 : TB (writeReset (handleFrame r u fr).1 st'.id code.num) u sid st' := tb'.congr rfl rfl
          have t2 := (t1.upd (fun s => { s with state := .closed }) rfl rfl).upd (fun s => { s with state := .closed }) rfl rfl
          have ts := tail_spec t2 hodd fr wc (show resume _ = false from (by simpa [resume, hasMoreToSend] using hres'.trans hnr))
          have hc1 : (handleState fr { { st' with state := StState.closed } with state := StState.closed }).state = .closed :=
            handleState_closed _ _ rfl
          simp only [hc1] at ts
          simp +decide only [if_true, if_false] at ts
          obtain ⟨q1, q2⟩ := ts
          refine ⟨?_, fun _ => ?_⟩
          · rw [q1]; simp [pX, o1, hout, absRC, tb'.id]
          · rw [q2, hcp]
            show Pos.out ((writeReset _ st'.id _).s.resetByUs.contains sid) true _ = _
            rw [tb'.id, writeReset_contains]
            simp only [cmpOf]
            show Pos.out true true (if sid > (handleFrame r u fr).1.s.lastID then
              (if sid > (handleFrame r u fr).1.s.lastRefused then Cmp.above else .gap)
              else if sid == (handleFrame r u fr).1.s.lastID then .equal else .below) = _
            rw [o2, o3]
  | ok t' =>
    rw [hh] at hm
    obtain ⟨m1, m2, m3⟩ := hm
    simp only [m1, onFrameError, Bool.false_eq_true, if_false]
    have ts := tail_spec tb' hodd fr wc (hres'.trans hnr)
    obtain ⟨k1, k2, k3, k4, k5, k6, k7, k8, k9⟩ := handleState_keys fr st'
    have hT : absT (handleState fr st') = StreamSM.handleState (absFrame r.s fr) t' := by
      rw [← m2]; exact handleState_abs r.s fr st' hwf (by rw [hst']; exact hres)
    have hclm : (((handleState fr st').hasCL && ((handleState fr st').recvBody : Int) != (handleState fr st').contentLength)) = c.clMismatch := by
      rw [k7, k8, k9, ← m3]; rfl
    simp only [cond_abs, closed_abs, hT, hclm] at ts
    have hcm' : cmpOf (handleFrame r u fr).1.s sid = cmpOf r.s sid := by simp only [cmpOf, o2, o3]
    by_cases hA : ((StreamSM.handleState (absFrame r.s fr) t').st == .halfClosed && (StreamSM.handleState (absFrame r.s fr) t').hf &&
        !(StreamSM.handleState (absFrame r.s fr) t').responded) = true
    · simp only [hA, if_true] at ts ⊢
      by_cases hB : c.clMismatch = true
      · simp only [hB, if_true] at ts ⊢
        exact ⟨by rw [ts.1]; simp +decide [o1, hout, absRC], fun _ => by rw [ts.2, hcp, hcm']⟩
      · simp only [hB, Bool.false_eq_true, if_false] at ts ⊢
        refine ⟨by rw [ts.1]; simp [o1, hout, absRC, rcOf], fun _ => ?_⟩
        rw [ts.2]
        simp only [Bool.and_eq_true, beq_iff_eq, Bool.not_eq_true'] at hA
        simp [StreamSM.T.pos, hA.1.1, hA.1.2]
    · simp only [hA, Bool.false_eq_true, if_false] at ts ⊢
      by_cases hC : ((StreamSM.handleState (absFrame r.s fr) t').st == .closed) = true
      · simp only [hC, if_true] at ts ⊢
        exact ⟨by rw [ts.1]; simp [o1, hout, absRC], fun _ => by rw [ts.2, hcp, hcm', o5, hnb]⟩
      · simp only [hC, Bool.false_eq_true, if_false] at ts ⊢
        exact ⟨by rw [ts.1]; simp [o1, hout, absRC], fun _ => by rw [ts.2]⟩

/-! ## at the level of `slStreamFrame`: exactly what the lockstep adapter compares -/

theorem find_uid_of_mem (l : List Strm) (st : Strm) (hn : (l.map (·.uid)).Nodup) (hm : st ∈ l) :
    l.find? (·.uid == st.uid) = some st := by
  induction l with
  | nil => cases hm
  | cons a l ih =>
    simp only [List.map_cons, List.nodup_cons] at hn
    rcases List.mem_cons.mp hm with rfl | hm'
    · simp
    · have : a.uid ≠ st.uid := fun e => hn.1 (List.mem_map.mpr ⟨st, hm', e.symm⟩)
      simp [List.find?_cons, this, ih hn.2 hm']

theorem TB.of_lookup {r : R} {sid : Nat} {st : Strm} (hl : lookup r.s sid = some st)
    (hun : (r.s.strms.map (·.uid)).Nodup) (hidn : (r.s.strms.map (·.id)).Nodup) : TB r st.uid sid st := by
  have hm : st ∈ r.s.strms := by
    simp only [lookup] at hl
    split at hl
    · exact List.mem_of_find?_eq_some hl
    · cases hl
  exact ⟨find_uid_of_mem _ _ hun hm, hl, hun, hidn⟩

theorem slStreamFrame_known {r : R} {fr : Frame} {st : Strm} (hl : lookup r.s fr.stream = some st) :
    slStreamFrame r fr = knownStream r st.uid fr r.s.closing := by
  have : (if fr.stream ≤ r.s.lastID then r.s.strms.find? (·.id == fr.stream) else none) = some st := hl
  simp only [slStreamFrame, this]

theorem slStreamFrame_unknown {r : R} {fr : Frame} (hl : lookup r.s fr.stream = none) (hu : (unknownStream r fr r.s.closing).2 = none) :
    slStreamFrame r fr = (unknownStream r fr r.s.closing).1 := by
  have : (if fr.stream ≤ r.s.lastID then r.s.strms.find? (·.id == fr.stream) else none) = none := hl
  simp only [slStreamFrame, this, hu]

/-- **Step refinement, stream in the table.** For a state whose table holds each stream object and each id once, a parsed
frame on a stream `st` of the table (not `reserved`, not reset by this side, no response data waiting to go out, the
previous-block check passed): the reaction string the adapter computes from the abstract model equals the one it
computes from the full model's outputs, and unless the reaction is a connection error the abstract next place is
`absPos` of the state after. `c` is the adapter's context (`absCtx`) in the three fields the stream loop reads. -/
theorem known_frame_refines {r : R} {fr : Frame} {st : Strm} (hl : lookup r.s fr.stream = some st)
    (hun : (r.s.strms.map (·.uid)).Nodup) (hidn : (r.s.strms.map (·.id)).Nodup)
    (hwf : FrWF fr) (hodd : fr.stream % 2 = 1) (hres : st.state ≠ .reserved) (hout : r.out = [])
    (hnr : resume st = false) (hnb : r.s.resetByUs.contains fr.stream = false)
    (hpre : headersPrelude r fr = (r, true))
    (c : Ctx) (hpu : (StreamSM.isHeaders (absFrame r.s fr) && c.prevUnfinished) = false)
    (hlast : c.isLast = (fr.stream == r.s.lastID))
    (hf : HFspec r st.uid fr.stream st fr (absFrame r.s fr) c.clMismatch) :
    absReaction (reactSL (absPos r.s fr.stream) (absFrame r.s fr) c).1 = fullReaction (slStreamFrame r fr).out fr.stream ∧
    (isConn (reactSL (absPos r.s fr.stream) (absFrame r.s fr) c).1 = false →
      absPos (slStreamFrame r fr).s fr.stream = (reactSL (absPos r.s fr.stream) (absFrame r.s fr) c).2) := by
  have tb := TB.of_lookup hl hun hidn
  have hk := known_refines tb fr r.s.closing hwf hodd hres (by rw [hout]; rfl) hnr hnb hpre c hpu hlast hf
  rw [slStreamFrame_known hl, tb.pos hodd]
  refine ⟨reaction_str ?_, hk.2⟩
  rw [fullRC_eq]; exact hk.1.symm

/-- **Step refinement, stream not in the table, no stream created** (idle / closed-in-ring / reset-by-us / below lastID /
refused): the same two equalities. -/
theorem unknown_frame_refines {r : R} {fr : Frame} (hl : lookup r.s fr.stream = none) (hwf : FrWF fr)
    (hodd : fr.stream % 2 = 1) (hout : r.out = [])
    (c : Ctx) (hrefuse : c.refuse = (decide (r.s.openStreams ≥ (r.s.cfg.maxStreams : Int)) || r.s.closing))
    (hu : (unknownStream r fr r.s.closing).2 = none) :
    absReaction (reactSL (absPos r.s fr.stream) (absFrame r.s fr) c).1 = fullReaction (slStreamFrame r fr).out fr.stream ∧
    (isConn (reactSL (absPos r.s fr.stream) (absFrame r.s fr) c).1 = false →
      absPos (slStreamFrame r fr).s fr.stream = (reactSL (absPos r.s fr.stream) (absFrame r.s fr) c).2) := by
  rw [slStreamFrame_unknown hl hu, absPos_out hodd hl]
  rcases unknown_refines r fr r.s.closing hwf hl hodd (by rw [hout]; rfl) c hrefuse with ⟨_, h2, h3⟩ | ⟨h1, _⟩
  · exact ⟨reaction_str (by rw [fullRC_eq]; exact h2.symm), h3⟩
  · rw [hu] at h1; cases h1

/-- the adapter's `absCtx` has the `refuse` the theorem asks for -/
theorem absCtx_refuse (s : Srv) (sid : Nat) (fr? : Option Frame) :
    (absCtx s sid fr?).refuse = (decide (s.openStreams ≥ (s.cfg.maxStreams : Int)) || s.closing) := rfl

theorem absCtx_isLast (s : Srv) (sid : Nat) (fr? : Option Frame) : (absCtx s sid fr?).isLast = (sid == s.lastID) := rfl

end H2.Server.Lock.Refine
