import H2.Proofs.Frame
import H2.Pool
/-! Helper lemmas for C16: totality corollaries of the refinement, consumption and allocation bounds, pool discipline. -/
namespace H2.Frame
open H2
set_option linter.unusedSimpArgs false

/-- converse of `read_refines` for accepted frames: whatever the reader returns is the RFC's reading -/
theorem ok_is_rfc (max : Nat) (b : Bytes) (hb : WF b) (f : Frame) (c : Nat) (h : readFrame max b = .ok f c) :
    Spec.parse max b = .frame f (b.drop (9 + f.length)) ∧ c = 9 + f.length ∧ c ≤ b.length := by
  have hr := read_refines max b hb
  rw [h] at hr
  cases hs : Spec.parse max b with
  | frame g rest =>
    rw [hs] at hr
    obtain ⟨h1, h2, h3⟩ := hr
    cases h1
    exact ⟨by rw [h2], rfl, h3⟩
  | ignored t l rest => rw [hs] at hr; exact absurd hr.1 (by simp)
  | malformed code => rw [hs] at hr; obtain ⟨k, n, h1, _⟩ := hr; cases h1
  | incomplete =>
    rw [hs] at hr
    rcases hr with ⟨n, h1⟩ | ⟨t, h1⟩ <;> cases h1

theorem consumed_le (max : Nat) (b : Bytes) :
    (∀ f c, readFrame max b = .ok f c → c ≤ b.length ∧ c = 9 + be24 b) ∧
    (∀ t c, readFrame max b = .unknownType t c → c ≤ b.length ∧ c ≤ 9 + be24 b) ∧
    (∀ k c, readFrame max b = .err k c → c ≤ b.length ∧ (9 ≤ b.length → c ≤ 9 + be24 b)) := by
  unfold readFrame
  by_cases h9 : b.length < 9
  · simp [h9]
  · simp only [h9, if_false]
    by_cases hm : (max ≠ 0 && be24 b > max) = true
    · simp only [hm, if_true]
      refine ⟨by simp, by simp, ?_⟩
      intro k c h; cases h; omega
    · simp only [hm, if_false, Bool.false_eq_true]
      by_cases ht : b.getD 3 0 > Gen.c_FrameContinuation
      · simp only [ht, if_true]
        refine ⟨by simp, ?_, by simp⟩
        intro t c h; cases h; omega
      · simp only [ht, if_false]
        by_cases hl : (b.drop 9).length < be24 b
        · simp only [hl, if_true]
          refine ⟨by simp, by simp, ?_⟩
          intro k c h; cases h
          simp only [List.length_drop] at hl
          omega
        · simp only [hl, if_false]
          simp only [List.length_drop] at hl
          cases deserialize (b.getD 3 0) (b.getD 4 0) ((b.drop 9).take (be24 b)) with
          | inl body =>
            refine ⟨?_, by simp, by simp⟩
            intro f c h; cases h; omega
          | inr k =>
            refine ⟨by simp, by simp, ?_⟩
            intro k' c h; cases h; omega

/-- the return path taken and the reader's result belong together -/
theorem path_class (max : Nat) (b : Bytes) :
    match Pool.path max b with
    | .noHeader => readFrame max b = .err .io 0
    | .tooLarge => readFrame max b = .err .tooLarge 9
    | .unknownType => ∃ t c, readFrame max b = .unknownType t c
    | .shortPayload => readFrame max b = .err .io b.length
    | .deserErr => ∃ k, readFrame max b = .err k (9 + be24 b)
    | .ok => ∃ f, readFrame max b = .ok f (9 + be24 b) := by
  unfold Pool.path readFrame
  by_cases h9 : b.length < 9
  · simp only [h9, if_true]
  · simp only [h9, if_false]
    by_cases hm : (max ≠ 0 && be24 b > max) = true
    · simp only [hm, if_true]
    · simp only [hm, if_false, Bool.false_eq_true]
      by_cases ht : b.getD 3 0 > Gen.c_FrameContinuation
      · simp only [ht, if_true]; exact ⟨_, _, rfl⟩
      · simp only [ht, if_false]
        by_cases hl : (b.drop 9).length < be24 b
        · simp only [hl, if_true]
        · simp only [hl, if_false]
          cases deserialize (b.getD 3 0) (b.getD 4 0) ((b.drop 9).take (be24 b)) with
          | inl bd => exact ⟨_, rfl⟩
          | inr k => exact ⟨_, rfl⟩

theorem pool_paths (p : Pool.Path) :
    (Pool.check (Pool.pathEvents p ++ Pool.callerRelease p)).anomalies = [] ∧
    Pool.bodyFreeTwice (Pool.pathEvents p ++ Pool.callerRelease p) = false ∧
    (p = .ok → Pool.count (Pool.pathEvents p) (.release .fh) = 0 ∧ Pool.count (Pool.pathEvents p) (.release .body) = 0) ∧
    (p ≠ .ok → (Pool.check (Pool.pathEvents p)).heldFh = false ∧ (Pool.check (Pool.pathEvents p)).heldBody = false) := by
  cases p <;> decide

theorem alloc_le (max : Nat) (b : Bytes) (hm : max ≠ 0) : Pool.alloc max b ≤ max := by
  unfold Pool.alloc Pool.path
  by_cases h9 : b.length < 9
  · simp [h9]
  · simp only [h9, if_false]
    by_cases hx : be24 b > max
    · simp [hm, hx]
    · have : ¬ ((max ≠ 0 && be24 b > max) = true) := by simp [hx]
      simp only [this, if_false, Bool.false_eq_true]
      have hle : be24 b ≤ max := by omega
      repeat' split
      all_goals first | exact hle | exact Nat.zero_le _


/-- payload structures RFC 7540 §6 makes impossible: wrong fixed size, or padding that does not fit -/
def Impossible (typ flags : Nat) (p : Bytes) : Prop :=
  (typ = 2 ∧ p.length ≠ 5) ∨ (typ = 3 ∧ p.length ≠ 4) ∨ (typ = 4 ∧ p.length % 6 ≠ 0) ∨
  (typ = 4 ∧ Spec.bitAt flags 0 = true ∧ p.length ≠ 0) ∨ (typ = 6 ∧ p.length ≠ 8) ∨ (typ = 7 ∧ p.length < 8) ∨
  (typ = 8 ∧ p.length ≠ 4) ∨
  ((typ = 0 ∨ typ = 1 ∨ typ = 5) ∧ Spec.bitAt flags 3 = true ∧ (p = [] ∨ p.headD 0 ≥ p.length))

theorem impossible_bad (typ flags : Nat) (p : Bytes) (h : Impossible typ flags p) : ∃ c, Spec.body typ flags p = .bad c := by
  rcases h with ⟨rfl, h⟩ | ⟨rfl, h⟩ | ⟨rfl, h⟩ | ⟨rfl, h1, h2⟩ | ⟨rfl, h⟩ | ⟨rfl, h⟩ | ⟨rfl, h⟩ | ⟨ht, hp, h⟩
  · rcases p with _ | ⟨a, _ | ⟨b, _ | ⟨c, _ | ⟨d, _ | ⟨w, _ | ⟨x, t⟩⟩⟩⟩⟩⟩ <;> simp [Spec.body] at h ⊢
  · rcases p with _ | ⟨a, _ | ⟨b, _ | ⟨c, _ | ⟨d, _ | ⟨x, t⟩⟩⟩⟩⟩ <;> simp [Spec.body] at h ⊢
  · exact ⟨6, by simp [Spec.body, h]⟩
  · by_cases h6 : p.length % 6 = 0
    · exact ⟨6, by simp [Spec.body, h6, h1, h2]⟩
    · exact ⟨6, by simp [Spec.body, h6]⟩
  · exact ⟨6, by simp [Spec.body, h]⟩
  · rcases p with _ | ⟨a, _ | ⟨b, _ | ⟨c, _ | ⟨d, _ | ⟨e, _ | ⟨f, _ | ⟨g, _ | ⟨i, dbg⟩⟩⟩⟩⟩⟩⟩⟩ <;> simp [Spec.body] at h ⊢
    omega
  · rcases p with _ | ⟨a, _ | ⟨b, _ | ⟨c, _ | ⟨d, _ | ⟨x, t⟩⟩⟩⟩⟩ <;> simp [Spec.body] at h ⊢
  · have hu : Spec.unpad true p = none := by
      rcases h with rfl | h
      · simp [Spec.unpad]
      · cases p with
        | nil => simp [Spec.unpad]
        | cons n rest =>
          simp only [List.headD_cons, List.length_cons] at h
          have : ¬ n ≤ rest.length := by omega
          simp [Spec.unpad, this]
    rcases ht with rfl | rfl | rfl <;> exact ⟨1, by simp [Spec.body, hp, hu]⟩

end H2.Frame
