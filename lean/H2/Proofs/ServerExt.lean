import H2.Server.Model
/-!
# Output-shape lemmas for the full server model

`cnt k l` counts the outputs of kind `k` in `l`. For every function of `H2/Server/Model.lean` and every
kind it never emits, the count is unchanged; the step-level statements combine these equalities.
-/
namespace H2.Server

inductive Kind where
  | ack | settings | wu | ping | headers | cont | data | rst | goAway | dispatch | panicLogged | returned
deriving DecidableEq, Repr

def Out.kind : Out → Kind
  | .settingsAck => .ack
  | .settings _ => .settings
  | .wu .. => .wu
  | .ping .. => .ping
  | .headers .. => .headers
  | .cont .. => .cont
  | .data .. => .data
  | .rst .. => .rst
  | .goAway .. => .goAway
  | .dispatch .. => .dispatch
  | .handlerPanicLogged => .panicLogged
  | .returned => .returned

def cnt (k : Kind) (l : List Out) : Nat := (l.filter fun o => o.kind == k).length

@[simp] theorem cnt_nil (k : Kind) : cnt k [] = 0 := rfl
@[simp] theorem cnt_append (k : Kind) (a b : List Out) : cnt k (a ++ b) = cnt k a + cnt k b := by
  simp [cnt, List.filter_append]
@[simp] theorem cnt_single (k : Kind) (o : Out) : cnt k [o] = if o.kind = k then 1 else 0 := by
  simp only [cnt, List.filter_cons, List.filter_nil]
  by_cases h : o.kind = k <;> simp [h]

@[simp] theorem updStrm_out (r : R) (uid : Nat) (f : Strm → Strm) : (r.updStrm uid f).out = r.out := rfl
@[simp] theorem emit_out (r : R) (o : Out) : (r.emit o).out = r.out ++ [o] := rfl
@[simp] theorem emits_out (r : R) (os : List Out) : (r.emits os).out = r.out ++ os := rfl
@[simp] theorem stopLoop_out (r : R) : (stopLoop r).out = r.out := rfl
@[simp] theorem rlStop_out (r : R) : (rlStop r).out = r.out := rfl
@[simp] theorem closeBody_out (r : R) (uid : Nat) : (closeBody r uid).out = r.out := rfl

@[simp] theorem writeReset_out (r : R) (sid code : Nat) : (writeReset r sid code).out = r.out ++ [.rst sid code] := rfl

@[simp] theorem writeGoAway_out (r : R) (sid code : Nat) (tag : String) :
    (writeGoAway r sid code tag).out =
      r.out ++ [.goAway ((if sid > r.s.lastID then sid else r.s.lastID) % 2 ^ 31) code tag] := by
  unfold writeGoAway; rfl

@[simp] theorem releaseStream_out (r : R) (st : Strm) : (releaseStream r st).out = r.out := by
  unfold releaseStream; split <;> rfl

@[simp] theorem closeStream_out (r : R) (uid : Nat) : (closeStream r uid).out = r.out := by
  unfold closeStream
  split
  · rfl
  · simp only []
    split
    · rfl
    · exact releaseStream_out _ _

theorem writeError_cnt (k : Kind) (hk : k ≠ .rst ∧ k ≠ .goAway) (r : R) (uid : Nat) (e : SErr) :
    cnt k (writeError r uid e).out = cnt k r.out := by
  unfold writeError
  split
  · rfl
  · cases e <;> simp [Out.kind, hk.1.symm, hk.2.symm]


theorem refill_cnt (k : Kind) (hk : k ≠ .rst ∧ k ≠ .data) (r : R) (uid : Nat) (st : Strm) :
    cnt k (refill r uid st).1.out = cnt k r.out := by
  simp only [refill]
  repeat' split
  all_goals simp [Out.kind, hk.1.symm, hk.2.symm]

theorem sendFrame_cnt (k : Kind) (hk : k ≠ .data) (r : R) (uid : Nat) (st : Strm) (step : Nat) :
    cnt k (sendFrame r uid st step).1.out = cnt k r.out := by
  simp [sendFrame, Out.kind, hk.symm]

theorem sendDataFuel_cnt (k : Kind) (hk : k ≠ .rst ∧ k ≠ .data) (fuel : Nat) (r : R) (uid : Nat) :
    cnt k (sendDataFuel fuel r uid).1.out = cnt k r.out := by
  induction fuel generalizing r with
  | zero => rfl
  | succ n ih =>
    simp only [sendDataFuel]
    repeat' split
    all_goals simp [refill_cnt k hk, sendFrame_cnt k hk.2, ih]

theorem sendData_cnt (k : Kind) (hk : k ≠ .rst ∧ k ≠ .data) (r : R) (uid : Nat) :
    cnt k (sendData r uid).1.out = cnt k r.out := by
  simp only [sendData]
  split
  · rfl
  · exact sendDataFuel_cnt k hk _ _ _

theorem foldl_inv {α β : Type} (P : β → Prop) (f : β → α → β) (h : ∀ b a, P b → P (f b a))
    (l : List α) (b : β) (hb : P b) : P (l.foldl f b) := by
  induction l generalizing b with
  | nil => exact hb
  | cons a l ih => exact ih _ (h _ _ hb)

theorem flushOne_cnt (k : Kind) (hk : k ≠ .rst ∧ k ≠ .data) (acc : R × List Nat) (uid : Nat) :
    cnt k (flushOne acc uid).1.out = cnt k acc.1.out := by
  simp only [flushOne]
  repeat' split
  all_goals simp [sendData_cnt k hk]

theorem closeDone_out (r : R) (uid : Nat) : (closeDone r uid).out = r.out := by
  simp [closeDone]

theorem flushStreams_cnt (k : Kind) (hk : k ≠ .rst ∧ k ≠ .data) (r : R) :
    cnt k (flushStreams r).out = cnt k r.out := by
  simp only [flushStreams]
  have h1 : cnt k ((r.s.strms.map (·.uid)).foldl flushOne (r, [])).1.out = cnt k r.out :=
    foldl_inv (fun acc : R × List Nat => cnt k acc.1.out = cnt k r.out) flushOne
      (fun b a hb => by rw [flushOne_cnt k hk, hb]) _ _ rfl
  exact foldl_inv (fun x : R => cnt k x.out = cnt k r.out) closeDone
    (fun b a hb => by rw [closeDone_out, hb]) _ _ h1

theorem emits_eq_foldl (r : R) (os : List Out) : r.emits os = os.foldl R.emit r := by
  induction os generalizing r with
  | nil => simp [R.emits]
  | cons o os ih => rw [List.foldl_cons, ← ih]; simp [R.emits, R.emit, List.append_assoc]

/-- a property kept by every single `emit` of an output satisfying `Q` is kept by `emits` of such outputs -/
theorem emits_inv (P : R → Prop) (Q : Out → Prop) (hstep : ∀ r o, P r → Q o → P (r.emit o)) (r : R) (os : List Out)
    (hq : ∀ o ∈ os, Q o) (h : P r) : P (r.emits os) := by
  rw [emits_eq_foldl]
  induction os generalizing r with
  | nil => exact h
  | cons o os ih =>
    exact ih (r.emit o) (fun x hx => hq x (List.mem_cons_of_mem _ hx)) (hstep r o h (hq o List.mem_cons_self))

/-- a frame of a header block: HEADERS or CONTINUATION -/
def Out.isBlock : Out → Bool
  | .headers .. => true
  | .cont .. => true
  | _ => false

theorem contOuts_isBlock (sid : Nat) (fs : List (Bytes × Bytes)) (err : Bool) (frags : List Bytes) :
    ∀ o ∈ contOuts sid fs err frags, o.isBlock = true := by
  induction frags with
  | nil => intro o h; cases h
  | cons f rest ih =>
    intro o h
    simp only [contOuts, List.mem_cons] at h
    rcases h with rfl | h
    · rfl
    · exact ih o h

theorem blockOuts_isBlock (sid : Nat) (es : Bool) (fs : List (Bytes × Bytes)) (err : Bool) (frags : List Bytes) :
    ∀ o ∈ blockOuts sid es fs err frags, o.isBlock = true := by
  cases frags with
  | nil => intro o h; cases h
  | cons f rest =>
    intro o h
    simp only [blockOuts, List.mem_cons] at h
    rcases h with rfl | h
    · rfl
    · exact contOuts_isBlock sid fs err rest o h

theorem cutRest_nil (max fuel : Nat) : cutRest max fuel [] = [] := by
  cases fuel <;> simp [cutRest]

/-- a block that fits goes out whole, as one HEADERS frame with END_HEADERS -/
theorem cutBlock_small (max : Nat) (b : Bytes) (h : b.length ≤ max) : cutBlock max b = [b] := by
  simp [cutBlock, List.take_of_length_le h, List.drop_of_length_le h, cutRest_nil]

theorem blockOuts_small (sid : Nat) (es : Bool) (fs : List (Bytes × Bytes)) (err : Bool) (max : Nat) (b : Bytes)
    (h : b.length ≤ max) : blockOuts sid es fs err (cutBlock max b) = [.headers sid es true b.length fs err] := by
  simp [cutBlock_small max b h, blockOuts, contOuts]

/-- the frames after the first of a header block are CONTINUATION frames … -/
theorem contOuts_kind (sid : Nat) (fs : List (Bytes × Bytes)) (err : Bool) (frags : List Bytes) :
    ∀ o ∈ contOuts sid fs err frags, o.kind = .cont := by
  induction frags with
  | nil => intro o h; cases h
  | cons f rest ih =>
    intro o h
    simp only [contOuts, List.mem_cons] at h
    rcases h with rfl | h
    · rfl
    · exact ih o h

theorem cnt_zero_of_kind (k k' : Kind) (hk : k ≠ k') (l : List Out) (h : ∀ o ∈ l, o.kind = k') : cnt k l = 0 := by
  simp only [cnt, List.length_eq_zero_iff, List.filter_eq_nil_iff]
  intro o ho
  rw [h o ho]
  simpa using fun e => hk e.symm

theorem cnt_contOuts (k : Kind) (hk : k ≠ .cont) (sid : Nat) (fs : List (Bytes × Bytes)) (err : Bool) (frags : List Bytes) :
    cnt k (contOuts sid fs err frags) = 0 :=
  cnt_zero_of_kind k .cont hk _ (contOuts_kind sid fs err frags)

/-- … and the first is the one HEADERS frame -/
theorem blockOuts_cut (sid : Nat) (es : Bool) (fs : List (Bytes × Bytes)) (err : Bool) (max : Nat) (b : Bytes) :
    ∃ eh len fs' e', blockOuts sid es fs err (cutBlock max b) =
      .headers sid es eh len fs' e' :: contOuts sid fs err (cutRest max b.length (b.drop max)) :=
  ⟨_, _, _, _, rfl⟩

theorem cnt_blockOuts (k : Kind) (sid : Nat) (es : Bool) (fs : List (Bytes × Bytes)) (err : Bool) (max : Nat) (b : Bytes) :
    cnt k (blockOuts sid es fs err (cutBlock max b)) =
      (if k = .headers then 1 else 0) + (if k = .cont then (cutRest max b.length (b.drop max)).length else 0) := by
  obtain ⟨eh, len, fs', e', h⟩ := blockOuts_cut sid es fs err max b
  rw [h, show (Out.headers sid es eh len fs' e' :: contOuts sid fs err (cutRest max b.length (b.drop max))) =
    [Out.headers sid es eh len fs' e'] ++ contOuts sid fs err (cutRest max b.length (b.drop max)) from rfl, cnt_append, cnt_single]
  by_cases hc : k = .cont
  · subst hc
    have : (contOuts sid fs err (cutRest max b.length (b.drop max))).length = (cutRest max b.length (b.drop max)).length := by
      generalize cutRest max b.length (b.drop max) = l
      induction l with
      | nil => rfl
      | cons f rest ih => simp [contOuts, ih]
    have h2 : cnt .cont (contOuts sid fs err (cutRest max b.length (b.drop max))) =
        (contOuts sid fs err (cutRest max b.length (b.drop max))).length := by
      simp only [cnt]
      rw [List.filter_eq_self.mpr]
      intro o ho
      simpa using contOuts_kind sid fs err _ o ho
    simp [Out.kind, h2, this]
  · rw [cnt_contOuts k hc]
    by_cases hh : k = .headers
    · subst hh; simp [Out.kind]
    · simp [Out.kind, hh, hc, Ne.symm hh]

theorem responseHeaders_cnt (k : Kind) (hk : k ≠ .headers ∧ k ≠ .cont) (r : R) (st : Strm) (resp : Resp) (hb : Bool) :
    cnt k (responseHeaders r st resp hb).out = cnt k r.out := by
  simp only [responseHeaders]
  split <;> simp [cnt_blockOuts, hk.1, hk.2]

theorem finishRequest_cnt (k : Kind) (hk : (k ≠ .headers ∧ k ≠ .cont) ∧ k ≠ .rst ∧ k ≠ .data) (r : R) (uid : Nat) (resp : Resp) :
    cnt k (finishRequest r uid resp).1.out = cnt k r.out := by
  simp only [finishRequest]
  repeat' split
  all_goals simp [sendData_cnt k hk.2, responseHeaders_cnt k hk.1]

theorem consumeConnWindow_cnt (k : Kind) (hk : k ≠ .wu) (r : R) (n : Nat) :
    cnt k (consumeConnWindow r n).out = cnt k r.out := by
  simp only [consumeConnWindow]
  repeat' split
  all_goals simp [Out.kind, hk.symm]

theorem consumeRecvWindow_cnt (k : Kind) (hk : k ≠ .wu) (r : R) (st : Strm) (fr : Frame.Frame) (n : Nat) :
    cnt k (consumeRecvWindow r st fr n).out = cnt k r.out := by
  simp only [consumeRecvWindow]
  repeat' split
  all_goals simp [Out.kind, hk.symm, consumeConnWindow_cnt k hk]

theorem handleFrame_cnt (k : Kind) (hk : k ≠ .wu) (r : R) (uid : Nat) (fr : Frame.Frame) :
    cnt k (handleFrame r uid fr).1.out = cnt k r.out := by
  simp only [handleFrame]
  repeat' split
  all_goals simp [consumeRecvWindow_cnt k hk, consumeConnWindow_cnt k hk]

theorem closeIdleBelow_cnt (k : Kind) (hk : k ≠ .rst) (fuel : Nat) (r : R) (id : Nat) :
    cnt k (closeIdleBelow fuel r id).out = cnt k r.out := by
  induction fuel generalizing r with
  | zero => rfl
  | succ n ih =>
    simp only [closeIdleBelow]
    repeat' split
    all_goals simp [ih, Out.kind, hk.symm]


@[simp] theorem closeIfDone_out (r : R) : (closeIfDone r).out = r.out := by
  simp only [closeIfDone]; split <;> rfl

theorem unknownStream_cnt (k : Kind) (hk : k ≠ .rst ∧ k ≠ .goAway ∧ k ≠ .wu) (r : R) (fr : Frame.Frame) (wc : Bool) :
    cnt k (unknownStream r fr wc).1.out = cnt k r.out := by
  simp only [unknownStream]
  repeat' split
  all_goals simp [Out.kind, hk.1.symm, hk.2.1.symm, consumeConnWindow_cnt k hk.2.2]

theorem headersPrelude_cnt (k : Kind) (hk : k ≠ .rst ∧ k ≠ .goAway) (r : R) (fr : Frame.Frame) :
    cnt k (headersPrelude r fr).1.out = cnt k r.out := by
  simp only [headersPrelude]
  repeat' split
  all_goals simp [writeError_cnt k hk, closeIdleBelow_cnt k hk.1]

theorem onFrameError_cnt (k : Kind) (hk : k ≠ .rst ∧ k ≠ .goAway) (r : R) (uid : Nat) (e : Option SErr) :
    cnt k (onFrameError r uid e).1.out = cnt k r.out := by
  simp only [onFrameError]
  repeat' split
  all_goals simp [writeError_cnt k hk]

theorem dispatch_cnt (k : Kind) (hk : k ≠ .dispatch) (r : R) (uid : Nat) (st : Strm) :
    cnt k (dispatch r uid st).out = cnt k r.out := by
  simp [dispatch, Out.kind, hk.symm]

theorem dispatchOrSend_cnt (k : Kind) (hk : k ≠ .rst ∧ k ≠ .data ∧ k ≠ .dispatch) (r : R) (uid : Nat) (st : Strm) :
    cnt k (dispatchOrSend r uid st).out = cnt k r.out := by
  simp only [dispatchOrSend]
  repeat' split
  all_goals simp [Out.kind, hk.1.symm, dispatch_cnt k hk.2.2, sendData_cnt k ⟨hk.1, hk.2.1⟩]

@[simp] theorem closeIfClosed_out (r : R) (uid : Nat) : (closeIfClosed r uid).out = r.out := by
  simp only [closeIfClosed]
  repeat' split
  all_goals simp

/-- kinds the stream loop can emit while handling a stream frame -/
def slKinds : List Kind := [.rst, .goAway, .wu, .data, .dispatch]

theorem knownStream_cnt (k : Kind) (hk : k ∉ slKinds) (r : R) (uid : Nat) (fr : Frame.Frame) (wc : Bool) :
    cnt k (knownStream r uid fr wc).out = cnt k r.out := by
  simp only [slKinds, List.mem_cons, List.mem_nil_iff, or_false, not_or] at hk
  obtain ⟨h1, h2, h3, h4, h5⟩ := hk
  simp only [knownStream]
  repeat' split
  all_goals simp [dispatchOrSend_cnt k ⟨h1, h4, h5⟩, onFrameError_cnt k ⟨h1, h2⟩, handleFrame_cnt k h3,
    headersPrelude_cnt k ⟨h1, h2⟩]

theorem slStreamFrame_cnt (k : Kind) (hk : k ∉ slKinds) (r : R) (fr : Frame.Frame) :
    cnt k (slStreamFrame r fr).out = cnt k r.out := by
  have hk' := hk
  simp only [slKinds, List.mem_cons, List.mem_nil_iff, or_false, not_or] at hk'
  obtain ⟨h1, h2, h3, h4, h5⟩ := hk'
  simp only [slStreamFrame]
  repeat' split
  all_goals simp [knownStream_cnt k hk, unknownStream_cnt k ⟨h1, h2, h3⟩]


@[simp] theorem closeIfClosing_out (r : R) : (closeIfClosing r).out = r.out := by
  simp only [closeIfClosing]; split <;> rfl

@[simp] theorem applyTableSize_out (r : R) (st : Frame.SettingsVal) : (applyTableSize r st).out = r.out := rfl

theorem slFrame_cnt (k : Kind) (hk : k ∉ slKinds) (r : R) (fr : Frame.Frame) :
    cnt k (slFrame r fr).out = cnt k r.out := by
  have hk' := hk
  simp only [slKinds, List.mem_cons, List.mem_nil_iff, or_false, not_or] at hk'
  obtain ⟨h1, h2, h3, h4, h5⟩ := hk'
  simp only [slFrame]
  repeat' split
  all_goals simp [slStreamFrame_cnt k hk, flushStreams_cnt k ⟨h1, h4⟩, Out.kind, Ne.symm h2]

theorem slHandlerDone_cnt (k : Kind) (hk : k ≠ .panicLogged ∧ (k ≠ .headers ∧ k ≠ .cont) ∧ k ≠ .rst ∧ k ≠ .data)
    (r : R) (sid : Nat) (resp : Resp) : cnt k (slHandlerDone r sid resp).out = cnt k r.out := by
  simp only [slHandlerDone]
  repeat' split
  all_goals simp [Out.kind, hk.1.symm, finishRequest_cnt k hk.2, closeDone_out]

/-- the number of acknowledgements a frame is owed: one for a SETTINGS frame without ACK on stream 0
that passes the CONTINUATION sequencing check -/
def acksOwed (r : R) (fr : Frame.Frame) : Nat :=
  if (contCheck r fr).2 then 0
  else if fr.stream != 0 then 0
  else match fr.body with
    | .settings st => if !st.ack then 1 else 0
    | _ => 0

theorem contCheck_cnt (k : Kind) (hk : k ≠ .goAway) (r : R) (fr : Frame.Frame) :
    cnt k (contCheck r fr).1.out = cnt k r.out := by
  simp only [contCheck]
  repeat' split
  all_goals simp [Out.kind, hk.symm]

theorem handleSettings_ack (r : R) (st : Frame.SettingsVal) :
    cnt .ack (handleSettings r st).out = cnt .ack r.out + 1 := by
  simp [handleSettings, Out.kind]

/-- **SETTINGS are acknowledged exactly once**: handling one frame adds exactly `acksOwed` ACKs -/
theorem rlFrame_acks (r : R) (fr : Frame.Frame) :
    cnt .ack (rlFrame r fr).out = cnt .ack r.out + acksOwed r fr := by
  have hs : Kind.ack ∉ slKinds := by decide
  simp only [rlFrame, acksOwed, rlConnFrame]
  repeat' split
  all_goals simp_all [contCheck_cnt, slFrame_cnt .ack hs, handleSettings_ack, Out.kind]

end H2.Server
