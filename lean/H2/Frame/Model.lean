import H2.Base
import H2.Gen.Consts
/-!
# Frames — executable model of `frameHeader.go` and the ten per-type files

`readFrame max bytes` mirrors `ReadFrameFromWithSize(br, max)`: 9-octet header, length check against
`max` (0 = no check), type range, payload read, per-type `Deserialize`. The outcome says how many
octets were consumed from the reader. `writeFrame` mirrors `FrameHeader.WriteTo` for frame values
built through the public setters.
-/
namespace H2.Frame

structure SettingsVal where
  ack : Bool := false
  tableSize : Nat := Gen.c_defaultHeaderTableSize
  enablePush : Bool := false
  maxStreams : Nat := Gen.c_defaultConcurrentStreams
  windowSize : Nat := Gen.c_defaultWindowSize
  frameSize : Nat := Gen.c_defaultDataFrameSize
  headerSize : Nat := 0
  hasWindowSize : Bool := false
  hasTableSize : Bool := false
  /-- `hasPush`, `hasMaxStreams`: like the two above for ENABLE_PUSH and MAX_CONCURRENT_STREAMS. The four marks say
  "the frame carries this value": raised by `Read` for a frame that was decoded and by the setters for one to be sent -/
  hasPush : Bool := false
  hasMaxStreams : Bool := false
  /-- the (id, value) pairs as they came off the wire, in order -/
  pairs : List (Nat × Nat) := []
deriving Repr, DecidableEq

inductive Body where
  | data (endStream : Bool) (b : Bytes)
  | headers (endStream endHeaders : Bool) (prio : Option (Nat × Nat)) (frag : Bytes)
  | priority (dep weight : Nat)
  | rstStream (code : Nat)
  | settings (s : SettingsVal)
  | pushPromise (promised : Nat) (endHeaders : Bool) (frag : Bytes)
  | ping (ack : Bool) (b : Bytes)
  | goAway (last code : Nat) (debug : Bytes)
  | windowUpdate (inc : Nat)
  | continuation (endHeaders : Bool) (frag : Bytes)
deriving Repr, DecidableEq

structure Frame where
  typ : Nat
  flags : Nat
  stream : Nat
  length : Nat
  body : Body
deriving Repr, DecidableEq

/-- how a failed read is classified by its caller -/
inductive ErrKind where
  | io            -- reader ran out (EOF / short read)
  | tooLarge      -- length over the limit: ErrPayloadExceeds (FRAME_SIZE_ERROR, stream-typed Error)
  | goAway (code : Nat)   -- an Error value typed for GOAWAY
  | other (code : Nat)    -- an Error value typed for RST_STREAM (ErrMissingBytes, wrong-size PRIORITY)
  | plain         -- not an Error value (padding out of range)
deriving Repr, DecidableEq

inductive ReadRes where
  | ok (f : Frame) (consumed : Nat)
  | unknownType (typ : Nat) (consumed : Nat)
  | err (k : ErrKind) (consumed : Nat)
deriving Repr, DecidableEq

def hasFlag (flags f : Nat) : Bool := (flags / f) % 2 == 1   -- f is a power of two

/-- `http2utils.CutPadding(payload, length)` with `length = len(payload)` -/
def cutPadding (p : Bytes) : Option Bytes :=
  match p with
  | [] => none
  | pad :: rest =>
    if pad + 1 > p.length then none else some (rest.take (p.length - pad - 1))

def settingsRead : Bytes → SettingsVal → Option SettingsVal ⊕ Nat
  | k0 :: k1 :: v0 :: v1 :: v2 :: v3 :: rest, s =>
    let key := k0 * 256 + k1
    let v := be32 [v0, v1, v2, v3]
    let s := { s with pairs := s.pairs ++ [(key, v)] }
    if key = Gen.c_HeaderTableSize then settingsRead rest { s with tableSize := v, hasTableSize := true }
    else if key = Gen.c_EnablePush then
      if v > 1 then .inr Gen.c_ProtocolError else settingsRead rest { s with enablePush := v != 0, hasPush := true }
    else if key = Gen.c_MaxConcurrentStreams then settingsRead rest { s with maxStreams := v, hasMaxStreams := true }
    else if key = Gen.c_MaxWindowSize then
      if v > 2 ^ 31 - 1 then .inr Gen.c_FlowControlError
      else settingsRead rest { s with windowSize := v, hasWindowSize := true }
    else if key = Gen.c_MaxFrameSize then
      if v < 2 ^ 14 || v > 2 ^ 24 - 1 then .inr Gen.c_ProtocolError else settingsRead rest { s with frameSize := v }
    else if key = Gen.c_MaxHeaderListSize then settingsRead rest { s with headerSize := v }
    else settingsRead rest s
  | _, s => .inl (some s)

def deserialize (typ flags : Nat) (p : Bytes) : Body ⊕ ErrKind :=
  if typ = Gen.c_FrameData then
    if hasFlag flags Gen.c_FlagPadded then
      match cutPadding p with
      | some d => .inl (.data (hasFlag flags Gen.c_FlagEndStream) d)
      | none => .inr .plain
    else .inl (.data (hasFlag flags Gen.c_FlagEndStream) p)
  else if typ = Gen.c_FrameHeaders then
    let p1 := if hasFlag flags Gen.c_FlagPadded then cutPadding p else some p
    match p1 with
    | none => .inr .plain
    | some q =>
      if hasFlag flags Gen.c_FlagPriority then
        if q.length < 5 then .inr (.other Gen.c_ProtocolError)
        else .inl (.headers (hasFlag flags Gen.c_FlagEndStream) (hasFlag flags Gen.c_FlagEndHeaders)
                    (some (be32 q % 2 ^ 31, q.getD 4 0)) (q.drop 5))
      else .inl (.headers (hasFlag flags Gen.c_FlagEndStream) (hasFlag flags Gen.c_FlagEndHeaders) none q)
  else if typ = Gen.c_FramePriority then
    if p.length ≠ 5 then .inr (.other Gen.c_FrameSizeError) else .inl (.priority (be32 p % 2 ^ 31) (p.getD 4 0))
  else if typ = Gen.c_FrameResetStream then
    if p.length ≠ 4 then .inr (.goAway Gen.c_FrameSizeError) else .inl (.rstStream (be32 p))
  else if typ = Gen.c_FrameSettings then
    if p.length % 6 ≠ 0 then .inr (.goAway Gen.c_FrameSizeError)
    else
      let ack := hasFlag flags Gen.c_FlagAck
      if ack && p.length > 0 then .inr (.goAway Gen.c_FrameSizeError)
      else match settingsRead p { ack := ack } with
        | .inl (some s) => .inl (.settings s)
        | .inl none => .inr .plain
        | .inr code => .inr (.goAway code)
  else if typ = Gen.c_FramePushPromise then
    let p1 := if hasFlag flags Gen.c_FlagPadded then cutPadding p else some p
    match p1 with
    | none => .inr .plain
    | some q =>
      if q.length < 4 then .inr (.other Gen.c_ProtocolError)
      else .inl (.pushPromise (be32 q % 2 ^ 31) (hasFlag flags Gen.c_FlagEndHeaders) (q.drop 4))
  else if typ = Gen.c_FramePing then
    if p.length ≠ 8 then .inr (.goAway Gen.c_FrameSizeError) else .inl (.ping (hasFlag flags Gen.c_FlagAck) p)
  else if typ = Gen.c_FrameGoAway then
    if p.length < 8 then .inr (.goAway Gen.c_FrameSizeError)
    else .inl (.goAway (be32 p % 2 ^ 31) (be32 (p.drop 4)) (p.drop 8))
  else if typ = Gen.c_FrameWindowUpdate then
    if p.length ≠ 4 then .inr (.goAway Gen.c_FrameSizeError) else .inl (.windowUpdate (be32 p % 2 ^ 31))
  else -- continuation
    .inl (.continuation (hasFlag flags Gen.c_FlagEndHeaders) p)

/-- `ReadFrameFromWithSize(br, max)` on the octets `b` still in the reader -/
def readFrame (max : Nat) (b : Bytes) : ReadRes :=
  if b.length < 9 then .err .io 0   -- Peek(9) fails; nothing is discarded
  else
    let len := be24 b
    let typ := b.getD 3 0
    let flags := b.getD 4 0
    let stream := be32 (b.drop 5) % 2 ^ 31
    if max ≠ 0 && len > max then .err .tooLarge 9
    else if typ > Gen.c_FrameContinuation then
      .unknownType typ (9 + min len (b.length - 9))   -- Discard(length) skips what is there
    else
      let rest := b.drop 9
      if rest.length < len then .err .io b.length     -- io.ReadFull drains what is there
      else
        match deserialize typ flags (rest.take len) with
        | .inl body => .ok ⟨typ, flags, stream, len, body⟩ (9 + len)
        | .inr k => .err k (9 + len)

/-! ## writer -/

/-- one (identifier, value) pair of `Settings.Encode`: written when the value is not zero or is marked as present -/
def settingsPair (id v : Nat) (has : Bool) : Bytes := if v ≠ 0 || has then toBe16 id ++ toBe32 v else []

/-- `Settings.Encode`: a value that was set (or read from a frame) is written even when it is zero; MAX_FRAME_SIZE and
MAX_HEADER_LIST_SIZE have no mark (0 is not a frame size; 0 is this library's "no limit" for the header list) -/
def settingsEncode (s : SettingsVal) : Bytes :=
  settingsPair Gen.c_HeaderTableSize s.tableSize s.hasTableSize ++
  (if s.enablePush then toBe16 Gen.c_EnablePush ++ toBe32 1
   else if s.hasPush then toBe16 Gen.c_EnablePush ++ toBe32 0 else []) ++
  settingsPair Gen.c_MaxConcurrentStreams s.maxStreams s.hasMaxStreams ++
  settingsPair Gen.c_MaxWindowSize s.windowSize s.hasWindowSize ++
  settingsPair Gen.c_MaxFrameSize s.frameSize false ++ settingsPair Gen.c_MaxHeaderListSize s.headerSize false

/-- header octets -/
def header (len typ flags stream : Nat) : Bytes :=
  toBe24 len ++ [typ % 256, flags % 256] ++ toBe32 stream

end H2.Frame
