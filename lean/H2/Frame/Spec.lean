import H2.Frame.Model
/-!
# Frames — RFC 7540 §4.1 / §6 wire grammar, written independently of the code

`parse max b` reads one frame off the front of `b` the way the RFC lays it out: the 9-octet header
(§4.1: Length 24, Type 8, Flags 8, R 1, Stream Identifier 31), then the per-type payload layouts of
§6.1 – §6.10 by pattern matching on the octets. It uses the RFC's numbers (type codes, flag bits,
error codes, fixed sizes), *not* the constants extracted from the Go source; the refinement theorems
in `H2/Props/C05.lean` therefore also check the extracted constants against the RFC.

The result type reuses the abstract frame value `H2.Frame.Frame` (fields only, padding stripped,
reserved bits dropped) so that "parsing yields exactly those fields" is an equality.

Receiving side (`parse`): reserved bits are ignored, padding octets are not inspected, undefined
flags are ignored, stream-identifier rules (e.g. SETTINGS on stream 0) are *not* part of the frame
grammar (they are connection-level rules, property C08).
Sending side (`sendWF`): additionally R bits are zero, padding octets are zero (§6.1), undefined
flags are unset (§4.1), the stream identifier is zero / non-zero as the type requires.
-/
namespace H2.Frame.Spec

/-- bit `k` of a flags octet -/
def bitAt (flags k : Nat) : Bool := flags / 2 ^ k % 2 = 1

def u32 (a b c d : Nat) : Nat := ((a * 256 + b) * 256 + c) * 256 + d
/-- 31-bit field below a reserved / exclusive bit -/
def u31 (a b c d : Nat) : Nat := u32 (a % 128) b c d

structure Hdr where
  length : Nat
  typ : Nat
  flags : Nat
  stream : Nat
deriving Repr, DecidableEq

/-- §4.1 -/
def parseHdr : Bytes → Option (Hdr × Bytes)
  | l0 :: l1 :: l2 :: t :: f :: s0 :: s1 :: s2 :: s3 :: rest =>
    some (⟨(l0 * 256 + l1) * 256 + l2, t, f, u31 s0 s1 s2 s3⟩, rest)
  | _ => none

/-- §6.1: `Pad Length (8)`, content, `Padding (*)`; the pad length must be smaller than what follows
the pad-length octet allows -/
def unpad (padded : Bool) (p : Bytes) : Option Bytes :=
  if padded then
    match p with
    | [] => none
    | n :: rest => if n ≤ rest.length then some (rest.take (rest.length - n)) else none
  else some p

/-- §6.5.1: a SETTINGS payload is a sequence of `Identifier (16) Value (32)` -/
def pairsOf : Bytes → List (Nat × Nat)
  | i0 :: i1 :: v0 :: v1 :: v2 :: v3 :: rest => (i0 * 256 + i1, u32 v0 v1 v2 v3) :: pairsOf rest
  | _ => []

/-- §6.5.2: values that are connection errors, with the error code -/
def pairBad (p : Nat × Nat) : Option Nat :=
  if p.1 = 2 then (if p.2 > 1 then some 1 else none)                          -- ENABLE_PUSH ∉ {0,1}: PROTOCOL_ERROR
  else if p.1 = 4 then (if p.2 > 2 ^ 31 - 1 then some 3 else none)            -- INITIAL_WINDOW_SIZE: FLOW_CONTROL_ERROR
  else if p.1 = 5 then (if p.2 < 2 ^ 14 ∨ p.2 > 2 ^ 24 - 1 then some 1 else none)  -- MAX_FRAME_SIZE: PROTOCOL_ERROR
  else none

def firstBad : List (Nat × Nat) → Option Nat
  | [] => none
  | p :: ps => match pairBad p with
    | some c => some c
    | none => firstBad ps

/-- §6.5.3: values are processed in the order they appear; unknown identifiers are ignored -/
def applyPair (s : SettingsVal) (p : Nat × Nat) : SettingsVal :=
  if p.1 = 1 then { s with tableSize := p.2, hasTableSize := true }
  else if p.1 = 2 then { s with enablePush := p.2 != 0, hasPush := true }
  else if p.1 = 3 then { s with maxStreams := p.2, hasMaxStreams := true }
  else if p.1 = 4 then { s with windowSize := p.2, hasWindowSize := true }
  else if p.1 = 5 then { s with frameSize := p.2 }
  else if p.1 = 6 then { s with headerSize := p.2 }
  else s

/-- the abstract SETTINGS value: the pairs in wire order plus the values they establish on top of the
library's initial values -/
def settingsVal (ack : Bool) (ps : List (Nat × Nat)) : SettingsVal :=
  { ps.foldl applyPair { ack := ack } with pairs := ps }

inductive BodyRes where
  | ok (b : Body)
  | bad (code : Nat)
deriving Repr, DecidableEq

/-- §6.1 – §6.10. Error codes: 1 PROTOCOL_ERROR, 3 FLOW_CONTROL_ERROR, 6 FRAME_SIZE_ERROR. -/
def body (typ flags : Nat) (p : Bytes) : BodyRes :=
  match typ with
  | 0 => -- DATA: END_STREAM 0x1, PADDED 0x8
    match unpad (bitAt flags 3) p with
    | some d => .ok (.data (bitAt flags 0) d)
    | none => .bad 1
  | 1 => -- HEADERS: END_STREAM 0x1, END_HEADERS 0x4, PADDED 0x8, PRIORITY 0x20
    match unpad (bitAt flags 3) p with
    | none => .bad 1
    | some q =>
      if bitAt flags 5 then
        match q with
        | e0 :: e1 :: e2 :: e3 :: w :: frag =>
          .ok (.headers (bitAt flags 0) (bitAt flags 2) (some (u31 e0 e1 e2 e3, w)) frag)
        | _ => .bad 1
      else .ok (.headers (bitAt flags 0) (bitAt flags 2) none q)
  | 2 => -- PRIORITY: exactly 5 octets, else FRAME_SIZE_ERROR (§6.3)
    match p with
    | [e0, e1, e2, e3, w] => .ok (.priority (u31 e0 e1 e2 e3) w)
    | _ => .bad 6
  | 3 => -- RST_STREAM: exactly 4 octets (§6.4)
    match p with
    | [a, b, c, d] => .ok (.rstStream (u32 a b c d))
    | _ => .bad 6
  | 4 => -- SETTINGS: ACK 0x1; multiple of 6; ACK ⇒ empty (§6.5)
    if p.length % 6 ≠ 0 then .bad 6
    else if bitAt flags 0 ∧ p.length ≠ 0 then .bad 6
    else match firstBad (pairsOf p) with
      | some c => .bad c
      | none => .ok (.settings (settingsVal (bitAt flags 0) (pairsOf p)))
  | 5 => -- PUSH_PROMISE: END_HEADERS 0x4, PADDED 0x8
    match unpad (bitAt flags 3) p with
    | none => .bad 1
    | some q =>
      match q with
      | a :: b :: c :: d :: frag => .ok (.pushPromise (u31 a b c d) (bitAt flags 2) frag)
      | _ => .bad 1
  | 6 => -- PING: ACK 0x1; exactly 8 octets (§6.7)
    if p.length = 8 then .ok (.ping (bitAt flags 0) p) else .bad 6
  | 7 => -- GOAWAY: R Last-Stream-ID (31), Error Code (32), debug data (§6.8)
    match p with
    | a :: b :: c :: d :: e :: f :: g :: h :: dbg => .ok (.goAway (u31 a b c d) (u32 e f g h) dbg)
    | _ => .bad 6
  | 8 => -- WINDOW_UPDATE: exactly 4 octets (§6.9)
    match p with
    | [a, b, c, d] => .ok (.windowUpdate (u31 a b c d))
    | _ => .bad 6
  | 9 => -- CONTINUATION: END_HEADERS 0x4
    .ok (.continuation (bitAt flags 2) p)
  | _ => .bad 2

inductive Res where
  /-- fewer octets than the header, or than the header's length announces -/
  | incomplete
  | frame (f : Frame) (rest : Bytes)
  /-- §4.1: "implementations MUST ignore and discard any frame that has a type that is unknown" -/
  | ignored (typ len : Nat) (rest : Bytes)
  | malformed (code : Nat)
deriving Repr, DecidableEq

/-- one frame off the front of `b`; `max` is the receiver's SETTINGS_MAX_FRAME_SIZE (0: no limit).
§4.2: a frame longer than that is a FRAME_SIZE_ERROR — known from the header alone. -/
def parse (max : Nat) (b : Bytes) : Res :=
  match parseHdr b with
  | none => .incomplete
  | some (h, rest) =>
    if max ≠ 0 ∧ h.length > max then .malformed 6
    else if rest.length < h.length then .incomplete
    else if h.typ > 9 then .ignored h.typ h.length (rest.drop h.length)
    else match body h.typ h.flags (rest.take h.length) with
      | .ok bd => .frame ⟨h.typ, h.flags, h.stream, h.length, bd⟩ (rest.drop h.length)
      | .bad c => .malformed c

/-! ## sending side -/

/-- flags with defined semantics per type (§6) -/
def definedFlags (typ : Nat) : List Nat :=
  match typ with
  | 0 => [0, 3] | 1 => [0, 2, 3, 5] | 4 => [0] | 5 => [2, 3] | 6 => [0] | 9 => [2] | _ => []

/-- §4.1: flags without defined semantics are left unset when sending -/
def flagsOk (typ flags : Nat) : Bool :=
  (List.range 8).all fun k => !bitAt flags k || (definedFlags typ).contains k

/-- stream identifier zero / non-zero as §6 demands of a sender -/
def streamOk (typ stream : Nat) : Bool :=
  if typ = 4 ∨ typ = 6 ∨ typ = 7 then stream = 0
  else if typ = 8 then true
  else stream ≠ 0

/-- §6.1: "Padding octets MUST be set to zero when sending" -/
def padZero (padded : Bool) (p : Bytes) : Bool :=
  if padded then
    match p with
    | [] => false
    | n :: rest => (rest.drop (rest.length - n)).all (· == 0)
  else true

/-- first octet of the field that carries a reserved bit, if the type has one (after the pad length) -/
def reservedOk (typ flags : Nat) (p : Bytes) : Bool :=
  if typ = 5 then (if bitAt flags 3 then p.getD 1 0 < 128 else p.getD 0 0 < 128)
  else if typ = 7 ∨ typ = 8 then p.getD 0 0 < 128
  else true

/-- the octets are exactly one frame a conforming sender may emit -/
def sendWF (b : Bytes) : Bool :=
  match parse 0 b with
  | .frame f [] =>
    b.getD 5 0 < 128 && flagsOk f.typ f.flags && streamOk f.typ f.stream &&
    padZero ((f.typ = 0 ∨ f.typ = 1 ∨ f.typ = 5) ∧ bitAt f.flags 3) (b.drop 9) &&
    reservedOk f.typ f.flags (b.drop 9)
  | _ => false

end H2.Frame.Spec
