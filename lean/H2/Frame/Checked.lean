import H2.Frame.Model
/-!
# Frames — the read path with Go's run-time checks made explicit

`Frame.readFrame` uses total helpers (`getD`, `take`, `drop`). Go does not: `p[i]`, `p[lo:hi]`,
`framePools[kind]` and `BytesToUint32` (`_ = b[3]`) panic when out of range. This file restates the
read path operation by operation with those checks as `Option` (`none` = the goroutine panics), in
the order the Go code performs them, so that "never panics" is a statement to be proved
(`H2.Props.C16.no_panic`: the checked model always returns `some` and agrees with `readFrame`),
not an artefact of totality.
-/
namespace H2.Frame.Chk

/-- `p[i]` -/
def at? (p : Bytes) (i : Nat) : Option Nat := p[i]?

/-- `p[lo:hi]` (the payload slices have `cap = len` as far as indexing goes) -/
def slice? (p : Bytes) (lo hi : Nat) : Option Bytes :=
  if lo ≤ hi ∧ hi ≤ p.length then some ((p.take hi).drop lo) else none

/-- `http2utils.BytesToUint32(p)`: `_ = b[3]` -/
def u32? (p : Bytes) : Option Nat := if 4 ≤ p.length then some (be32 p) else none

/-- `http2utils.CutPadding(payload, length)`; inner `none`: the error return. The comparisons are on
Go `int`s, written here without subtraction. -/
def cutPadding? (payload : Bytes) (length : Nat) : Option (Option Bytes) :=
  if payload.length = 0 ∨ length < 1 ∨ length > payload.length then some none
  else do
    let pad ← at? payload 0
    if payload.length + pad + 1 < length ∨ length < pad + 1 then pure none
    else do
      let s ← slice? payload 1 (length - pad)
      pure (some s)

/-- `if flags.Has(FlagPadded) { payload, err = CutPadding(payload, len) }` -/
def padded? (c : Bool) (p : Bytes) : Option (Option Bytes) :=
  if c then cutPadding? p p.length else some (some p)

/-- `Settings.Read`: `for i <= n { b = d[last:i]; b[0] … b[5] }` -/
def settingsRead? (fuel : Nat) (d : Bytes) (last i : Nat) (s : SettingsVal) : Option (Option SettingsVal ⊕ Nat) :=
  match fuel with
  | 0 => none
  | fuel + 1 =>
    if i ≤ d.length then do
      let b ← slice? d last i
      let b0 ← at? b 0; let b1 ← at? b 1; let b2 ← at? b 2; let b3 ← at? b 3; let b4 ← at? b 4; let b5 ← at? b 5
      let key := b0 * 256 + b1
      let v := b2 * 16777216 + b3 * 65536 + b4 * 256 + b5
      let s := { s with pairs := s.pairs ++ [(key, v)] }
      if key = Gen.c_HeaderTableSize then settingsRead? fuel d i (i + 6) { s with tableSize := v, hasTableSize := true }
      else if key = Gen.c_EnablePush then
        if v > 1 then pure (.inr Gen.c_ProtocolError) else settingsRead? fuel d i (i + 6) { s with enablePush := v != 0, hasPush := true }
      else if key = Gen.c_MaxConcurrentStreams then settingsRead? fuel d i (i + 6) { s with maxStreams := v, hasMaxStreams := true }
      else if key = Gen.c_MaxWindowSize then
        if v > 2 ^ 31 - 1 then pure (.inr Gen.c_FlowControlError)
        else settingsRead? fuel d i (i + 6) { s with windowSize := v, hasWindowSize := true }
      else if key = Gen.c_MaxFrameSize then
        if v < 2 ^ 14 || v > 2 ^ 24 - 1 then pure (.inr Gen.c_ProtocolError) else settingsRead? fuel d i (i + 6) { s with frameSize := v }
      else if key = Gen.c_MaxHeaderListSize then settingsRead? fuel d i (i + 6) { s with headerSize := v }
      else settingsRead? fuel d i (i + 6) s
    else pure (.inl (some s))

/-- every `Deserialize`, `frh.payload = p`, `frh.Len() = len(p)` -/
def deserialize? (typ flags : Nat) (p : Bytes) : Option (Body ⊕ ErrKind) :=
  if typ = Gen.c_FrameData then
    if hasFlag flags Gen.c_FlagPadded then do
      match ← cutPadding? p p.length with
      | some d => pure (.inl (.data (hasFlag flags Gen.c_FlagEndStream) d))
      | none => pure (.inr .plain)
    else pure (.inl (.data (hasFlag flags Gen.c_FlagEndStream) p))
  else if typ = Gen.c_FrameHeaders then do
    match ← padded? (hasFlag flags Gen.c_FlagPadded) p with
    | none => pure (.inr .plain)
    | some q =>
      if hasFlag flags Gen.c_FlagPriority then
        if q.length < 5 then pure (.inr (.other Gen.c_ProtocolError))
        else do
          let dep ← u32? q
          let w ← at? q 4
          let frag ← slice? q 5 q.length
          pure (.inl (.headers (hasFlag flags Gen.c_FlagEndStream) (hasFlag flags Gen.c_FlagEndHeaders) (some (dep % 2 ^ 31, w)) frag))
      else pure (.inl (.headers (hasFlag flags Gen.c_FlagEndStream) (hasFlag flags Gen.c_FlagEndHeaders) none q))
  else if typ = Gen.c_FramePriority then
    if p.length ≠ 5 then pure (.inr (.other Gen.c_FrameSizeError))
    else do
      let dep ← u32? p
      let w ← at? p 4
      pure (.inl (.priority (dep % 2 ^ 31) w))
  else if typ = Gen.c_FrameResetStream then
    if p.length ≠ 4 then pure (.inr (.goAway Gen.c_FrameSizeError))
    else do
      let c ← u32? p
      pure (.inl (.rstStream c))
  else if typ = Gen.c_FrameSettings then
    if p.length % 6 ≠ 0 then pure (.inr (.goAway Gen.c_FrameSizeError))
    else
      let ack := hasFlag flags Gen.c_FlagAck
      if ack && p.length > 0 then pure (.inr (.goAway Gen.c_FrameSizeError))
      else do
        match ← settingsRead? (p.length + 1) p 0 6 { ack := ack } with
        | .inl (some s) => pure (.inl (.settings s))
        | .inl none => pure (.inr .plain)
        | .inr code => pure (.inr (.goAway code))
  else if typ = Gen.c_FramePushPromise then do
    match ← padded? (hasFlag flags Gen.c_FlagPadded) p with
    | none => pure (.inr .plain)
    | some q =>
      if q.length < 4 then pure (.inr (.other Gen.c_ProtocolError))
      else do
        let pr ← u32? q
        let frag ← slice? q 4 q.length
        pure (.inl (.pushPromise (pr % 2 ^ 31) (hasFlag flags Gen.c_FlagEndHeaders) frag))
  else if typ = Gen.c_FramePing then
    if p.length ≠ 8 then pure (.inr (.goAway Gen.c_FrameSizeError)) else pure (.inl (.ping (hasFlag flags Gen.c_FlagAck) p))
  else if typ = Gen.c_FrameGoAway then
    if p.length < 8 then pure (.inr (.goAway Gen.c_FrameSizeError))
    else do
      let last ← u32? p
      let t4 ← slice? p 4 p.length
      let code ← u32? t4
      let dbg ← slice? p 8 p.length
      pure (.inl (.goAway (last % 2 ^ 31) code dbg))
  else if typ = Gen.c_FrameWindowUpdate then
    if p.length ≠ 4 then pure (.inr (.goAway Gen.c_FrameSizeError))
    else do
      let inc ← u32? p
      pure (.inl (.windowUpdate (inc % 2 ^ 31)))
  else pure (.inl (.continuation (hasFlag flags Gen.c_FlagEndHeaders) p))

/-- `FrameType` is `int8`: `FrameType(header[3])` -/
def kindOf (t : Nat) : Int := if t % 256 < 128 then (t % 256 : Nat) else (t % 256 : Nat) - 256

/-- `framePools[kind]`: an array of `FrameContinuation + 1` pools -/
def poolIdx? (k : Int) : Option Nat := if 0 ≤ k ∧ k ≤ (Gen.c_FrameContinuation : Nat) then some k.toNat else none

/-- `parseValues(header)` on what `Peek(9)` returned: length, type octet, flags octet, raw stream word -/
def header? (b : Bytes) : Option (Nat × Nat × Nat × Nat) := do
  let header ← slice? b 0 9
  let h3 ← slice? header 0 3
  let l0 ← at? h3 0; let l1 ← at? h3 1; let l2 ← at? h3 2     -- BytesToUint24: `_ = b[2]`
  let t ← at? header 3
  let flags ← at? header 4
  let h5 ← slice? header 5 header.length
  let sid ← u32? h5
  pure (l0 * 65536 + l1 * 256 + l2, t, flags, sid)

/-- `ReadFrameFromWithSize(br, max)` on the octets `b` -/
def readFrame? (max : Nat) (b : Bytes) : Option ReadRes :=
  if b.length < 9 then pure (.err .io 0)     -- Peek(9) fails
  else do
    let (len, t, flags, sid) ← header? b
    let kind := kindOf t
    if max ≠ 0 && len > max then pure (.err .tooLarge 9)
    else if kind < 0 ∨ kind > (Gen.c_FrameContinuation : Nat) then
      pure (.unknownType t (9 + min len (b.length - 9)))
    else do
      let _ ← poolIdx? kind                    -- AcquireFrame(f.kind)
      let rest := b.drop 9
      if rest.length < len then pure (.err .io b.length)
      else do
        let payload ← slice? rest 0 len         -- f.payload[:n] after Resize
        match ← deserialize? kind.toNat flags payload with
        | .inl body => pure (.ok ⟨t, flags, sid % 2 ^ 31, len, body⟩ (9 + len))
        | .inr k => pure (.err k (9 + len))

end H2.Frame.Chk
