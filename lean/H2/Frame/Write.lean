import H2.Frame.Model
/-!
# Frames — model of `FrameHeader.WriteTo` and every `Serialize`

`WFrame` is a frame body as it can be built through the public setters (plus the priority section of
HEADERS, which the API can only obtain by reading a frame). `write` gives the octets `WriteTo` puts on
the wire for a header with preset flags `fl`, stream `stream` and that body. `AddPadding` draws the
pad length `n ∈ [9,255]` at random, so `n` is a parameter (`pad = 0`: padding off).
`want` is the abstract frame the caller meant to send.
-/
namespace H2.Frame

inductive WFrame where
  | data (endStream : Bool) (b : Bytes)
  /-- `prio = some (dep, weight)`: `h.priority` set, `h.stream = dep`, `h.weight = weight` -/
  | headers (endStream endHeaders : Bool) (prio : Option (Nat × Nat)) (raw : Bytes)
  | priority (dep weight : Nat)
  | rstStream (code : Nat)
  | settings (ack : Bool) (tableSize : Nat) (push : Bool) (maxStreams windowSize frameSize headerSize : Nat)
  /-- `promised`: `pp.stream` as `SetStream` got it (any uint32; `Serialize` clears the reserved bit) -/
  | pushPromise (promised : Nat) (endHeaders : Bool) (header : Bytes)
  | ping (ack : Bool) (d : Bytes)
  | goAway (last code : Nat) (debug : Bytes)
  | windowUpdate (inc : Nat)
  | continuation (endHeaders : Bool) (raw : Bytes)
deriving Repr, DecidableEq

def WFrame.typ : WFrame → Nat
  | .data .. => Gen.c_FrameData | .headers .. => Gen.c_FrameHeaders | .priority .. => Gen.c_FramePriority
  | .rstStream .. => Gen.c_FrameResetStream | .settings .. => Gen.c_FrameSettings
  | .pushPromise .. => Gen.c_FramePushPromise | .ping .. => Gen.c_FramePing | .goAway .. => Gen.c_FrameGoAway
  | .windowUpdate .. => Gen.c_FrameWindowUpdate | .continuation .. => Gen.c_FrameContinuation

/-- `flags.Add(f)` for a one-bit flag `f`: bitwise or -/
def addFlag (flags f : Nat) (on : Bool) : Nat := if on && !hasFlag flags f then flags + f else flags

/-- `http2utils.AddPadding(b)` with drawn length `n`: pad-length octet, `b`, `n` padding octets
(zeroed, see utils.go) -/
def addPadding (b : Bytes) (n : Nat) : Bytes := n :: (b ++ List.replicate n 0)

/-- (flags after `Serialize`, payload) -/
def serialize (fl : Nat) (pad : Nat) : WFrame → Nat × Bytes
  | .data es b =>
    let fl := addFlag fl Gen.c_FlagEndStream es
    if pad ≠ 0 then (addFlag fl Gen.c_FlagPadded true, addPadding b pad) else (fl, b)
  | .headers es eh prio raw =>
    let fl := addFlag (addFlag fl Gen.c_FlagEndStream es) Gen.c_FlagEndHeaders eh
    let (fl, raw) := match prio with
      | some (dep, w) => (addFlag fl Gen.c_FlagPriority true, toBe32 dep ++ [w] ++ raw)
      | none => (fl, raw)
    if pad ≠ 0 then (addFlag fl Gen.c_FlagPadded true, addPadding raw pad) else (fl, raw)
  | .priority dep w => (fl, toBe32 dep ++ [w])
  | .rstStream code => (fl, toBe32 code)
  | .settings ack ts push ms ws fs hs =>
    if ack then (addFlag fl Gen.c_FlagAck true, [])
    -- built through the six setters: four of them mark their value as present
    else (fl, settingsEncode { tableSize := ts, enablePush := push, maxStreams := ms, windowSize := ws,
                               frameSize := fs, headerSize := hs, hasTableSize := true, hasPush := true,
                               hasMaxStreams := true, hasWindowSize := true })
  | .pushPromise pr eh h =>
    let fl := addFlag fl Gen.c_FlagEndHeaders eh
    let p := toBe32 (pr % 2 ^ 31) ++ h
    if pad ≠ 0 then (addFlag fl Gen.c_FlagPadded true, addPadding p pad) else (fl, p)
  | .ping ack d => (addFlag fl Gen.c_FlagAck ack, d)
  | .goAway last code dbg => (fl, toBe32 last ++ toBe32 code ++ dbg)
  | .windowUpdate inc => (fl, toBe32 inc)
  | .continuation eh raw => (addFlag fl Gen.c_FlagEndHeaders eh, raw)

/-- octets written by `WriteTo` -/
def write (fl stream pad : Nat) (f : WFrame) : Bytes :=
  let (fl', p) := serialize fl pad f
  header p.length f.typ fl' stream ++ p

/-- the body the caller described -/
def WFrame.want : WFrame → Body
  | .data es b => .data es b
  | .headers es eh prio raw => .headers es eh prio raw
  | .priority dep w => .priority dep w
  | .rstStream code => .rstStream code
  | .settings ack ts push ms ws fs hs =>
    .settings { ack := ack, tableSize := ts, enablePush := push, maxStreams := ms, windowSize := ws,
                frameSize := fs, headerSize := hs }
  | .pushPromise pr eh h => .pushPromise (pr % 2 ^ 31) eh h
  | .ping ack d => .ping ack d
  | .goAway last code dbg => .goAway last code dbg
  | .windowUpdate inc => .windowUpdate inc
  | .continuation eh raw => .continuation eh raw

/-- SETTINGS values compare by what they establish, not by the pairs that carried them -/
def sameBody : Body → Body → Bool
  | .settings a, .settings b =>
    a.ack == b.ack && (a.ack || (a.tableSize == b.tableSize && a.enablePush == b.enablePush && a.maxStreams == b.maxStreams &&
    a.windowSize == b.windowSize && a.frameSize == b.frameSize && a.headerSize == b.headerSize))
  | a, b => a == b

end H2.Frame
