import H2.Frame.Model
import H2.Frame.Spec
import H2.Frame.Write
import H2.Pool
/-! Line-protocol operations of the Frame area (driver side).

```
frame.parse max=<n> <hex>   → <readFrame result> consumed=<n> pool=<counts> anom=<list> :: spec=<Spec.parse result>
frame.reuse max=<n> <hex>   → reuse=<0|1>
frame.spec max=<n> <hex>    → <Spec.parse result> sendwf=<0|1>
frame.write <TYPE> s=<n> fl=<n> pad=<n> k=v …  → ok <hex> :: want=<canonical frame>
    (pad: 0 = no padding, else the pad length `AddPadding` draws; PUSH_PROMISE: promised=<id> eh=<0|1> frag=<hex>)
```
-/
namespace H2.Frame.Drv

structure State where
  dummy : Nat := 0

def State.init : State := {}

def b01 (b : Bool) : String := if b then "1" else "0"

def showSettings (s : SettingsVal) : String :=
  s!"SETTINGS ack={b01 s.ack} ts={s.tableSize} push={b01 s.enablePush} mcs={s.maxStreams} ws={s.windowSize} fs={s.frameSize} hs={s.headerSize}"

def showBody : Body → String
  | .data es d => s!"DATA es={b01 es} data={hexOrDash d}"
  | .headers es eh prio frag =>
    let p := match prio with | some (d, w) => s!"{d}/{w}" | none => "-"
    s!"HEADERS es={b01 es} eh={b01 eh} prio={p} frag={hexOrDash frag}"
  | .priority dep w => s!"PRIORITY dep={dep} w={w}"
  | .rstStream c => s!"RST_STREAM code={c}"
  | .settings s => showSettings s
  | .pushPromise pr eh frag => s!"PUSH_PROMISE promised={pr} eh={b01 eh} frag={hexOrDash frag}"
  | .ping ack d => s!"PING ack={b01 ack} data={hexOrDash d}"
  | .goAway last code dbg => s!"GOAWAY last={last} code={code} debug={hexOrDash dbg}"
  | .windowUpdate inc => s!"WINDOW_UPDATE inc={inc}"
  | .continuation eh frag => s!"CONTINUATION eh={b01 eh} frag={hexOrDash frag}"

def showFrame (f : Frame) : String :=
  s!"{showBody f.body} s={f.stream} fl={f.flags} len={f.length}"

def showErr : ErrKind → String
  | .io => "io"
  | .tooLarge => "too-large"
  | .goAway c => s!"goaway:{c}"
  | .other c => s!"stream:{c}"
  | .plain => "plain"

def showRead : ReadRes → String
  | .ok f c => s!"ok {showFrame f} consumed={c}"
  | .unknownType _ c => s!"unknown consumed={c}"
  | .err k c => s!"err {showErr k} consumed={c}"

def showSpec : Spec.Res → String
  | .incomplete => "incomplete"
  | .frame f rest => s!"frame {showFrame f} rest={rest.length}"
  | .ignored t l rest => s!"ignored t={t} len={l} rest={rest.length}"
  | .malformed c => s!"malformed code={c}"

def showPool (p : Pool.Path) : String :=
  let evs := Pool.pathEvents p
  let c := Pool.count evs
  let t := Pool.check evs
  let late := (Pool.check (evs ++ Pool.callerRelease p)).anomalies.drop t.anomalies.length
  let an := t.anomalies ++ late.map ("late:" ++ ·)
  s!"pool={c (.acquire .fh)}.{c (.acquire .body)}.{c (.release .fh)}.{c (.release .body)} anom={if an.isEmpty then "-" else ",".intercalate an}"

def kv (args : List String) (k : String) : Option String :=
  args.findSome? fun a => if a.startsWith (k ++ "=") then some ((a.drop (k.length + 1)).toString) else none

def kvNat (args : List String) (k : String) : Nat := ((kv args k).bind String.toNat?).getD 0
def kvHex (args : List String) (k : String) : Bytes := ((kv args k).bind fromHex).getD []
def kvBool (args : List String) (k : String) : Bool := kvNat args k != 0

/-- `max=<n>`: `ReadFrameFromWithSize(br, n)`; `max=d`: `ReadFrameFrom(br)` (the header's default limit) -/
def maxOf (tok : String) : Nat :=
  if tok == "max=d" then Gen.c_defaultMaxLen else kvNat [tok] "max"

def parseW (t : String) (a : List String) : Option WFrame :=
  match t with
  | "DATA" => some (.data (kvBool a "es") (kvHex a "data"))
  | "HEADERS" =>
    some (.headers (kvBool a "es") (kvBool a "eh") (if kvBool a "prio" then some (kvNat a "dep", kvNat a "w") else none) (kvHex a "frag"))
  | "PRIORITY" => some (.priority (kvNat a "dep") (kvNat a "w"))
  | "RST_STREAM" => some (.rstStream (kvNat a "code"))
  | "SETTINGS" =>
    some (.settings (kvBool a "ack") (kvNat a "ts") (kvBool a "push") (kvNat a "mcs") (kvNat a "ws") (kvNat a "fs") (kvNat a "hs"))
  | "PUSH_PROMISE" => some (.pushPromise (kvNat a "promised") (kvBool a "eh") (kvHex a "frag"))
  | "PING" => some (.ping (kvBool a "ack") (kvHex a "data"))
  | "GOAWAY" => some (.goAway (kvNat a "last") (kvNat a "code") (kvHex a "debug"))
  | "WINDOW_UPDATE" => some (.windowUpdate (kvNat a "inc"))
  | "CONTINUATION" => some (.continuation (kvBool a "eh") (kvHex a "frag"))
  | _ => none

/-- `args` is the whole line split on spaces; `args.head!` is the operation name -/
def step (st : State) (args : List String) : State × String :=
  match args with
  | ["frame.parse", m, h] =>
    match fromHex h with
    | some b =>
      let max := maxOf m
      (st, s!"{showRead (readFrame max b)} {showPool (Pool.path max b)} :: spec={showSpec (Spec.parse max b)}")
    | none => (st, "bad-op")
  | ["frame.reuse", m, h] =>
    match fromHex h with
    | some b =>
      let max := maxOf m
      (st, s!"reuse={b01 (Pool.bodyFreeTwice (Pool.readEvents max b))}")
    | none => (st, "bad-op")
  | ["frame.spec", m, h] =>
    match fromHex h with
    | some b =>
      (st, s!"{showSpec (Spec.parse (maxOf m) b)} sendwf={b01 (Spec.sendWF b)}")
    | none => (st, "bad-op")
  | "frame.write" :: t :: a =>
    match parseW t a with
    | some w =>
      let s := kvNat a "s"
      let fl := kvNat a "fl"
      let bytes := write fl s (kvNat a "pad") w
      let (fl', p) := serialize fl (kvNat a "pad") w
      (st, s!"ok {hexOrDash bytes} :: want={showFrame ⟨w.typ, fl', s, p.length, w.want⟩}")
    | none => (st, "bad-op")
  | _ => (st, "bad-op")

end H2.Frame.Drv
