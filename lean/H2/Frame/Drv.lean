import H2.Base
/-! Line-protocol operations of the Frame area (driver side). -/
namespace H2.Frame.Drv

structure State where
  dummy : Nat := 0

def State.init : State := {}

/-- `args` is the whole line split on spaces; `args.head!` is the operation name -/
def step (st : State) (args : List String) : State × String := (st, "bad-op")

end H2.Frame.Drv
