import H2.Frame.Model
/-!
# Pool discipline of the frame read path

`ReadFrameFrom` / `ReadFrameFromWithSize` take a `FrameHeader` from `frameHeaderPool`, `readFrom`
takes a body from `framePools[type]`; on every error return the objects go back to their pools.
`readEvents max b` is the sequence of acquire/release events along the return path the input selects
(the same case split as `Frame.readFrame`). `check` is the ownership tracker of `hooks_verif.go`:
an object is held or free; releasing a free object is `double-release`, acquiring a held one is
`two-owners`.
-/
namespace H2.Pool

inductive Obj where
  | fh    -- the *FrameHeader
  | body  -- the Frame stored in fh.fr
deriving Repr, DecidableEq

inductive Ev where
  | acquire (o : Obj)
  | release (o : Obj)
deriving Repr, DecidableEq

/-- which return path of `ReadFrameFromWithSize` the input takes -/
inductive Path where
  | noHeader      -- Peek(9) failed
  | tooLarge      -- checkLen failed
  | unknownType
  | shortPayload  -- io.ReadFull failed
  | deserErr      -- Deserialize returned an error
  | ok
deriving Repr, DecidableEq

open H2.Frame in
def path (max : Nat) (b : Bytes) : Path :=
  if b.length < 9 then .noHeader
  else
    let len := be24 b
    let typ := b.getD 3 0
    if max ≠ 0 && len > max then .tooLarge
    else if typ > Gen.c_FrameContinuation then .unknownType
    else if (b.drop 9).length < len then .shortPayload
    else match deserialize typ (b.getD 4 0) ((b.drop 9).take len) with
      | .inl _ => .ok
      | .inr _ => .deserErr

/-- events up to the return of `ReadFrameFromWithSize` -/
def pathEvents : Path → List Ev
  | .noHeader | .tooLarge | .unknownType => [.acquire .fh, .release .fh]          -- Body() == nil: bare Put
  | .shortPayload => [.acquire .fh, .acquire .body, .release .body, .release .fh]  -- ReleaseFrameHeader
  | .deserErr => [.acquire .fh, .acquire .body, .release .body, .release .fh]
  | .ok => [.acquire .fh, .acquire .body]

def readEvents (max : Nat) (b : Bytes) : List Ev := pathEvents (path max b)

/-- what the caller does with a frame it was handed: `ReleaseFrameHeader(fr)` -/
def callerRelease : Path → List Ev
  | .ok => [.release .body, .release .fh]
  | _ => []

structure Tracker where
  heldFh : Bool := false
  heldBody : Bool := false
  anomalies : List String := []
deriving Repr, DecidableEq

def Tracker.step (t : Tracker) : Ev → Tracker
  | .acquire .fh => { t with heldFh := true, anomalies := if t.heldFh then t.anomalies ++ ["two-owners-frameHeader"] else t.anomalies }
  | .acquire .body => { t with heldBody := true, anomalies := if t.heldBody then t.anomalies ++ ["two-owners-frame"] else t.anomalies }
  | .release .fh => { t with heldFh := false, anomalies := if t.heldFh then t.anomalies else t.anomalies ++ ["double-release-frameHeader"] }
  | .release .body => { t with heldBody := false, anomalies := if t.heldBody then t.anomalies else t.anomalies ++ ["double-release-frame"] }

def check (evs : List Ev) : Tracker := evs.foldl Tracker.step {}

def count (evs : List Ev) (e : Ev) : Nat := (evs.filter (· == e)).length

/-- after the read path has run, is the body in its pool more than once? (a pool that hands out what
was put in: two `Get`s then return the same object) -/
def bodyFreeTwice (evs : List Ev) : Bool := count evs (.release .body) > count evs (.acquire .body)

/-- octets `readFrom` asks `http2utils.Resize` for (the only allocation of the read path that depends on the input):
the announced length, and only once the length check has passed and the type is known -/
def alloc (max : Nat) (b : Bytes) : Nat :=
  match path max b with
  | .shortPayload | .deserErr | .ok => be24 b
  | _ => 0

end H2.Pool
