def hello := "world"
