import H2.Base
/-!
# Client — who holds a request's ownership lock (`Ctx.lck`), and who asks for it (C12, finding F46)

`Ctx.lck` is a plain `sync.Mutex`: a goroutine that asks for a lock it already holds never gets it.
The model follows one request: the goroutines that ever take its lock are the read loop (`dispatch`
→ `readStream` → `finish`), the write loop (`writeRequest`, `sendPending`), the timer (`cancel` →
`deletePending`) and the caller (`takeBack`). Each is a small program; the lock records its holder.
`streamed` says the request has a streamed body still pending, which is when `deletePending` goes for
the lock in order to close the stream.

`fixed = false` is the code before fix F46: `finish` called `deletePending`, and `writeRequest`'s
write-error path called it with the lock still held.
-/
namespace H2.Client.Locks

inductive Actor | rd | wl | timer | caller
deriving DecidableEq, Repr

inductive RdPc | idle | holding | finishing | releasing
deriving DecidableEq, Repr

inductive WlPc | idle | holding | failed | failedReleased | sending | sendHolding
deriving DecidableEq, Repr

structure S where
  holder : Option Actor := none
  rd : RdPc := .idle
  wl : WlPc := .idle
  streamed : Bool := true          -- a streamed body is pending on the stream
deriving DecidableEq, Repr

/-- the lock the actor's next action must acquire, if any -/
def wants (fixed : Bool) (s : S) : Actor → Bool
  | .rd => s.rd = .idle ∨ (!fixed ∧ s.rd = .finishing ∧ s.streamed)
  | .wl => s.wl = .idle ∨ s.wl = .sending ∨ (s.wl = .failedReleased ∧ s.streamed) ∨ (!fixed ∧ s.wl = .failed ∧ s.streamed)
  | .timer => s.streamed
  | .caller => true

inductive Step (fixed : Bool) : S → S → Prop
  /- read loop: `dispatch` takes the request, `readStream`, `finish`, `release` -/
  | rdAcquire (s) : s.rd = .idle → s.holder = none → Step fixed s { s with rd := .holding, holder := some .rd }
  | rdToFinish (s) : s.rd = .holding → Step fixed s { s with rd := .finishing }
  | rdNoFinish (s) : s.rd = .holding → Step fixed s { s with rd := .releasing }
  /- fixed: the pending body is dropped under the lock already held -/
  | rdFinishFixed (s) : fixed = true → s.rd = .finishing → Step fixed s { s with rd := .releasing, streamed := false }
  /- before the fix: `deletePending` asks for the lock (only needed for a streamed body) -/
  | rdFinishOldPlain (s) : fixed = false → s.rd = .finishing → s.streamed = false → Step fixed s { s with rd := .releasing }
  | rdFinishOldLock (s) : fixed = false → s.rd = .finishing → s.streamed = true → s.holder = none →
      Step fixed s { s with rd := .releasing, streamed := false }
  | rdRelease (s) : s.rd = .releasing → s.holder = some .rd → Step fixed s { s with rd := .idle, holder := none }
  /- write loop: `writeRequest` takes the request; the write succeeds or fails -/
  | wlAcquire (s) : s.wl = .idle → s.holder = none → Step fixed s { s with wl := .holding, holder := some .wl }
  | wlWriteOk (s) : s.wl = .holding → s.holder = some .wl → Step fixed s { s with wl := .sending, holder := none }
  | wlWriteFail (s) : s.wl = .holding → Step fixed s { s with wl := .failed }
  | wlFailRelease (s) : fixed = true → s.wl = .failed → s.holder = some .wl → Step fixed s { s with wl := .failedReleased, holder := none }
  | wlFailDelete (s) : s.wl = .failedReleased → s.holder = none → Step fixed s { s with wl := .idle, streamed := false }
  | wlFailDeletePlain (s) : (s.wl = .failedReleased ∨ (fixed = false ∧ s.wl = .failed)) → s.streamed = false →
      Step fixed s { s with wl := .idle, holder := if s.holder = some .wl then none else s.holder }
  | wlFailDeleteOld (s) : fixed = false → s.wl = .failed → s.streamed = true → s.holder = none → Step fixed s { s with wl := .idle, streamed := false }
  /- `sendPending`: takes the request for each run of DATA frames -/
  | wlSendAcquire (s) : s.wl = .sending → s.holder = none → Step fixed s { s with wl := .sendHolding, holder := some .wl }
  | wlSendRelease (s) : s.wl = .sendHolding → s.holder = some .wl → Step fixed s { s with wl := .sending, holder := none }
  | wlSendDone (s) : s.wl = .sending → Step fixed s { s with wl := .idle }
  /- timer: `cancel` → `deletePending` takes and releases the lock in one go -/
  | timerCancel (s) : s.streamed = true → s.holder = none → Step fixed s { s with streamed := false }
  /- caller: `takeBack` -/
  | callerTakeBack (s) : s.holder = none → Step fixed s s

inductive Reach (fixed : Bool) : S → Prop
  | init : Reach fixed {}
  | step {s s'} : Reach fixed s → Step fixed s s' → Reach fixed s'

/-- an actor is stuck on itself: it asks for the lock it holds -/
def SelfLocked (fixed : Bool) (s : S) : Prop := ∃ a, wants fixed s a = true ∧ s.holder = some a

end H2.Client.Locks
