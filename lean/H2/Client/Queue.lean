import H2.Base
/-!
# Client — the control-frame queue `c.out`, the request lock, and who waits for whom (C12, findings F83, F84)

`c.out` is a bounded channel (128 entries in the code, `cap` here). The read loop and the timers put
frames into it (`writeOut` blocks while it is full); the write loop is the only goroutine that takes
frames out. A request's ownership lock (`Ctx.lck`) is taken by the read loop for the time of
`dispatch` and by the write loop in `sendPending`. A peer that is slow to read makes the write loop
fall behind; the model asks what happens once the queue is full and the peer reads again (every write
completes: `wlTake`, `wlSend` are never held up by the transport).

Two places of the code before the fixes let a loop wait *for the queue* in a position where the write
loop could not empty it:

* F83 (`creditUnderLock = true`): `readStream` queued the stream's WINDOW_UPDATE while `dispatch`
  still held the request; the write loop, in `sendPending` for the same stream, asks for that lock.
* F84 (`rstQueued = true`): when reading a streamed body failed, `sendPending`, i.e. the write loop
  itself, queued the RST_STREAM.

The repaired code (`creditUnderLock = false`, `rstQueued = false`) notes the credit and queues it
after the request has been released, and writes the RST_STREAM directly.
-/
namespace H2.Client.Queue

structure Cfg where
  cap : Nat
  creditUnderLock : Bool   -- F83 before the fix
  rstQueued : Bool         -- F84 before the fix
deriving DecidableEq, Repr

/-- the repaired code -/
def Cfg.fixed (cap : Nat) : Cfg := ⟨cap, false, false⟩

inductive Holder | rd | wl
deriving DecidableEq, Repr

/-- read loop: between frames; inside `dispatch` with the request held; about to queue the credit of a
DATA frame (with or without the request held); done with the frame, request still to be released -/
inductive RdPc | idle | holding | creditHeld | creditFree | releasing
deriving DecidableEq, Repr

/-- write loop: in its `select`; in `sendPending` asking for the request; sending with the request
held; (before F84's fix) about to queue a RST_STREAM -/
inductive WlPc | idle | wantLock | sending | queueRst
deriving DecidableEq, Repr

structure S where
  q : Nat := 0                      -- frames in `c.out`
  holder : Option Holder := none    -- the request's lock
  rd : RdPc := .idle
  wl : WlPc := .idle
deriving DecidableEq, Repr

inductive Step (k : Cfg) : S → S → Prop
  /- read loop, connection-level frame that asks for a reply (PING, SETTINGS): `writeOut` -/
  | rdReply (s) : s.rd = .idle → s.q < k.cap → Step k s { s with q := s.q + 1 }
  /- read loop, stream frame: `dispatch` takes the request -/
  | rdAcquire (s) : s.rd = .idle → s.holder = none → Step k s { s with rd := .holding, holder := some .rd }
  /- a frame that earns no credit (HEADERS, RST_STREAM, empty DATA) -/
  | rdPlain (s) : s.rd = .holding → Step k s { s with rd := .releasing }
  /- DATA: before the fix the WINDOW_UPDATE is queued right here, under the lock -/
  | rdDataOld (s) : k.creditUnderLock = true → s.rd = .holding → Step k s { s with rd := .creditHeld }
  | rdQueueHeld (s) : s.rd = .creditHeld → s.q < k.cap → Step k s { s with rd := .releasing, q := s.q + 1 }
  /- DATA, repaired: the credit is noted, the request released, then the frame is queued -/
  | rdDataNew (s) : k.creditUnderLock = false → s.rd = .holding → s.holder = some .rd →
      Step k s { s with rd := .creditFree, holder := none }
  | rdQueueFree (s) : s.rd = .creditFree → s.q < k.cap → Step k s { s with rd := .idle, q := s.q + 1 }
  | rdRelease (s) : s.rd = .releasing → s.holder = some .rd → Step k s { s with rd := .idle, holder := none }
  /- write loop: takes a frame off the queue and writes it -/
  | wlTake (s) : s.wl = .idle → 0 < s.q → Step k s { s with q := s.q - 1 }
  /- a send window has opened: `flushPending` → `sendPending` → `acquireFor` -/
  | wlWindow (s) : s.wl = .idle → Step k s { s with wl := .wantLock }
  | wlAcquire (s) : s.wl = .wantLock → s.holder = none → Step k s { s with wl := .sending, holder := some .wl }
  /- the DATA frames are written, the request released -/
  | wlSend (s) : s.wl = .sending → s.holder = some .wl → Step k s { s with wl := .idle, holder := none }
  /- the body's reader failed: the stream is reset. Before the fix through the queue … -/
  | wlReadFailOld (s) : k.rstQueued = true → s.wl = .sending → s.holder = some .wl →
      Step k s { s with wl := .queueRst, holder := none }
  | wlQueueRst (s) : s.wl = .queueRst → s.q < k.cap → Step k s { s with wl := .idle, q := s.q + 1 }
  /- … repaired: written directly -/
  | wlReadFailNew (s) : k.rstQueued = false → s.wl = .sending → s.holder = some .wl →
      Step k s { s with wl := .idle, holder := none }

inductive Reach (k : Cfg) : S → Prop
  | init : Reach k {}
  | step {s s'} : Reach k s → Step k s s' → Reach k s'

/-- nothing can move although the peer takes every octet: both loops wait, for ever -/
def Dead (k : Cfg) (s : S) : Prop := ∀ s', ¬ Step k s s'

/-- finitely many steps -/
inductive Steps (k : Cfg) : S → S → Prop
  | refl (s) : Steps k s s
  | tail {s t u} : Steps k s t → Step k t u → Steps k s u

end H2.Client.Queue
