import H2.Client.Model
/-!
# Client halves of C14 / C18 / C20: what the read loop does with DATA, SETTINGS and response header lists

Definitions only (the theorems are in `H2/Props/C14c.lean`, `C18c.lean`, `C20c.lean`).
-/
namespace H2.Client

/-- `readHeader`'s decisions over an already decoded field list (the HPACK layer is C03's) -/
def fieldLoop (r : Req) (regularSeen statusSeen : Bool) : List (Bytes × Bytes) → Option (Req × Bool)
  | [] => some (r, statusSeen)
  | (k, v) :: rest =>
    match fieldStep r regularSeen statusSeen k v with
    | none => none
    | some (r', rs, ss) => fieldLoop r' rs ss rest

/-- a complete response header block carried by one HEADERS frame is delivered iff the field loop accepts
it and it carried `:status` (the check `dispatch` makes when the stream ends) -/
def delivered (hs : List (Bytes × Bytes)) : Bool :=
  match fieldLoop {tag := ""} false false hs with
  | some (_, ss) => ss
  | none => false

/-- RFC 7540 §8.1.2 for responses, as the property text puts it: a single valid `:status` first, then
only regular fields: lower-case names, none connection-specific, `content-length` a number -/
def validStatus (v : Bytes) : Bool :=
  -- three octets that `parseUint` reads as a number (so: decimal digits) of at least 100
  match parseUint v with
  | some n => v.length == 3 && decide (100 ≤ n)
  | none => false

def regularOk (kv : Bytes × Bytes) : Bool :=
  !isPseudo kv.1 && !hasUpperCase kv.1 && !isConnectionSpecific kv.1 &&
  (kv.1 != Gen.s_StringContentLength || (parseUint kv.2).isSome)

def WFResponse : List (Bytes × Bytes) → Bool
  | [] => false
  | (k, v) :: rest => k == Gen.s_StringStatus && validStatus v && rest.all regularOk

/-- octets of the connection receive window handed back by the WINDOW_UPDATE frames queued -/
def connCredit (fs : List OutFrame) : Nat :=
  (fs.map fun f => match f with
    | .windowUpdate sid inc => if sid = 0 then inc else 0
    | _ => 0).sum

end H2.Client
