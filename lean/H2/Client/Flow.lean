import H2.Client.Model
/-!
# Client — interleaving model of the send-window protocol (C07)

Two goroutines share `connWindow`, `streamWindow` and the `pending` map under `sendLck`: the read loop
grows windows (`addWindow`, `applyInitialWindow`) and nudges the write loop through `winCh` (capacity
one), the write loop spends them (`sendPending`) and registers new bodies (`writeRequest`). The atomic
actions below are exactly those critical sections and channel operations; any finite sequence of them
is an interleaving. The arithmetic is the one of the serial model (`spendN`, `addWin`, `wrap32`).

Ghost state (never read by an action's guard or effect on real state): `allow`/`connAllow` are the exact
integer allowances of the RFC 7540 ledger kept by an imaginary server (DESIGN D3), `used`, `ended`.
-/
namespace H2.Client.Flow

open H2.Client

/-- a `pendingBody` with its ledger -/
structure PB where
  window : Int            -- pb.window, an int32
  body : Nat              -- octets buffered and not yet let out
  more : Bool             -- a streamed body that has not reported its end
  allow : Int             -- ghost: what the server's ledger still allows on this stream
deriving Repr

def PB.hasMore (pb : PB) : Bool := pb.body > 0 || pb.more

structure S where
  pending : Nat → Option PB
  connWindow : Int := Gen.c_defaultWindowSize
  connAllow : Int := Gen.c_defaultWindowSize      -- ghost
  streamWindow : Int := Gen.c_defaultWindowSize   -- c.streamWindow = the server's INITIAL_WINDOW_SIZE
  winTok : Bool := false                           -- a token sits in winCh
  todo : List Nat := []                            -- streams the write loop is still going to run sendPending on
  used : Nat → Bool                                -- ghost: stream ids already opened
  ended : Nat → Bool                               -- ghost: END_STREAM written

def init : S := { pending := fun _ => none, used := fun _ => false, ended := fun _ => false }

def setP (s : S) (id : Nat) (v : Option PB) : S := { s with pending := fun j => if j = id then v else s.pending j }

@[simp] theorem setP_pending (s : S) (id : Nat) (v : Option PB) (j : Nat) :
    (setP s id v).pending j = if j = id then v else s.pending j := rfl
@[simp] theorem setP_connWindow (s : S) (id : Nat) (v : Option PB) : (setP s id v).connWindow = s.connWindow := rfl
@[simp] theorem setP_connAllow (s : S) (id : Nat) (v : Option PB) : (setP s id v).connAllow = s.connAllow := rfl
@[simp] theorem setP_streamWindow (s : S) (id : Nat) (v : Option PB) : (setP s id v).streamWindow = s.streamWindow := rfl
@[simp] theorem setP_winTok (s : S) (id : Nat) (v : Option PB) : (setP s id v).winTok = s.winTok := rfl
@[simp] theorem setP_todo (s : S) (id : Nat) (v : Option PB) : (setP s id v).todo = s.todo := rfl
@[simp] theorem setP_used (s : S) (id : Nat) (v : Option PB) : (setP s id v).used = s.used := rfl
@[simp] theorem setP_ended (s : S) (id : Nat) (v : Option PB) : (setP s id v).ended = s.ended := rfl

/-- what one pass of `sendPending`'s locked section lets out -/
def spend (pb : PB) (cw : Int) : Nat := spendN pb.body pb.window cw

inductive Act where
  /-- `writeRequest`: the body is registered with the current initial window (read under `sendLck`,
      see finding F48), then `sendPending(id)` -/
  | wlRegister (id body : Nat) (more : Bool)
  /-- `flushPending`: the write loop takes the token and snapshots the pending ids, in any order -/
  | wlTakeTok (ids : List Nat)
  /-- the locked section of `sendPending` on the stream at the head of the work list -/
  | wlSpend
  /-- `sendPending` finds the stream gone -/
  | wlSkip
  /-- `refillPending`: `k` octets read, `more'` = the reader may have more -/
  | wlRefill (k : Nat) (more' : Bool)
  /-- the refill failed: the body is forgotten -/
  | wlRefillFail
  /-- `addWindow(id, inc)` on WINDOW_UPDATE -/
  | rdWindowUpdate (id inc : Nat)
  /-- `addWindow(0, inc)` -/
  | rdConnWindowUpdate (inc : Nat)
  /-- `applyInitialWindow(v)` on SETTINGS -/
  | rdSettingsWindow (v : Nat)
  /-- `finish` / `cancel`: the body of a stream that is over is dropped -/
  | drop (id : Nat)

/-- one DATA emission decided under the lock: stream, octets, END_STREAM, and the ledger at that moment -/
structure Emit where
  id : Nat
  n : Nat
  endStream : Bool
  allowBefore : Int
  connAllowBefore : Int
deriving DecidableEq, Repr

/-- state after the locked section of `sendPending` on stream `id` (head of the work list, rest = `rest`) -/
def spendState (s : S) (id : Nat) (rest : List Nat) (pb : PB) : S :=
  let n := spend pb s.connWindow
  let pb' : PB := { pb with window := pb.window - n, body := pb.body - n, allow := pb.allow - n }
  let endS := !pb'.hasMore
  { setP s id (if endS then none else some pb') with
    connWindow := s.connWindow - n, connAllow := s.connAllow - n
    todo := if endS || n = 0 then rest else id :: rest
    ended := fun j => if j = id then (s.ended j || endS) else s.ended j }

/-- the DATA it decides to write, if any -/
def spendEmit (s : S) (id : Nat) (pb : PB) : Option Emit :=
  let n := spend pb s.connWindow
  let pb' : PB := { pb with window := pb.window - n, body := pb.body - n, allow := pb.allow - n }
  let endS := !pb'.hasMore
  if n = 0 && !endS then none else some ⟨id, n, endS, pb.allow, s.connAllow⟩

inductive Step : S → Act → S → Option Emit → Prop
  | wlRegister (s id body more) :
      s.todo = [] → s.used id = false → (body > 0 ∨ more = true) →
      Step s (.wlRegister id body more)
        { setP s id (some { window := s.streamWindow, body := body, more := more, allow := s.streamWindow }) with
          todo := [id], used := fun j => if j = id then true else s.used j } none
  | wlTakeTok (s ids) :
      s.todo = [] → s.winTok = true → (∀ id, (s.pending id).isSome → id ∈ ids) →
      Step s (.wlTakeTok ids) { s with winTok := false, todo := ids } none
  | wlSpend (s id rest pb) :
      s.todo = id :: rest → s.pending id = some pb → ¬ (pb.body = 0 ∧ pb.more = true) →
      Step s .wlSpend (spendState s id rest pb) (spendEmit s id pb)
  | wlSkip (s id rest) :
      s.todo = id :: rest → s.pending id = none → Step s .wlSkip { s with todo := rest } none
  | wlRefill (s id rest pb k more') :
      s.todo = id :: rest → s.pending id = some pb → pb.body = 0 → pb.more = true → (k > 0 ∨ more' = false) →
      Step s (.wlRefill k more') (setP s id (some { pb with body := k, more := more' })) none
  | wlRefillFail (s id rest pb) :
      s.todo = id :: rest → s.pending id = some pb → pb.body = 0 → pb.more = true →
      Step s .wlRefillFail { setP s id none with todo := rest } none
  | rdWindowUpdate (s id inc) : inc < 2 ^ 31 →
      Step s (.rdWindowUpdate id inc)
        { s with winTok := true
                 pending := fun j => if j = id then (s.pending j).map fun pb =>
                   { pb with window := addWin pb.window inc, allow := pb.allow + inc } else s.pending j } none
  | rdConnWindowUpdate (s inc) : inc < 2 ^ 31 →
      Step s (.rdConnWindowUpdate inc)
        { s with winTok := true, connWindow := addWin s.connWindow inc, connAllow := s.connAllow + inc } none
  | rdSettingsWindow (s v) : v < 2 ^ 31 →
      Step s (.rdSettingsWindow v)
        { s with winTok := true, streamWindow := v
                 pending := fun j => (s.pending j).map fun pb =>
                   { pb with window := wrap32 (pb.window + wrap32 ((v : Int) - s.streamWindow)),
                             allow := pb.allow + ((v : Int) - s.streamWindow) } } none
  | drop (s id) : Step s (.drop id) (setP s id none) none

/-- reachable states with the list of emissions so far (newest first) -/
inductive Reach : S → List Emit → Prop
  | init : Reach init []
  | step {s a s'} {e : Option Emit} {es} : Reach s es → Step s a s' e → Reach s' (e.toList ++ es)

/-! ## the registration as it was before fix F48

`writeRequest` read `c.streamWindow` while building the `pendingBody`, outside `sendLck`, and only then
took the lock to put the body in the map. The read and the registration are two atomic actions here;
the second component of the state is the value the write loop read. -/

def registerWith (s : S) (id body : Nat) (more : Bool) (w : Int) : S :=
  { setP s id (some { window := w, body := body, more := more, allow := s.streamWindow }) with
    todo := [id], used := fun j => if j = id then true else s.used j }

inductive StepOld : S × Option Int → S × Option Int → Option Emit → Prop
  | std {s a s' e w} : Step s a s' e → StepOld (s, w) (s', w) e
  | readSW (s w) : s.todo = [] → StepOld (s, w) (s, some s.streamWindow) none
  | registerStale (s id body more w) : s.todo = [] → s.used id = false → (body > 0 ∨ more = true) →
      StepOld (s, some w) (registerWith s id body more w, none) none

inductive ReachOld : S × Option Int → List Emit → Prop
  | init : ReachOld (init, none) []
  | step {s s'} {e : Option Emit} {es} : ReachOld s es → StepOld s s' e → ReachOld s' (e.toList ++ es)

end H2.Client.Flow
