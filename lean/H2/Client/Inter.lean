import H2.Base
/-!
# Client — interleaving model of request resolution (C12, C11)

Goroutines: any number of callers in `Conn.Write` / `RoundTrip` (one per request), the write loop
(`runWriteLoop` and the teardown in `writeLoop`), whoever calls `Close`, the read loop (`finish`), the
`MaxResponseTime` timers. The atomic actions are the channel operations (`in`, `done`, each request's
`Err` of capacity one) and the sections under `reqLck` / `resLck` / `lastErrLck`. Requests form an
unbounded family indexed by `Nat`.

What a resolution carries is abstracted to three classes (`Val`): success, an error `retryable`
accepts (ErrConnectionClosed, ErrNotAvailableStreams), any other error. A written request is resolved with a
retryable error in one place only: `afterGoAway`, for a stream the server's GOAWAY disclaimed (`refuse`).
-/
namespace H2.Client.Inter

inductive Pc | start | recheck | waiting | taking | got
deriving DecidableEq, Repr

inductive Wl | running | stopping | erred | closing | draining | exited
deriving DecidableEq, Repr

inductive Val | ok | retryable | fatal
deriving DecidableEq, Repr

structure Req where
  pc : Pc := .start
  inQ : Bool := false             -- sitting in `c.in`
  inTable : Bool := false         -- in `reqQueued`
  written : Bool := false         -- ghost: its HEADERS went on the wire
  disclaimed : Bool := false      -- ghost: the server's GOAWAY left its stream out (above last-stream-id)
  errBuf : Option Val := none     -- content of `ctx.Err`
  ever : Bool := false            -- ghost: some resolve took effect
  result : Option Val := none     -- ghost: what the caller read
  reads : Nat := 0                -- ghost: how many values the caller read

structure S where
  r : Nat → Req
  done : Bool := false            -- `c.done` closed
  lastErr : Bool := false         -- `c.lastErr` set
  wl : Wl := .running

def init : S := { r := fun _ => {} }

def upd (s : S) (i : Nat) (f : Req → Req) : S := { s with r := fun j => if j = i then f (s.r j) else s.r j }

/-- `Ctx.resolve`: non-blocking send into `Err` (capacity one), dropped once `takeBack` has run -/
def res (q : Req) (v : Val) : Req :=
  if q.pc = .got ∨ q.errBuf.isSome then q else { q with errBuf := some v, ever := true }

/-- `closeErr()`: the recorded reason, else `ErrConnectionClosed` -/
def closeVal (s : S) : Val := if s.lastErr then .fatal else .retryable

inductive Act
  | seeDone (i : Nat) | enqueue (i : Nat) | recheck (i : Nat) | read (i : Nat) | takeBack (i : Nat)
  | wlTakeWrite (i : Nat) | wlTakeReject (i : Nat) | wlTakeSkip (i : Nat) | wlWriteFail (i : Nat)
  | wlBodyFail (i : Nat) | wlFail
  | wlSeeDone | wlSetErr | wlClose | wlTakeAll | wlDrainOne (i : Nat) | wlDrainEnd
  | close | rdSetErr | finish (i : Nat) (v : Val) | refuse (i : Nat) (v : Val) | timer (i : Nat)

/-- `recheckVal s`: what `Write`'s second select resolves with. After fix F42 it is never an error that
reads as "nothing was sent". -/
inductive Step (recheckVal : S → Val) : S → Act → S → Prop
  /- `Write`: the early check, or the first select picking `done` -/
  | seeDone (s i) : (s.r i).pc = .start → s.done = true →
      Step recheckVal s (.seeDone i) (upd s i fun q => { res q (closeVal s) with pc := .waiting })
  /- the first select picking the send (possible whether or not `done` is closed) -/
  | enqueue (s i) : (s.r i).pc = .start →
      Step recheckVal s (.enqueue i) (upd s i fun q => { q with inQ := true, pc := .recheck })
  | recheckD (s i) : (s.r i).pc = .recheck → s.done = true →
      Step recheckVal s (.recheck i) (upd s i fun q => { res q (recheckVal s) with pc := .waiting })
  | recheckN (s i) : (s.r i).pc = .recheck → s.done = false →
      Step recheckVal s (.recheck i) (upd s i fun q => { q with pc := .waiting })
  /- `RoundTrip`: `err = <-ctx.Err`, then `takeBack` -/
  | read (s i v) : (s.r i).pc = .waiting → (s.r i).errBuf = some v →
      Step recheckVal s (.read i) (upd s i fun q => { q with pc := .taking, errBuf := none, result := some v, reads := q.reads + 1 })
  | takeBack (s i) : (s.r i).pc = .taking →
      Step recheckVal s (.takeBack i) (upd s i fun q => { q with pc := .got })
  /- write loop: a request comes off `in` and is written, turned away, or found taken back -/
  | wlTakeWrite (s i) : s.wl = .running → (s.r i).inQ = true →
      Step recheckVal s (.wlTakeWrite i) (upd s i fun q => { q with inQ := false, inTable := true, written := true })
  | wlTakeReject (s i) : s.wl = .running → (s.r i).inQ = true →
      Step recheckVal s (.wlTakeReject i) (upd s i fun q => { res q .retryable with inQ := false })
  | wlTakeSkip (s i) : s.wl = .running → (s.r i).inQ = true → (s.r i).pc = .got →
      Step recheckVal s (.wlTakeSkip i) (upd s i fun q => { q with inQ := false })
  /- `writeRequest`: the HEADERS cannot be written (or flushed): the stream is taken out of the table
     again, the request is resolved with the error, `runWriteLoop` returns it -/
  | wlWriteFail (s i) : s.wl = .running → (s.r i).inQ = true →
      Step recheckVal s (.wlWriteFail i) { upd s i (fun q => { res q .fatal with inQ := false }) with wl := .stopping }
  /- `writeRequest`: the HEADERS went out, a DATA write of `sendPending` fails: the request stays in the
     table, is resolved with the error, `runWriteLoop` returns it -/
  | wlBodyFail (s i) : s.wl = .running → (s.r i).inQ = true →
      Step recheckVal s (.wlBodyFail i)
        { upd s i (fun q => { res { q with inQ := false, inTable := true, written := true } .fatal with inQ := false }) with wl := .stopping }
  /- any other way `runWriteLoop` ends by itself: a frame of `out` (RST_STREAM, WINDOW_UPDATE, a SETTINGS or
     PING acknowledgement), the DATA of `flushPending` or a PING cannot be written, pings go unanswered, a
     recovered panic -/
  | wlFail (s) : s.wl = .running → Step recheckVal s .wlFail { s with wl := .stopping }
  /- teardown: `runWriteLoop` returns, `setLastErr`, `Close`, `takeAllReqs`, drain of `in` -/
  | wlSeeDone (s) : s.wl = .running → s.done = true → Step recheckVal s .wlSeeDone { s with wl := .stopping }
  | wlSetErr (s) : s.wl = .stopping → Step recheckVal s .wlSetErr { s with wl := .erred, lastErr := true }
  | wlClose (s) : s.wl = .erred → Step recheckVal s .wlClose { s with wl := .closing, done := true }
  | wlTakeAll (s) : s.wl = .closing →
      Step recheckVal s .wlTakeAll
        { s with wl := .draining
                 r := fun j => if (s.r j).inTable then { res (s.r j) .fatal with inTable := false } else s.r j }
  | wlDrainOne (s i) : s.wl = .draining → (s.r i).inQ = true →
      Step recheckVal s (.wlDrainOne i) (upd s i fun q => { res q .fatal with inQ := false })
  | wlDrainEnd (s) : s.wl = .draining → (∀ j, (s.r j).inQ = false) → Step recheckVal s .wlDrainEnd { s with wl := .exited }
  /- `Close` from anywhere; the read loop recording why it stops -/
  | close (s) : Step recheckVal s .close { s with done := true }
  | rdSetErr (s) : Step recheckVal s .rdSetErr { s with lastErr := true }
  /- read loop `finish` (a response, RST_STREAM or a malformed block ends the stream) -/
  | finish (s i v) : (s.r i).inTable = true → v ≠ .retryable →
      Step recheckVal s (.finish i v) (upd s i fun q => { res q v with inTable := false })
  /- read loop `afterGoAway`: a request still in the table on a stream above the last-stream-id of the server's GOAWAY
     is finished at once, with the retryable error or (body from a reader) a stream error -/
  | refuse (s i v) : (s.r i).inTable = true → v ≠ .ok →
      Step recheckVal s (.refuse i v) (upd s i fun q => { res q v with inTable := false, disclaimed := true })
  /- `fireTimeout`: resolve, then `cancel` drops the stream -/
  | timer (s i) : Step recheckVal s (.timer i) (upd s i fun q => { res q .fatal with inTable := false })

/-- the code after fix F42 -/
def recheckFixed : S → Val := fun _ => .fatal
/-- the code before it: `r.resolve(c.closeErr())` -/
def recheckOld : S → Val := closeVal

inductive Reach (rv : S → Val) : S → Prop
  | init : Reach rv init
  | step {s a s'} : Reach rv s → Step rv s a s' → Reach rv s'

end H2.Client.Inter
