import H2.Client.Codec
/-!
# Client — serial executable model of `conn.go` / `client.go`

One scripted event at a time, run to quiescence, as the stepping harness drives the real `Conn`:
`Write` of a request, server octets, the `MaxResponseTime` action, `Close`, loss of the connection, the
caller reading its result. The functions are named after the Go functions they mirror. State owned by
one loop is plain state here; the sections that run under `sendLck` are the functions `spendN`,
`addWindow`, `applyInitialWindow` that the interleaving model (`H2.Client.Flow`) shares.

External code is a parameter: a request is what the op line says after fasthttp's normalisation
(`Header.All()` yields `content-length` exactly for a body stream of declared length, lower-cased
names), a streamed body is a list of read results.
-/
namespace H2.Client

inductive Err where
  | ok | timeout | writeErr | connClosed | noStreams | noIds | eof | goaway
  | rst (code : Nat) | h2conn (code : Nat) | h2err (code : Nat) | hpack | badMsg | other
deriving DecidableEq, Repr

def Err.name : Err → String
  | .ok => "ok" | .timeout => "timeout" | .writeErr => "write-err" | .connClosed => "conn-closed"
  | .noStreams => "no-streams" | .noIds => "no-ids" | .eof => "eof" | .goaway => "goaway"
  | .rst c => s!"rst:{c}" | .h2conn c => s!"h2conn:{c}" | .h2err c => s!"h2err:{c}"
  | .hpack => "hpack" | .badMsg => "bad-msg" | .other => "other"

/-- `retryable` (client.go): the three sentinel errors of `Gen.retryableErrors` -/
def Err.retryable : Err → Bool
  | .connClosed => Gen.retryableErrors.contains "ErrConnectionClosed"
  | .noStreams => Gen.retryableErrors.contains "ErrNotAvailableStreams"
  | .noIds => Gen.retryableErrors.contains "ErrNoMoreStreamIDs"
  | _ => false

/-- `errors.Is(err, FlowControlError)`: the test that stops the read loop in `dispatch` -/
def Err.isFlowControl : Err → Bool
  | .rst c => c == Gen.c_FlowControlError
  | .h2err c => c == Gen.c_FlowControlError
  | .h2conn c => c == Gen.c_FlowControlError
  | _ => false

inductive Term where | eof | eofw | err | zero
deriving DecidableEq, Repr

/-- request body as handed to `Write` -/
inductive BodySpec where
  | none
  | buf (n : Nat)
  | stream (declared : Int) (chunks : List Nat) (term : Term)
deriving Repr

/-- `pendingBody` -/
structure Pending where
  tag : String
  window : Int
  body : Nat := 0              -- len(pb.body)
  isStream : Bool := false
  chunks : List Nat := []
  term : Term := .eof
  size : Int := -1
  read : Int := 0
  drained : Bool := false
deriving Repr

def Pending.hasMore (pb : Pending) : Bool := pb.body > 0 || (pb.isStream && !pb.drained)

/-- `Ctx` plus the caller's `Response` -/
structure Req where
  tag : String
  sid : Nat := 0
  hasConn : Bool := false
  errBuf : Option Err := none
  done : Bool := false
  status : Int := 200
  cl : Int := 0
  ct : Option Bytes := none
  hdrs : List (Bytes × Bytes) := []
  body : Bytes := []
  read : Bool := false
  statusSeen : Bool := false
  streamed : Bool := false      -- `Ctx.bodyStream`: the request body comes from a reader
deriving Repr, DecidableEq

/-- frames the client writes -/
inductive OutFrame where
  | headers (sid : Nat) (endStream : Bool) (fields : List (Bytes × Bytes))
  /-- on the wire only (`writeHeaderBlock`): a HEADERS frame without END_HEADERS carrying the first `len` octets of a
  header block that is longer than the server's SETTINGS_MAX_FRAME_SIZE … -/
  | hfrag (sid : Nat) (endStream : Bool) (len : Nat)
  /-- … and the CONTINUATION frames that follow it; the one with END_HEADERS is where the scripted server has the whole
  block and prints its fields -/
  | cont (sid : Nat) (endHeaders : Bool) (len : Nat) (fields : List (Bytes × Bytes))
  | data (sid len : Nat) (endStream : Bool)
  | rst (sid code : Nat)
  | settingsAck
  | ping (ack : Bool) (d : Bytes)
  | windowUpdate (sid inc : Nat)
deriving Repr

structure Conn where
  reqs : List Req := []
  nextID : Nat := 1
  openStreams : Int := 0
  connWindow : Int := Gen.c_defaultWindowSize
  streamWindow : Int := Gen.c_defaultWindowSize
  pending : List (Nat × Pending) := []        -- ascending stream id
  reqQueued : List (Nat × String) := []
  maxStreams : Nat := Gen.c_defaultConcurrentStreams
  maxFrameSize : Nat := Gen.c_defaultDataFrameSize
  /- SETTINGS_HEADER_TABLE_SIZE as handed to the write loop: the last value the server sent, the smallest since the
     write loop last applied them, whether there is anything to apply -/
  encTableSize : Nat := Gen.c_defaultHeaderTableSize
  encTableMin : Nat := Gen.c_defaultHeaderTableSize
  encTableSet : Bool := false
  srvTableSize : Nat := Gen.c_defaultHeaderTableSize   -- serverS.tableSize
  goAway : Bool := false
  stateClosed : Bool := false
  closeRef : Nat := 0
  currentWindow : Int := Gen.c_clientMaxWindow
  dec : Hpack.DecState := {}
  /- the header block in progress: fragments received so far, the stream its HEADERS frame ends with END_STREAM (0: none) -/
  hdrBlock : Bytes := []
  hdrEndStream : Nat := 0
  rdBuf : Bytes := []
  lastErr : Option Err := none
  dead : Bool := false
  stuck : Bool := false
  ambiguous : Bool := false
  /- queues towards the write loop, emptied within the step -/
  outQ : List OutFrame := []
  winTok : Bool := false
  /- the write loop's HPACK encoder: the length of a HEADERS frame depends on it -/
  enc : Hpack.EncState := {}
  /- write failure (`failwrite`): the octets the transport still takes before every write fails; `none` = it never fails -/
  wbudget : Option Nat := none
deriving Repr

def maxWindow : Int := Gen.c_clientMaxWindow

/-! ## small helpers -/

def updReq (c : Conn) (tag : String) (f : Req → Req) : Conn :=
  { c with reqs := c.reqs.map fun r => if r.tag == tag then f r else r }

def getReq (c : Conn) (tag : String) : Option Req := c.reqs.find? fun r => r.tag == tag

/-- `Ctx.resolve`: non-blocking send into a channel of capacity one, dropped after `takeBack` -/
def Req.resolve (r : Req) (e : Err) : Req :=
  if r.done || r.errBuf.isSome then r else { r with errBuf := some e }

def resolve (c : Conn) (tag : String) (e : Err) : Conn := updReq c tag (·.resolve e)

def lookupA {α} (l : List (Nat × α)) (k : Nat) : Option α := (l.find? fun p => p.1 == k).map (·.2)
def eraseA {α} (l : List (Nat × α)) (k : Nat) : List (Nat × α) := l.filter fun p => p.1 != k
def insertA {α} (l : List (Nat × α)) (k : Nat) (v : α) : List (Nat × α) :=
  match l with
  | [] => [(k, v)]
  | (k', v') :: t => if k < k' then (k, v) :: (k', v') :: t else if k == k' then (k, v) :: t else (k', v') :: insertA t k v

def setLastErr (c : Conn) (e : Err) : Conn := if c.lastErr.isSome then c else { c with lastErr := some e }

/-- `CanOpenStream` -/
def canOpenStream (c : Conn) : Bool :=
  !c.goAway && c.nextID ≤ Gen.c_maxStreamID && c.openStreams < (c.maxStreams : Int)

/-! ## the `sendLck` sections -/

/-- octets `sendPending` lets out: the smallest of what is buffered and the two windows, not below 0 -/
def spendN (body : Nat) (window connWindow : Int) : Nat :=
  (min (min (body : Int) window) connWindow).toNat

/-- `addWindow` on a stream window or the connection window (`int32` arithmetic) -/
def addWin (w : Int) (inc : Nat) : Int := wrap32 (w + inc)

def addWindow (c : Conn) (sid inc : Nat) : Conn :=
  let c := if sid == 0 then { c with connWindow := addWin c.connWindow inc }
    else { c with pending := c.pending.map fun (k, pb) => if k == sid then (k, { pb with window := addWin pb.window inc }) else (k, pb) }
  { c with winTok := true }

/-- `applyInitialWindow` -/
def applyInitialWindow (c : Conn) (size : Nat) : Conn :=
  let delta := wrap32 ((size : Int) - c.streamWindow)
  { c with streamWindow := size, winTok := true
           pending := c.pending.map fun (k, pb) => (k, { pb with window := wrap32 (pb.window + delta) }) }

/-! ## write loop -/

/-- `writeData`: cut `n` octets into frames of at most `step`; an empty final frame carries END_STREAM -/
def dataFrames (sid : Nat) (step : Nat) : Nat → Nat → Bool → List OutFrame
  | 0, _, _ => []
  | fuel + 1, n, endS =>
    if n ≤ step then [.data sid n endS] else .data sid step false :: dataFrames sid step fuel (n - step) endS

def writeData (c : Conn) (sid n : Nat) (endS : Bool) : List OutFrame :=
  let step := if c.maxFrameSize == 0 || c.maxFrameSize > Gen.c_maxFrameSize then Gen.c_defaultDataFrameSize else c.maxFrameSize
  if n == 0 then (if endS then [.data sid 0 true] else []) else dataFrames sid step (n + 1) n endS

/-- `refillPending`: one `Read` into a buffer of `defaultDataFrameSize` octets. `none` = the read failed. -/
def refill (pb : Pending) : Option Pending :=
  match pb.chunks with
  | [] =>
    match pb.term with
    | .err | .zero => none
    | _ => some { pb with drained := true }
  | ch :: rest =>
    let n := min ch Gen.c_defaultDataFrameSize
    let chunks := if ch > n then (ch - n) :: rest else rest
    let pb := { pb with body := n, read := pb.read + n, chunks := chunks }
    if n == 0 then
      -- a scripted empty chunk: Read returned (0, nil)
      none
    else
      let pb := if chunks.isEmpty && pb.term == .eofw then { pb with drained := true } else pb
      some (if pb.size ≥ 0 && pb.read ≥ pb.size then { pb with drained := true } else pb)

/-- `deletePending` called by a goroutine that does not hold the request's lock -/
def deletePending (c : Conn) (sid : Nat) : Conn := { c with pending := eraseA c.pending sid }

/-- `sendPending`. Returns the frames written. -/
def sendPending : Nat → Conn → Nat → Conn × List OutFrame
  | 0, c, _ => (c, [])
  | fuel + 1, c, sid =>
    match lookupA c.pending sid with
    | none => (c, [])
    | some pb =>
      if pb.body == 0 && pb.isStream && !pb.drained then
        match refill pb with
        | none =>
          -- the body cannot be finished: forget it and reset the stream
          let c := deletePending c sid
          ({ c with outQ := c.outQ ++ [.rst sid Gen.c_InternalError] }, [])
        | some pb' => sendPending fuel { c with pending := insertA c.pending sid pb' } sid
      else
        let n := spendN pb.body pb.window c.connWindow
        let pb' := { pb with window := pb.window - n, body := pb.body - n }
        let endS := !pb'.hasMore
        let c := { c with connWindow := c.connWindow - n
                          pending := if endS then eraseA c.pending sid else insertA c.pending sid pb' }
        if n == 0 && !endS then (c, [])
        else
          match getReq c pb.tag with
          | none => (c, [])
          | some r =>
            if r.done then (deletePending c sid, [])
            else
              let fs := writeData c sid n endS
              if endS then (c, fs)
              else
                let (c', fs') := sendPending fuel c sid
                (c', fs ++ fs')

/-- the connection window decides between several blocked bodies: the order of `flushPending` over
the `pending` map then matters, and that order is the Go runtime's choice -/
def flushAmbiguous (c : Conn) : Bool :=
  let wants := c.pending.filter fun (_, pb) => (pb.body > 0 || (pb.isStream && !pb.drained)) && pb.window > 0
  let demand := (wants.map fun (_, pb) => (if pb.isStream then (min pb.window (2 ^ 31)) else min (pb.body : Int) pb.window)).sum
  wants.length ≥ 2 && c.connWindow > 0 && demand > c.connWindow

def flushPending (c : Conn) : Conn × List OutFrame :=
  let c := if flushAmbiguous c then { c with ambiguous := true } else c
  (c.pending.map (·.1)).foldl (fun (acc : Conn × List OutFrame) sid =>
      let (c', fs) := sendPending 100000 acc.1 sid
      (c', acc.2 ++ fs)) (c, [])

/-- request header list as `writeRequest` emits it -/
structure ReqSpec where
  tag : String
  method : Bytes
  scheme : Bytes
  host : Bytes
  path : Bytes
  ua : Bytes
  hdrs : List (Bytes × Bytes)
  body : BodySpec
deriving Repr

def requestFields (r : ReqSpec) : List (Bytes × Bytes) :=
  let regular := r.hdrs.filterMap fun (k, v) =>
    let k := toLowerGo k
    if k == Gen.s_StringUserAgent || isConnectionSpecific k then none else some (k, v)
  let cl := match r.body with
    | .stream d _ _ => if d ≥ 0 then [(Gen.s_StringContentLength, strBytes (toString d))] else []
    | _ => []
  [(Gen.s_StringAuthority, r.host), (Gen.s_StringMethod, r.method), (Gen.s_StringPath, r.path),
   (Gen.s_StringScheme, r.scheme), (Gen.s_StringUserAgent, r.ua)] ++ cl ++ regular

/-- `writeRequest` followed by `sendPending` -/
def writeRequest (c : Conn) (r : ReqSpec) : Conn × List OutFrame :=
  if !canOpenStream c then (resolve c r.tag .noStreams, [])
  else
    let id := c.nextID
    let hasBody := match r.body with
      | .none => false
      | _ => true
    let c := { c with nextID := id + 2, reqQueued := insertA c.reqQueued id r.tag, openStreams := c.openStreams + 1 }
    let streamed := match r.body with
      | .stream _ _ _ => true
      | _ => false
    let c := updReq c r.tag fun q => { q with sid := id, hasConn := true, streamed := streamed }
    let hd := OutFrame.headers id (!hasBody) (requestFields r)
    match r.body with
    | .none => (c, [hd])
    | .buf n =>
      let pb : Pending := { tag := r.tag, window := c.streamWindow, body := n }
      let c := { c with pending := insertA c.pending id pb }
      let (c, fs) := sendPending 100000 c id
      (c, hd :: fs)
    | .stream d chunks term =>
      let pb : Pending := { tag := r.tag, window := c.streamWindow, isStream := true, chunks := chunks, term := term,
                            size := d, drained := d == 0 }
      let c := { c with pending := insertA c.pending id pb }
      let (c, fs) := sendPending 100000 c id
      (c, hd :: fs)

/-! ## read loop -/

/-- `takeReq` + the `openStreams` adjustment -/
def takeReq (c : Conn) (sid : Nat) : Conn :=
  if (lookupA c.reqQueued sid).isSome then
    { c with reqQueued := eraseA c.reqQueued sid, openStreams := c.openStreams - 1 }
  else c

/-- `finish`, called from `dispatch` with the request's lock held: the stream leaves the table, a body
still pending on it is dropped (and its stream closed) under that same lock, the request is resolved. -/
def finish (c : Conn) (tag : String) (sid : Nat) (e : Err) : Conn :=
  let c := takeReq c sid
  let c := deletePending c sid
  resolve c tag e

/-- the decisions `readHeader` takes on one decoded field: `none` = the response is malformed.
Returns the request, `regularSeen`, `statusSeen` (the per-block flag). -/
def fieldStep (r : Req) (regularSeen statusSeen : Bool) (k v : Bytes) : Option (Req × Bool × Bool) :=
  if isPseudo k then
    if regularSeen then none
    else if k != Gen.s_StringStatus then none
    else match parseUint v with
      | none => none
      | some n =>
        if statusSeen || v.length != 3 || n < 100 then none
        else some ({ r with status := n, statusSeen := true }, regularSeen, true)
  else if hasUpperCase k then none
  else if isConnectionSpecific k then none
  else if k == Gen.s_StringContentLength then
    match parseUint v with
    | none => none
    | some n => some ({ r with cl := n }, true, statusSeen)
  else if k == Gen.s_StringContentType then some ({ r with ct := some v }, true, statusSeen)
  else some ({ r with hdrs := r.hdrs ++ [(k, v)] }, true, statusSeen)

/-- `readHeader` on a complete header block; `nf` counts the fields decoded so far -/
def readHeader : Nat → Hpack.DecState → Req → Bool → Bool → Nat → Bytes → Hpack.DecState × Req × Option Err
  | 0, st, r, _, _, _, _ => (st, r, some .hpack)
  | fuel + 1, st, r, regularSeen, statusSeen, nf, b =>
    if b.isEmpty then (st, r, none) else
    match nextField st nf b with
    | .idxMiss st' => (st', r, some (.h2err Gen.c_FlowControlError))
    | .err st' => (st', r, some .hpack)
    | .done st' => (st', r, none)
    | .field st' k v rest =>
      match fieldStep r regularSeen statusSeen k v with
      | none => (st', r, some .badMsg)
      | some (r', rs, ss) => readHeader fuel st' r' rs ss (nf + 1) rest

def queueOut (c : Conn) (f : OutFrame) : Conn := { c with outQ := c.outQ ++ [f] }

/-- `consumeConnWindow`: `n` octets of DATA come out of the connection receive window, which is topped back
up to its maximum once less than half is left. The read loop calls it for every DATA frame, before it
looks for the request waiting on the stream. -/
def consumeConnWindow (c : Conn) (n : Nat) : Conn :=
  let cur := c.currentWindow - n
  if cur < maxWindow / 2 then
    queueOut { c with currentWindow := maxWindow } (.windowUpdate 0 (maxWindow - cur).toNat)
  else { c with currentWindow := cur }

/-- `readStream`: what one frame does to the request waiting on its stream -/
def readStream (c : Conn) (tag : String) (r : Req) (f : Frame.Frame) : Conn × Option Err :=
  match f.body with
  | .headers _ _ _ frag | .continuation _ frag =>
    -- a header block is decoded when END_HEADERS says it is whole; until then its fragments are kept
    let blk := (if f.typ == Gen.c_FrameHeaders then [] else c.hdrBlock) ++ frag
    if Frame.hasFlag f.flags Gen.c_FlagEndHeaders then
      let (st, r', e) := readHeader (blk.length + 1) c.dec r false false 0 blk
      (updReq { c with dec := st, hdrBlock := [] } tag fun _ => r', e)
    else ({ c with hdrBlock := blk }, none)
  | .rstStream code => (c, some (.rst code))
  | .data _ d =>
    -- the data goes to the response; the stream is credited with the whole frame, padding included
    let c := if d.length != 0 then updReq c tag fun q => { q with body := q.body ++ d } else c
    (if f.length != 0 then queueOut c (.windowUpdate f.stream f.length) else c, none)
  | _ => (c, none)

/-- `skipHeaders`' loop: the block goes through the decoder, the fields are dropped; it stops at the first error -/
def skipFields : Nat → Hpack.DecState → Nat → Bytes → Hpack.DecState
  | 0, st, _, _ => st
  | fuel + 1, st, nf, b =>
    if b.isEmpty then st else
    match nextField st nf b with
    | .idxMiss st' => st'
    | .err st' => st'
    | .done st' => st'
    | .field st' _ _ rest => skipFields fuel st' (nf + 1) rest

/-- `skipHeaders`: a header block for a stream nobody waits on still counts for the compression context -/
def skipHeaders (c : Conn) (f : Frame.Frame) : Conn :=
  match f.body with
  | .headers _ _ _ frag | .continuation _ frag =>
    let blk := (if f.typ == Gen.c_FrameHeaders then [] else c.hdrBlock) ++ frag
    if Frame.hasFlag f.flags Gen.c_FlagEndHeaders then
      { c with dec := skipFields (blk.length + 1) c.dec 0 blk, hdrBlock := [], hdrEndStream := 0 }
    else { c with hdrBlock := blk }
  | _ => c

/-- `dispatch`, the bookkeeping of END_STREAM on header blocks: a HEADERS frame records the stream it ends (0: none) -/
def noteHeaders (c : Conn) (f : Frame.Frame) : Conn :=
  if f.typ == Gen.c_FrameHeaders then
    { c with hdrEndStream := if Frame.hasFlag f.flags Gen.c_FlagEndStream then f.stream else 0 }
  else c

/-- the frame completes a header block -/
def endsBlock (f : Frame.Frame) : Bool :=
  (f.typ == Gen.c_FrameHeaders || f.typ == Gen.c_FrameContinuation) && Frame.hasFlag f.flags Gen.c_FlagEndHeaders

/-- whether the stream ends with this frame. END_STREAM is defined for HEADERS and DATA; the bit means nothing on
any other frame type. On HEADERS it takes effect when the header block is complete: at the frame that carries
END_HEADERS, if that frame is on the stream the HEADERS frame was for. (`c` is the state after `noteHeaders`.) -/
def endsStream (c : Conn) (f : Frame.Frame) : Bool :=
  if endsBlock f then c.hdrEndStream == f.stream
  else Frame.hasFlag f.flags Gen.c_FlagEndStream && f.typ == Gen.c_FrameData

/-- the head of `dispatch`: END_STREAM bookkeeping. Returns the state `readStream` starts from and whether the stream
ends with this frame; once a block is complete its END_STREAM is spent. -/
def prepare (c : Conn) (f : Frame.Frame) : Conn × Bool :=
  let c := noteHeaders c f
  (if endsBlock f then { c with hdrEndStream := 0 } else c, endsStream c f)

/-- the tail of `dispatch`, after `readStream`: the request is finished when the frame failed it or ended the
stream (a response that ends without ever having carried :status is malformed). Bool = the read loop stops. -/
def settle (c : Conn) (tag : String) (sid : Nat) (err : Option Err) (endS : Bool) : Conn × Bool :=
  let err := match err, getReq c tag with
    | none, some r' => if endS && !r'.statusSeen then some Err.badMsg else none
    | e, _ => e
  let c := match err with
    | none => if endS then finish c tag sid .ok else c
    | some e => finish c tag sid e
  let stop := match err with
    | some e => e.isFlowControl
    | none => false
  (c, stop)

/-- `dispatch`. Returns the new state and whether the read loop stops. -/
def dispatch (c : Conn) (f : Frame.Frame) : Conn × Bool :=
  match lookupA c.reqQueued f.stream with
  | none => (skipHeaders c f, false)
  | some tag =>
    match getReq c tag with
    | none => (skipHeaders c f, false)
    | some r =>
      if r.done then ({ (skipHeaders c f) with reqQueued := eraseA c.reqQueued f.stream }, false)
      else
        let (c, endS) := prepare c f
        let (c, err) := readStream c tag r f
        settle c tag f.stream err endS

/-- `Settings.Read` of a frame's pairs on top of the values held in `serverS`: a setting the frame does
not mention keeps its value -/
def applyPairs (c : Conn) : List (Nat × Nat) → Conn
  | [] => c
  | (k, v) :: ps =>
    let c := if k == Gen.c_HeaderTableSize then { c with srvTableSize := v }
      else if k == Gen.c_MaxConcurrentStreams then { c with maxStreams := v }
      else if k == Gen.c_MaxFrameSize then { c with maxFrameSize := v }
      else c
    applyPairs c ps

/-- `handleSettings`, the loop over the frame's payload: every SETTINGS_HEADER_TABLE_SIZE value is recorded for the
write loop, the smallest as well as the last (the server's decoder has shrunk its table to the smallest on the way) -/
def noteTableSizes (c : Conn) : List (Nat × Nat) → Conn
  | [] => c
  | (k, v) :: ps =>
    let c := if k == Gen.c_HeaderTableSize then
        { c with encTableMin := if !c.encTableSet || v < c.encTableMin then v else c.encTableMin
                 encTableSize := v, encTableSet := true }
      else c
    noteTableSizes c ps

/-- `handleSettings` -/
def handleSettings (c : Conn) (s : Frame.SettingsVal) : Conn :=
  let c := applyPairs c s.pairs
  let c := noteTableSizes c s.pairs
  let c := if s.hasWindowSize then applyInitialWindow c s.windowSize else c
  queueOut c .settingsAck

/-- what a request on a stream above the last-stream-id of GOAWAY is resolved with: the server has not processed it and
never will, so it may go out again on another connection, unless its body came from a reader, which cannot produce
it a second time -/
def goAwayErr (r : Req) : Err := if r.streamed then .h2err Gen.c_RefusedStreamError else .connClosed

/-- `afterGoAway` on one stream above last-stream-id: the request is finished with `goAwayErr`; one the caller has
taken back only leaves the table -/
def refuse (c : Conn) (sid : Nat) (tag : String) : Conn :=
  match getReq c tag with
  | none => { c with reqQueued := eraseA c.reqQueued sid }
  | some r =>
    if r.done then { c with reqQueued := eraseA c.reqQueued sid }
    else finish c tag sid (goAwayErr r)

def refuseAbove (c : Conn) : List (Nat × String) → Conn
  | [] => c
  | (sid, tag) :: rest => refuseAbove (if sid > c.closeRef then refuse c sid tag else c) rest

/-- `afterGoAway`: run by the read loop after every frame once GOAWAY(last > 0) has come. The requests above `closeRef`
are failed at once; Bool = no request is left waiting, the read loop stops. -/
def afterGoAway (c : Conn) : Conn × Bool :=
  (refuseAbove c c.reqQueued, c.reqQueued.all fun p => p.1 > c.closeRef)

/-- `dispatch`, then `afterGoAway` if the server has sent GOAWAY with a last stream -/
def dispatchLoop (c : Conn) (f : Frame.Frame) : Conn × Bool :=
  let (c, stop) := dispatch c f
  if c.stateClosed then
    let (c, idle) := afterGoAway c
    (c, stop || idle)
  else (c, stop)

/-- one frame through `readNext` and the body of `readLoop`'s loop. Bool = the read loop ends. -/
def rdFrame (c : Conn) (f : Frame.Frame) : Conn × Bool :=
  if f.stream == 0 then
    match f.body with
    | .settings s => if s.ack then (c, false) else (handleSettings c s, false)
    | .windowUpdate inc => (addWindow c 0 inc, false)
    | .ping ack d => if ack then (c, false) else (queueOut c (.ping true d), false)
    | .goAway last _ _ =>
      let c := { c with goAway := true }
      if last == 0 then (setLastErr c .goaway, true)
      else afterGoAway { c with closeRef := last, stateClosed := true }
    | _ => (c, false)
  else
    match f.body with
    | .pushPromise _ _ _ => (setLastErr c (.h2conn Gen.c_ProtocolError), true)
    | .windowUpdate inc => dispatchLoop (addWindow c f.stream inc) f
    | .data _ _ => dispatchLoop (consumeConnWindow c f.length) f
    | _ => dispatchLoop c f

def rdFrames : List RdFrame → Conn → Conn × Bool
  | [], c => (c, false)
  | .unknown :: fs, c => rdFrames fs c
  | .bad ga oth :: _, c =>
    (setLastErr c (match ga, oth with
      | some k, _ => .h2conn k
      | none, some k => .h2err k
      | none, none => .other), true)
  | .frame f :: fs, c =>
    if c.stuck then (c, false) else
    let (c, stop) := rdFrame c f
    if stop then (c, true) else rdFrames fs c

/-! ## teardown -/

/-- both loops have exited: `writeLoop` records why (`setLastErr` keeps the first reason), closes, and resolves
everything still in the table with its own reason `e` -/
def dieWith (c : Conn) (e : Err) : Conn :=
  let c := setLastErr c e
  let c := { c with dead := true, outQ := [], winTok := false
                    reqs := c.reqs.map fun r => if (c.reqQueued.any fun p => p.2 == r.tag) then r.resolve e else r
                    reqQueued := [] }
  c

/-- the connection is closed, cut, or ended by the read loop: `runWriteLoop` returns nil, the reason is
`io.ErrUnexpectedEOF` -/
def die (c : Conn) : Conn := dieWith c .eof

/-- the write loop serves what the step queued: `out` frames, then the window token -/
def drain (c : Conn) : Conn × List OutFrame :=
  let fs := c.outQ
  let c := { c with outQ := [] }
  let (c, ds) := if c.winTok then flushPending { c with winTok := false } else (c, [])
  -- a failed refill queues a RST_STREAM
  let fs2 := c.outQ
  ({ c with outQ := [] }, fs ++ ds ++ fs2)

/-! ## write failures

Every write goes through one `bufio.Writer` whose buffer is larger than anything a step writes, so the
transport sees one `Write` per `Flush`: `writeRequest` (HEADERS), `flushData` (one run of DATA frames),
`writeFrame` (each frame of `out`), `Close` (GOAWAY). The scripted transport takes `wbudget` more octets
and then fails; `bufio.Writer` keeps the error, so every later `WriteTo`/`Flush` fails as well. Whatever
write of a step fails first, the outcome is the same: the failing branch returns the error to
`runWriteLoop` (`writeRequest` has by then resolved its own request with it and, when it was the HEADERS
that failed, released the `Ctx`, taken the stream out of the table and dropped its body), `writeLoop`
records `WriteError`, closes, and resolves everything still in the table with it. So the step fails iff
the octets it would write exceed the budget, and then the connection is dead with `write-err`
everywhere. The one thing that is not determined is what the read loop does with frames it still has
buffered while the write loop is on its way out: `racyAfterEnqueue`. -/

/-- `writeRequest` tells its encoder about the table sizes the server has asked for since the last request: the
smallest, then the last (`SetMaxTableSize` twice; the encoder announces both at the start of the block) -/
def applyTable (c : Conn) : Hpack.EncState :=
  if c.encTableSet then (c.enc.setMax c.encTableMin).setMax c.encTableSize else c.enc

/-- the HEADERS frame's block: `writeRequest` applies the table sizes, then encodes the five fixed fields with
indexing and the rest without. Returns the length of the block. -/
def encodeHeaders (c : Conn) (fields : List (Bytes × Bytes)) : Conn × Nat :=
  let enc := applyTable c
  let acc := fields.foldl (fun (acc : Hpack.EncState × Nat × Nat) kv =>
      let (st', bs) := Hpack.Enc.append acc.1 { name := kv.1, value := kv.2 } (acc.2.2 < 5)
      (st', acc.2.1 + bs.length, acc.2.2 + 1)) (enc, 0, 0)
  ({ c with enc := acc.1, encTableSet := false }, acc.2.1)

/-- `frameStep`: the largest frame payload the server is willing to receive, as `writeData` and `writeRequest` use it -/
def frameStep (c : Conn) : Nat :=
  if c.maxFrameSize == 0 || c.maxFrameSize > Gen.c_maxFrameSize then Gen.c_defaultDataFrameSize else c.maxFrameSize

/-- the CONTINUATION loop of `writeHeaderBlock`: the lengths of the pieces of at most `step` octets the `n` octets left
are written in -/
def cutLens (step : Nat) : Nat → Nat → List Nat
  | 0, _ => []
  | fuel + 1, n => if n == 0 then [] else min n step :: cutLens step fuel (n - step)

/-- `writeHeaderBlock`: the fragment lengths of a block of `n` octets — the first `step` octets (all of them when there
are no more), then the rest in pieces of at most `step` -/
def blockLens (step n : Nat) : List Nat := min n step :: cutLens step n (n - step)

/-- the CONTINUATION frames for the fragments after the first; END_HEADERS (and what the server decodes) on the last -/
def contFrames (sid : Nat) (fields : List (Bytes × Bytes)) : List Nat → List OutFrame
  | [] => []
  | l :: rest => .cont sid rest.isEmpty l (if rest.isEmpty then fields else []) :: contFrames sid fields rest

/-- the frames one queued HEADERS frame is written as: itself when the block fits, else HEADERS without END_HEADERS
(END_STREAM stays on it) and CONTINUATION frames -/
def headerFrames (sid : Nat) (es : Bool) (fields : List (Bytes × Bytes)) : List Nat → List OutFrame
  | [] => []
  | l :: rest => (if rest.isEmpty then .headers sid es fields else .hfrag sid es l) :: contFrames sid fields rest

/-- octets of the frames a step writes (frame header of 9 octets included) -/
def wireBytes (c : Conn) : List OutFrame → Conn × Nat
  | [] => (c, 0)
  | f :: fs =>
    let (c, n) := match f with
      | .headers _ _ fields => let (c', n) := encodeHeaders c fields; (c', 9 * (blockLens (frameStep c) n).length + n)
      | .hfrag _ _ len => (c, 9 + len)
      | .cont _ _ len _ => (c, 9 + len)
      | .data _ len _ => (c, 9 + len)
      | .rst _ _ => (c, 13)
      | .settingsAck => (c, 9)
      | .ping _ _ => (c, 17)
      | .windowUpdate _ _ => (c, 13)
    let (c, m) := wireBytes c fs
    (c, n + m)

/-- the frames as they go out: each queued HEADERS frame cut by `writeHeaderBlock` (the encoder is threaded through as in
`wireBytes`, the block length decides the number of frames) -/
def wireFrames (c : Conn) : List OutFrame → List OutFrame
  | [] => []
  | .headers sid es fields :: fs =>
    let x := encodeHeaders c fields
    headerFrames sid es fields (blockLens (frameStep c) x.2) ++ wireFrames x.1 fs
  | f :: fs => f :: wireFrames c fs

/-- something is waiting for the write loop -/
def enqueued (c : Conn) : Bool := !c.outQ.isEmpty || c.winTok

/-- what callers can see of the connection -/
def visible (c : Conn) : List (Option Err) × Option Err := (c.reqs.map (·.errBuf), c.lastErr)

/-- the read loop resolves a request, records a reason or stops at or after the frame that gave the write
loop something to write: if that write fails, the write loop's teardown and the read loop run side by
side and which of them a request hears from first is the scheduler's choice -/
def racyAfterEnqueue : List RdFrame → Conn → Bool
  | [], _ => false
  | .unknown :: fs, c => racyAfterEnqueue fs c
  | .bad _ _ :: _, c => enqueued c
  | .frame f :: fs, c =>
    let (c', stop) := rdFrame c f
    if (stop || visible c' != visible c) && enqueued c' then true
    else if stop then false
    else racyAfterEnqueue fs c'

inductive StepOut where
  | frames (fs : List OutFrame)
  | dead
  | stuck
  | readRes (r : Option (Err × Req))
  | readAgain

/-- the step's frames go to the transport: all of them if the budget covers them, else the connection ends
on the write error -/
def afterWrites (c0 : Conn) (fs : List OutFrame) : Conn × StepOut :=
  let (c, total) := wireBytes c0 fs
  match c.wbudget with
  | none => (c, .frames (wireFrames c0 fs))
  | some b =>
    if total ≤ b then ({ c with wbudget := some (b - total) }, .frames (wireFrames c0 fs))
    else (dieWith c .writeErr, .dead)

/-! ## events -/

inductive Event where
  | req (r : ReqSpec)
  | bytes (b : Bytes)
  | timeout (tag : String)
  | read (tag : String)
  | close
  | cut
  | failwrite (n : Nat)

def step (c : Conn) : Event → Conn × StepOut
  | .read tag =>
    match getReq c tag with
    | none => (c, .readRes none)
    | some r =>
      if r.read then (c, .readAgain)
      else match r.errBuf with
        | none => (c, .readRes none)
        | some e => (updReq c tag fun q => { q with errBuf := none, done := true, read := true }, .readRes (some (e, r)))
  | ev =>
    if c.stuck then (c, .stuck) else
    match ev with
    | .req r =>
      let c := { c with reqs := c.reqs ++ [{ tag := r.tag }] }
      if c.dead then (resolve c r.tag (c.lastErr.getD .connClosed), .dead)
      else
        let (c, fs) := writeRequest c r
        let (c, fs2) := drain c
        afterWrites c (fs ++ fs2)
    | .bytes b =>
      if c.dead then (c, .dead) else
      let (frames, rest) := splitFrames (b.length + c.rdBuf.length + 1) (c.rdBuf ++ b)
      let c0 := { c with rdBuf := rest }
      let (c, stop) := rdFrames frames c0
      if c.stuck then (c, .stuck)
      else
        -- what the write loop has been given to write in this step
        let (cd, fs) := drain c
        let over := match c.wbudget with
          | some b => (wireBytes cd fs).2 > b
          | none => false
        if over && racyAfterEnqueue frames c0 then ({ die c with ambiguous := true }, .dead)
        else if stop then (die c, .dead)
        else afterWrites cd fs
    | .timeout tag =>
      match getReq c tag with
      | none => (c, .frames [])
      | some r =>
        let c := resolve c tag .timeout
        if !r.hasConn || r.sid == 0 then (c, if c.dead then .dead else .frames [])
        else
          let c := deletePending c r.sid
          let c := takeReq c r.sid
          if c.dead then (c, .dead) else afterWrites c [.rst r.sid Gen.c_StreamCanceled]
    | .close => (die c, .dead)
    | .cut => (die c, .dead)
    | .failwrite n => ({ c with wbudget := some n }, .frames [])
    | .read _ => (c, .readAgain)

/-- `NewConn`: the client's own `Settings` start from the zero value of the struct (never `Reset`) and two setters are
called, `SetMaxWindowSize(1 << 20)` and `SetPush(false)`, which mark their values as present -/
def ownSettings : Frame.SettingsVal :=
  { tableSize := 0, maxStreams := 0, windowSize := Gen.c_clientMaxWindow, frameSize := 0, headerSize := 0,
    enablePush := false, hasWindowSize := true, hasPush := true }

/-- the (identifier, value) pairs of the SETTINGS frame `Handshake` writes: what `Settings.Encode` makes of
`ownSettings` — ENABLE_PUSH = 0 and INITIAL_WINDOW_SIZE; the untouched zeros are left out -/
def handshakeSettings : List (Nat × Nat) :=
  let rec pairs : Bytes → List (Nat × Nat)
    | k0 :: k1 :: v0 :: v1 :: v2 :: v3 :: rest => (k0 * 256 + k1, be32 [v0, v1, v2, v3]) :: pairs rest
    | _ => []
  pairs (Frame.settingsEncode ownSettings)

end H2.Client
