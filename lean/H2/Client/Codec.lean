import H2.Base
import H2.Gen.Consts
import H2.Hpack.Model
import H2.Frame.Model
/-!
# Client — adapter over the HPACK and frame models

Everything the client model needs from `H2.Hpack` and `H2.Frame` goes through this file, so a change
in those models' interfaces is absorbed here. Core Lean only.
-/
namespace H2.Client

/-- Go `int` (64 bit) wrap-around, as in `parseUint` -/
def wrap64 (x : Int) : Int := (x + 2 ^ 63) % 2 ^ 64 - 2 ^ 63

/-- Go `int32` wrap-around, as in the send windows -/
def wrap32 (x : Int) : Int := (x + 2 ^ 31) % 2 ^ 32 - 2 ^ 31

/-- `parseUint` (strings.go): `none` on empty input, a non-digit, or a value that would not fit a Go `int` -/
def parseUintAux : Bytes → Int → Option Int
  | [], acc => some acc
  | c :: cs, acc =>
    if c < 48 || c > 57 then none
    else if acc > (2 ^ 63 - 1 - ((c - 48 : Nat) : Int)) / 10 then none   -- exactly: the value would not fit
    else parseUintAux cs (acc * 10 + (c - 48 : Nat))

def parseUint (b : Bytes) : Option Int := if b.isEmpty then none else parseUintAux b 0

def hasUpperCase (b : Bytes) : Bool := b.any fun c => 65 ≤ c && c ≤ 90

def isConnectionSpecific (b : Bytes) : Bool := Gen.connectionSpecific.contains b

def isPseudo (b : Bytes) : Bool := b.head? == some 58

/-- `ToLower` (strings.go): sets bit 5 of every octet, whatever it is -/
def toLowerGo (b : Bytes) : Bytes := b.map fun c => c ||| 32

/-- outcome of decoding one field of a response block with `dec.Next` -/
inductive FieldRes where
  | field (st : Hpack.DecState) (name value : Bytes) (rest : Bytes)
  | done (st : Hpack.DecState)               -- input exhausted (after size updates only)
  | idxMiss (st : Hpack.DecState)            -- index not in the tables: an `Error` typed FlowControlError
  | err (st : Hpack.DecState)                -- any other decoding error
deriving Repr

/-- the representation at the head of `b` names a table index that does not exist -/
def indexMiss (st : Hpack.DecState) (b : Bytes) : Bool :=
  match b with
  | [] => false
  | c :: _ =>
    let look (n : Nat) : Bool :=
      match Hpack.readInt n b with
      | .ok i _ => (Hpack.lookup st.dyn i).isNone
      | _ => false
    if c ≥ 128 then look 7
    else if c ≥ 64 then c != 64 && look 6
    else if c ≥ 32 then false
    else c % 16 != 0 && look 4

/-- one field of a response header block: `dec.nextField(hf, true, nf, b)`, `nf` the number of fields of the block
decoded so far (a dynamic table size update is in its place only while that is 0). When the call fails the
decoder has applied the updates it accepted before the representation that fails (`Hpack.Dec.skipUpdates`). -/
def nextField (st : Hpack.DecState) (nf : Nat) (b : Bytes) : FieldRes :=
  match Hpack.Dec.next st true nf b with
  | .ok st' (some f) rest => .field st' f.name f.value rest
  | .ok st' none _ => .done st'
  | .needMore => .err (Hpack.Dec.skipUpdates st true nf b).1
  | .err =>
    let (st', b') := Hpack.Dec.skipUpdates st true nf b
    if indexMiss st' b' then .idxMiss st' else .err st'

/-- a server frame as the client's read loop sees it -/
inductive RdFrame where
  | frame (f : Frame.Frame)
  | unknown                     -- unknown type: skipped
  | bad (goAwayCode : Option Nat) (otherCode : Option Nat)   -- `ReadFrameFrom` failed: the read loop ends
deriving Repr

/-- split complete frames off the front of the read buffer (`ReadFrameFrom`: the limit is the
`defaultMaxLen` every acquired frame header starts with, checked as soon as the 9 header octets are in).
Returns the frames and the octets of an incomplete frame left in the reader. -/
def splitFrames : Nat → Bytes → List RdFrame × Bytes
  | 0, b => ([], b)
  | fuel + 1, b =>
    if b.length < 9 then ([], b)
    else if be24 b > Gen.c_defaultMaxLen then ([.bad none (some Gen.c_FrameSizeError)], [])
    else if b.length < 9 + be24 b then ([], b)
    else
      match Frame.readFrame Gen.c_defaultMaxLen b with
      | .ok f n => let (fs, r) := splitFrames fuel (b.drop n); (.frame f :: fs, r)
      | .unknownType _ n => let (fs, r) := splitFrames fuel (b.drop n); (.unknown :: fs, r)
      | .err (.goAway code) _ => ([.bad (some code) none], [])
      | .err (.other code) _ => ([.bad none (some code)], [])
      | .err .tooLarge _ => ([.bad none (some Gen.c_FrameSizeError)], [])
      | .err _ _ => ([.bad none none], [])

end H2.Client
