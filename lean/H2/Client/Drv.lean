import H2.Client.Model
/-! Line-protocol operations of the Client area (driver side): parsing of `cli` op lines, printing of
the step results in the canonical form the harness uses. -/
namespace H2.Client.Drv

open H2.Client

structure State where
  id : String := ""
  conn : Option Conn := none
  closedBefore : Bool := false
  /-- the peer has stopped reading (`stall`): what the client does from here on is runtime behaviour the serial
  model has no words for (blocked writes, full queues, deadlines). The harness reports it in `mon` lines, which the
  monitors judge; the connection is over as far as the model is concerned. -/
  stalled : Bool := false

def State.init : State := {}

def b2s (b : Bool) : String := if b then "1" else "0"

def kvTok (p : Bytes × Bytes) : String := hexOrDash p.1 ++ "=" ++ hexOrDash p.2

def sortStrs (l : List String) : List String := l.mergeSort (fun a b => decide (a ≤ b))

def tokOf : OutFrame → Nat × String
  | .headers sid es fields =>
    let head := (fields.take 5).map kvTok
    let tail := sortStrs ((fields.drop 5).map kvTok)
    (sid, s!"H{sid}:{b2s es}:1:ok:" ++ ",".intercalate (head ++ tail))
  | .hfrag sid es _ => (sid, s!"H{sid}:{b2s es}:0:ok:")
  | .cont sid eh _ fields =>
    let head := (fields.take 5).map kvTok
    let tail := sortStrs ((fields.drop 5).map kvTok)
    (sid, s!"C{sid}:{b2s eh}:ok:" ++ ",".intercalate (head ++ tail))
  | .data sid len es => (sid, s!"D{sid}:{len}:{b2s es}")
  | .rst sid code => (sid, s!"R{sid}:{code}")
  | .settingsAck => (0, "A0")
  | .ping ack d => (0, s!"P0:{b2s ack}:{hexOrDash d}")
  | .windowUpdate sid inc => (sid, s!"W{sid}:{inc}")

def renderFrames (fs : List OutFrame) : String :=
  let toks := (fs.map tokOf).mergeSort (fun a b => decide (a.1 ≤ b.1))
  if toks.isEmpty then "-" else ";".intercalate (toks.map (·.2))

def ready (c : Conn) : String :=
  let r := (c.reqs.filter fun q => !q.read && q.errBuf.isSome).map (·.tag)
  if r.isEmpty then "-" else ",".intercalate r

def sum32 (b : Bytes) : Nat := b.foldl (fun h x => (h * 31 + x) % 2 ^ 32) 0

def defaultContentType : Bytes := strBytes "text/plain; charset=utf-8"

def renderRead (e : Err) (r : Req) : String :=
  let base := s!"read {e.name} retry={b2s e.retryable} sid={r.sid}"
  if e == .ok then
    base ++ s!" st={r.status} ct={hexOrDash (r.ct.getD defaultContentType)} h=" ++
      (let hs := sortStrs (r.hdrs.map kvTok); if hs.isEmpty then "-" else ",".intercalate hs) ++
      s!" body={r.body.length}:{sum32 r.body}"
  else base

def render (prefix_ : String) (c : Conn) : StepOut → String
  | .frames fs =>
    if c.ambiguous then "ambiguous" else
    (if prefix_.isEmpty then "" else prefix_ ++ " ") ++ s!"out={renderFrames fs} ready={ready c}"
  | .dead => if c.ambiguous then "ambiguous" else (if prefix_.isEmpty then "" else prefix_ ++ " ") ++ s!"dead ready={ready c}"
  | .stuck => "stuck"
  | .readRes none => "read none"
  | .readRes (some (e, r)) => if c.ambiguous then "ambiguous" else renderRead e r
  | .readAgain => "read again"

def parseNat? (s : String) : Option Nat := s.toNat?

def parseInt? (s : String) : Option Int := s.toInt?

def parseHdrs (s : String) : Option (List (Bytes × Bytes)) :=
  if s == "-" then some [] else
  (s.splitOn ",").mapM fun kv =>
    match kv.splitOn "=" with
    | [k, v] => do
      let k ← fromHex k
      let v ← fromHex v
      pure (k, v)
    | _ => none

def parseTerm : String → Option Term
  | "eof" => some .eof | "eofw" => some .eofw | "err" => some .err | "zero" => some .zero | _ => none

def parseBody (s : String) : Option BodySpec :=
  match s.splitOn ":" with
  | ["none"] => some .none
  | ["buf", _, n] => do
    let n ← parseNat? n
    pure (if n == 0 then .none else .buf n)
  | ["str", _, d, ch, t] => do
    let d ← parseInt? d
    let t ← parseTerm t
    let ch ← if ch == "-" then some [] else (ch.splitOn ".").mapM parseNat?
    pure (.stream d ch t)
  | _ => none

/-- the client's handshake output: preface, SETTINGS, WINDOW_UPDATE, SETTINGS ack -/
def handshakeOut : String :=
  let st := ",".intercalate (handshakeSettings.map fun (k, v) => s!"{k}={v}")
  s!"PRI;S0:{st};W0:{Gen.c_clientMaxWindow - Gen.c_defaultWindowSize};A0"

/-- `doHandshake` on the server's first frame -/
def handshake (first : Bytes) : Option Conn :=
  match splitFrames 2 first with
  | ([.frame f], []) =>
    match f.body with
    | .settings s =>
      if s.ack then some {}
      else
        let small := s.tableSize ≤ Gen.c_defaultHeaderTableSize
        some { streamWindow := s.windowSize, maxStreams := s.maxStreams, maxFrameSize := s.frameSize
               srvTableSize := s.tableSize
               enc := if small then ({} : Hpack.EncState).setMax s.tableSize else {} }
    | _ => none
  | _ => none

def step (st : State) (args : List String) : State × String :=
  match args with
  | ["cli", id, "new", hex] =>
    match fromHex hex with
    | none => (st, "bad-op")
    | some b =>
      match handshake b with
      | none => ({ id := id, conn := none }, "hs-err")
      | some c => ({ id := id, conn := some c }, s!"hs out={handshakeOut} ready=-")
  | "cli" :: id :: op :: rest =>
    if id != st.id then (st, "bad-op") else
    if st.stalled then (st, "mon") else
    match st.conn with
    | none => (st, "hs-err")
    | some c =>
      let run (ev : Event) (pfx : String := "") : State × String :=
        let (c', out) := Client.step c ev
        ({ st with conn := some c' }, render pfx c' out)
      match op, rest with
      | "req", [tag, method, scheme, host, path, ua, hdrs, body] =>
        match fromHex host, fromHex path, fromHex ua, parseHdrs hdrs, parseBody body with
        | some host, some path, some ua, some hdrs, some body =>
          run (.req { tag := tag, method := strBytes method, scheme := strBytes scheme, host := host, path := path,
                      ua := ua, hdrs := hdrs, body := body })
        | _, _, _, _, _ => (st, "bad-op")
      | "frame", [hex] =>
        match fromHex hex with
        | some b => run (.bytes b)
        | none => (st, "bad-op")
      | "timeout", [tag] => run (.timeout tag)
      | "read", [tag] => run (.read tag)
      | "close", [] => if c.stuck then (st, "stuck") else run .close (if c.dead then "again" else "first")
      | "cut", [] => run .cut
      | "errs", [] => (st, "errs")
      | "stall", _ => if c.stuck then (st, "stuck") else ({ st with stalled := true }, "mon")
      | "failwrite", [n] =>
        if c.stuck then (st, "stuck") else
        match parseNat? n with
        | some n => ({ st with conn := some (Client.step c (.failwrite n)).1 }, "ok")
        | none => (st, "bad-op")
      | "gauges", [] =>
        if c.stuck then (st, "stuck") else
        (st, s!"gauges open={c.openStreams} next={c.nextID} pending={c.pending.length} queued={c.reqQueued.length} can={canOpenStream c}")
      | _, _ => (st, "bad-op")
  | _ => (st, "bad-op")

end H2.Client.Drv
