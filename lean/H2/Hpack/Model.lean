import H2.Base
import H2.Gen.Static
import H2.Gen.Consts
import H2.Huffman.Spec
/-!
# HPACK — executable model of `hpack.go` (decoder `nextField`, encoder `AppendHeader`)

State-passing mirror of the Go code: `DecState` is the decoding `HPACK` value (dynamic table newest
first, current maximum, maximum allowed by SETTINGS), `EncState` the encoding one. Integers are
unbounded `Nat`; where the Go code's `uint64` matters (`readInt`) the model says so explicitly.
-/
namespace H2.Hpack

structure Field where
  name : Bytes
  value : Bytes
  sens : Bool := false
deriving DecidableEq, Repr, Inhabited

def entrySize (e : Bytes × Bytes) : Nat := e.1.length + e.2.length + 32

def tableSize (t : List (Bytes × Bytes)) : Nat := (t.map entrySize).sum

/-- `shrink`: drop oldest entries (the end of a newest-first list) until the table fits -/
def evict : List (Bytes × Bytes) → Nat → List (Bytes × Bytes)
  | [], _ => []
  | e :: t, max =>
    if tableSize (e :: t) ≤ max then e :: t else evict (e :: t).dropLast max
termination_by t => t.length
decreasing_by simp [List.length_dropLast]

/-- `addDynamic` then `shrink` -/
def insert (t : List (Bytes × Bytes)) (e : Bytes × Bytes) (max : Nat) : List (Bytes × Bytes) :=
  evict (e :: t) max

/-- `peek`: 1..61 static, 62.. dynamic newest first -/
def lookup (t : List (Bytes × Bytes)) (i : Nat) : Option (Bytes × Bytes) :=
  if i = 0 then none
  else if i < Gen.maxIndex then Gen.staticTable[i - 1]?
  else t[i - Gen.maxIndex]?

/-! ## prefix integers (RFC 7541 §5.1) -/

inductive IntRes where
  | ok (v : Nat) (rest : Bytes)
  | needMore
  | overflow
deriving Repr, DecidableEq

/-- continuation octets; `i` counts the digits consumed so far, `m` is the saturated prefix value
`2^n - 1`. The Go code accumulates into a `uint64` and fails as soon as a digit would be shifted by 64
or more, would lose bits, or the sum with the prefix no longer fits. -/
def readCont (m : Nat) : Bytes → Nat → Nat → IntRes
  | [], _, _ => .needMore
  | c :: cs, i, acc =>
    if 7 * i ≥ 64 then .overflow
    else
      let acc' := acc + (c % 128) * 2 ^ (7 * i)
      if acc' + m ≥ 2 ^ 64 then .overflow
      else if c < 128 then .ok (acc' + m) cs
      else readCont m cs (i + 1) acc'

def readInt (n : Nat) : Bytes → IntRes
  | [] => .needMore
  | b0 :: rest =>
    let m := 2 ^ n - 1
    if b0 % 2 ^ n ≠ m then .ok (b0 % 2 ^ n) rest
    else readCont m rest 0 0

/-- continuation digits of `v` (already reduced by the prefix maximum) -/
def contBytes (v : Nat) : Bytes :=
  if h : v < 128 then [v] else (128 + v % 128) :: contBytes (v / 128)
decreasing_by omega

/-- `appendInt`: first octet = `flags` (pattern bits above the prefix) + prefix value -/
def writeInt (n : Nat) (flags : Nat) (v : Nat) : Bytes :=
  let m := 2 ^ n - 1
  if v < m then [flags + v] else (flags + m) :: contBytes (v - m)

/-! ## strings (§5.2) -/

inductive StrRes where
  | ok (s : Bytes) (rest : Bytes)
  | needMore
  | err
deriving Repr, DecidableEq

def readString : Bytes → StrRes
  | [] => .needMore
  | b0 :: rest =>
    match readInt 7 (b0 :: rest) with
    | .needMore => .needMore
    | .overflow => .err
    | .ok n r =>
      if r.length < n then .needMore
      else if b0 ≥ 128 then
        match Huffman.decode (r.take n) with
        | some s => .ok s (r.drop n)
        | none => .err
      else .ok (r.take n) (r.drop n)

def writeString (s : Bytes) (huff : Bool) : Bytes :=
  if huff then
    let e := Huffman.encode s
    writeInt 7 128 e.length ++ e
  else writeInt 7 0 s.length ++ s

/-! ## decoder -/

structure DecState where
  dyn : List (Bytes × Bytes) := []
  maxSize : Nat := Gen.c_defaultHeaderTableSize
  limit : Nat := Gen.c_defaultHeaderTableSize
deriving Repr, DecidableEq

inductive DecRes where
  /-- `f = none`: the input ended after dynamic table size updates only (no field decoded) — in Go
  `ErrUnexpectedSize` with no octets handed back -/
  | ok (st : DecState) (f : Option Field) (rest : Bytes)
  /-- `ErrUnexpectedSize` with the octets of an unfinished representation (`Dec.skipUpdates`) -/
  | needMore
  | err
deriving Repr, DecidableEq

/-- name given by index, or literal after a zero index -/
def readName (st : DecState) (n : Nat) (b : Bytes) : Option (Bytes × Bytes) ⊕ Bool :=
  -- result: inl (some (name, rest)) ok | inr true = needMore | inr false = err
  match b with
  | [] => .inr true
  | b0 :: rest =>
    if b0 % 2 ^ n = 0 then
      match readString rest with
      | .ok s r => .inl (some (s, r))
      | .needMore => .inr true
      | .err => .inr false
    else
      match readInt n (b0 :: rest) with
      | .ok i r =>
        match lookup st.dyn i with
        | some e => .inl (some (e.1, r))
        | none => .inr false
      | .needMore => .inr true
      | .overflow => .inr false

def readLiteral (st : DecState) (n : Nat) (b : Bytes) : Option (Bytes × Bytes × Bytes) ⊕ Bool :=
  match readName st n b with
  | .inl (some (name, r)) =>
    match readString r with
    | .ok v r' => .inl (some (name, v, r'))
    | .needMore => .inr true
    | .err => .inr false
  | .inl none => .inr false
  | .inr x => .inr x

/-- `nextField`. `fuel` bounds the `goto loop` after size updates (each consumes ≥ 1 octet). -/
def nextFuel : Nat → DecState → Bool → Nat → Bytes → DecRes
  | 0, _, _, _, _ => .err
  | _, st, _, _, [] => .ok st none []
  | fuel + 1, st, blockStart, fieldsProcessed, c :: rest =>
    if c ≥ 128 then
      match readInt 7 (c :: rest) with
      | .ok i r =>
        match lookup st.dyn i with
        | some e => .ok st (some ⟨e.1, e.2, false⟩) r
        | none => .err
      | .needMore => .needMore
      | .overflow => .err
    else if c ≥ 64 then
      match readLiteral st 6 (c :: rest) with
      | .inl (some (n, v, r)) => .ok { st with dyn := insert st.dyn (n, v) st.maxSize } (some ⟨n, v, false⟩) r
      | .inl none => .err
      | .inr true => .needMore
      | .inr false => .err
    else if c ≥ 32 then
      match readInt 5 (c :: rest) with
      | .ok n r =>
        if !blockStart || fieldsProcessed > 0 then .err
        else if n > st.limit then .err
        else nextFuel fuel { st with maxSize := n, dyn := evict st.dyn n } blockStart fieldsProcessed r
      | .needMore => .needMore
      | .overflow => .err
    else
      match readLiteral st 4 (c :: rest) with
      | .inl (some (n, v, r)) => .ok st (some ⟨n, v, c ≥ 16⟩) r
      | .inl none => .err
      | .inr true => .needMore
      | .inr false => .err

def Dec.next (st : DecState) (blockStart : Bool) (fieldsProcessed : Nat) (b : Bytes) : DecRes :=
  nextFuel (b.length + 1) st blockStart fieldsProcessed b

/-- what a `nextField` call that runs out of octets (`ErrUnexpectedSize`) leaves behind and hands back: the
decoder state — the dynamic table size updates it accepted before that have been applied
(`hp.maxTableSize = n; hp.shrink()`) — and `start`, the octets from the representation it could not finish on,
without those updates -/
def skipFuel : Nat → DecState → Bool → Nat → Bytes → DecState × Bytes
  | 0, st, _, _, b => (st, b)
  | _, st, _, _, [] => (st, [])
  | fuel + 1, st, blockStart, fieldsProcessed, c :: rest =>
    if 32 ≤ c ∧ c < 64 then
      match readInt 5 (c :: rest) with
      | .ok n r =>
        if !blockStart || fieldsProcessed > 0 then (st, c :: rest)
        else if n > st.limit then (st, c :: rest)
        else skipFuel fuel { st with maxSize := n, dyn := evict st.dyn n } blockStart fieldsProcessed r
      | _ => (st, c :: rest)
    else (st, c :: rest)

def Dec.skipUpdates (st : DecState) (blockStart : Bool) (fieldsProcessed : Nat) (b : Bytes) : DecState × Bytes :=
  skipFuel (b.length + 1) st blockStart fieldsProcessed b

/-- SETTINGS_HEADER_TABLE_SIZE applied to a decoder (`SetMaxTableSize` on `dec`; not called by the
server today, which keeps the default 4096 it advertises) -/
def DecState.setLimit (st : DecState) (n : Nat) : DecState :=
  { st with limit := n, maxSize := n, dyn := evict st.dyn n }

/-! ## encoder -/

structure EncState where
  dyn : List (Bytes × Bytes) := []
  maxSize : Nat := Gen.c_defaultHeaderTableSize
  pending : Bool := false
  /-- `pendingMinSize`: smallest size set since the peer was last told (meaningful while `pending`) -/
  minPending : Nat := Gen.c_defaultHeaderTableSize
  disableCompression : Bool := false
  disableDynamic : Bool := false
deriving Repr, DecidableEq

/-- `SetMaxTableSize` -/
def EncState.setMax (st : EncState) (n : Nat) : EncState :=
  if st.maxSize = n then st
  else { st with minPending := if !st.pending || n < st.minPending then n else st.minPending,
                 maxSize := n, pending := true, dyn := evict st.dyn n }

def findIdx (l : List (Bytes × Bytes)) (p : Bytes × Bytes → Bool) : Option Nat :=
  match l.findIdx? p with
  | some i => some i
  | none => none

/-- `search`: dynamic full match first (smallest index wins? the Go loop scans oldest→newest and
stops at the first hit, i.e. the *oldest* matching entry), then static: first full match, else first
name match. Returns (index, fullMatch). -/
def search (st : EncState) (f : Field) : Nat × Bool :=
  -- oldest first scan = last element of the newest-first list backwards
  let n := st.dyn.length
  let rev := st.dyn.reverse
  match rev.findIdx? (fun e => e.1 == f.name && e.2 == f.value) with
  | some j => (Gen.maxIndex + (n - 1 - j), true)      -- j-th oldest ↦ newest-first position n-1-j
  | none =>
    match Gen.staticTable.findIdx? (fun e => e.1 == f.name && e.2 == f.value) with
    | some j => (j + 1, true)
    | none =>
      match Gen.staticTable.findIdx? (fun e => e.1 == f.name) with
      | some j => (j + 1, false)
      | none => (0, false)

/-- `AppendHeader`: returns the new state and the octets appended -/
def Enc.append (st : EncState) (f : Field) (store : Bool) : EncState × Bytes :=
  let pre := if st.pending then
      (if st.minPending < st.maxSize then writeInt 5 32 st.minPending else []) ++ writeInt 5 32 st.maxSize
    else []
  let st := { st with pending := false }
  let huff := !st.disableCompression
  let (idx, full) := search st f
  if f.sens then
    -- never indexed literal, strings raw
    let nm := if idx > 0 then writeInt 4 16 idx else [16] ++ writeString f.name false
    (st, pre ++ nm ++ writeString f.value false)
  else if idx > 0 then
    if full then (st, pre ++ writeInt 7 128 idx)
    else if !store then (st, pre ++ writeInt 4 0 idx ++ writeString f.value huff)
    else
      let st' := if idx < Gen.maxIndex then { st with dyn := insert st.dyn (f.name, f.value) st.maxSize } else st
      (st', pre ++ writeInt 6 64 idx ++ writeString f.value huff)
  else if !store || st.disableDynamic then
    (st, pre ++ [0] ++ writeString f.name huff ++ writeString f.value huff)
  else
    ({ st with dyn := insert st.dyn (f.name, f.value) st.maxSize },
      pre ++ [64] ++ writeString f.name huff ++ writeString f.value huff)

/-! ## header-block reassembly: the HPACK part of `serverConn.handleHeaderFrame`

`prev` is `strm.previousHeaderBytes`: the octets of a field that the previous frame cut short;
`seen` is `strm.fieldSeen`: a field of the block in progress has been decoded (a dynamic table size
update is no longer allowed). -/
namespace Block

structure State where
  dec : DecState := {}
  prev : Bytes := []
  seen : Bool := false
deriving Repr, DecidableEq

inductive Res where
  | ok (st : State) (fields : List Field)
  /-- COMPRESSION_ERROR; the fields decoded before it were already handed on -/
  | err (fields : List Field)
deriving Repr, DecidableEq

/-- the `for len(b) > 0` loop. `Dec.next … = .ok dec' none _` is `nextField` returning `ErrUnexpectedSize`
with no octets: the input ended behind a dynamic table size update, no field is handed on and nothing is
carried over. `.needMore` is `ErrUnexpectedSize` with the octets of the unfinished representation, which
are carried over — without the size updates before them, which have been applied. -/
def loop : Nat → DecState → Bool → Bool → Nat → Bytes → List Field → Res
  | 0, dec, blockStart, _, fp, _, acc => .ok ⟨dec, [], !blockStart || fp > 0⟩ acc
  | fuel + 1, dec, blockStart, endHeaders, fp, b, acc =>
    if b.isEmpty then .ok ⟨dec, [], !blockStart || fp > 0⟩ acc
    else match Dec.next dec blockStart fp b with
      | .ok dec' (some f) rest => loop fuel dec' blockStart endHeaders (fp + 1) rest (acc ++ [f])
      | .ok dec' none _ => .ok ⟨dec', [], !blockStart || fp > 0⟩ acc
      | .needMore =>
        if endHeaders then .err acc
        else .ok ⟨(Dec.skipUpdates dec blockStart fp b).1, (Dec.skipUpdates dec blockStart fp b).2, !blockStart || fp > 0⟩ acc
      | .err => .err acc

/-- one HEADERS (`cont = false`) or CONTINUATION (`cont = true`) payload -/
def feed (st : State) (cont endHeaders : Bool) (payload : Bytes) : Res :=
  let seen := cont && st.seen
  let b := st.prev ++ payload
  loop b.length st.dec (!seen) endHeaders 0 b []

end Block

end H2.Hpack
