import H2.Base
import H2.Hpack.Model
import H2.Hpack.Spec
/-! Line-protocol operations of the Hpack area (driver side); see `harness/hpack.go` for the formats. -/
namespace H2.Hpack.Drv
open H2 H2.Hpack

structure DecCtx where
  st : Block.State := {}
  /-- Spec side of the `frame` operations: decoder state at the start of the current block, octets so far -/
  specStart : DecState := {}
  acc : Bytes := []

structure State where
  decs : List (String × DecCtx) := []
  encs : List (String × EncState) := []
  refs : List (String × DecState) := []

def State.init : State := {}

def put {α} (l : List (String × α)) (k : String) (v : α) : List (String × α) :=
  (k, v) :: l.filter (fun p => p.1 != k)

def get? {α} (l : List (String × α)) (k : String) : Option α := (l.find? (fun p => p.1 == k)).map (·.2)

def tblStr (t : List (Bytes × Bytes)) : String :=
  if t.isEmpty then "-" else ",".intercalate (t.map fun e => toHex e.1 ++ ":" ++ toHex e.2)

def b01 (b : Bool) : String := if b then "1" else "0"

def fieldsStr (fs : List Field) : String :=
  if fs.isEmpty then "-" else ",".intercalate (fs.map fun f => toHex f.name ++ ":" ++ toHex f.value ++ ":" ++ b01 f.sens)

def kv (s key : String) : Option String :=
  if s.startsWith (key ++ "=") then some ((s.drop (key.length + 1)).toString) else none

def kvNat (s key : String) : Option Nat := (kv s key).bind String.toNat?

def kindStr : Spec.Repr → String
  | .indexed _ => "I"
  | .literal .incremental _ _ _ => "L"
  | .literal .without _ _ _ => "W"
  | .literal .never _ _ _ => "N"
  | .sizeUpdate n => "U" ++ toString n

def kindsStr (rs : List Spec.Repr) : String :=
  if rs.isEmpty then "-" else ",".intercalate (rs.map kindStr)

def layoutStr (b : Bytes) : String :=
  let (us, f) := Spec.layout b
  ".".intercalate (us.map toString) ++ "/" ++ toString f

def decResStr : DecRes → String
  | .ok d (some f) rest =>
    s!"ok name={hexOrDash f.name} value={hexOrDash f.value} sens={b01 f.sens} rest={rest.length} tbl={tblStr d.dyn} max={d.maxSize}"
  | .ok d none rest => s!"none rest={rest.length} tbl={tblStr d.dyn} max={d.maxSize}"
  | .needMore => "need-more"
  | .err => "err"

def decStep (st : State) (c : String) (args : List String) : State × String :=
  match args with
  | ["new"] => ({ st with decs := put st.decs c {} }, "ok")
  | rest =>
    match get? st.decs c with
    | none => (st, "bad-op")
    | some cx =>
      match rest with
      | ["limit", n] =>
        match n.toNat? with
        | none => (st, "bad-op")
        | some n =>
          let d := cx.st.dec.setLimit n
          ({ st with decs := put st.decs c { cx with st := { cx.st with dec := d } } },
            s!"ok tbl={tblStr d.dyn} max={d.maxSize} lim={d.limit}")
      | ["field", bs, fp, _ks, h] =>
        match kvNat bs "bs", kvNat fp "fp", fromHex h with
        | some bs, some fp, some b =>
          -- the RFC step is printed too when it differs (it cannot: C03.next_eq_step; this is what the
          -- search uses when that theorem no longer checks, e.g. after a change of the static table)
          let m := Dec.next cx.st.dec (bs == 1) fp b
          let sp := Spec.step cx.st.dec (bs == 1) fp b
          let line := decResStr m ++ (if sp == m then "" else " ;; spec=" ++ decResStr sp)
          match m with
          | .ok d _ _ => ({ st with decs := put st.decs c { cx with st := { cx.st with dec := d } } }, line)
          | _ => ({ st with decs := put st.decs c {} }, line)
        | _, _, _ => (st, "bad-op")
      | ["frame", cont, eh, h] =>
        match kvNat cont "cont", kvNat eh "eh", fromHex h with
        | some cont, some eh, some b =>
          -- Spec side: a HEADERS frame opens a block, decoded as a whole when END_HEADERS arrives
          let (start, acc) := if cont == 0 then (cx.st.dec, b) else (cx.specStart, cx.acc ++ b)
          let spec :=
            if eh == 1 then
              match Spec.decodeBlock start acc with
              | some (d, fs) => s!"spec=ok fields={fieldsStr fs} tbl={tblStr d.dyn} max={d.maxSize} lay={layoutStr acc}"
              | none => "spec=err"
            else "spec=-"
          match Block.feed cx.st (cont == 1) (eh == 1) b with
          | .ok s fs =>
            ({ st with decs := put st.decs c { st := s, specStart := start, acc := acc } },
              s!"ok fields={fieldsStr fs} carry={s.prev.length} tbl={tblStr s.dec.dyn} max={s.dec.maxSize} ;; {spec}")
          | .err fs =>
            ({ st with decs := put st.decs c { st := {}, specStart := start, acc := acc } },
              s!"err fields={fieldsStr fs} ;; {spec}")
        | _, _, _ => (st, "bad-op")
      | _ => (st, "bad-op")

def encStep (st : State) (c : String) (args : List String) : State × String :=
  match args with
  | ["new", dc, dd] =>
    match kvNat dc "dc", kvNat dd "dd" with
    | some dc, some dd =>
      ({ st with encs := put st.encs c { disableCompression := dc == 1, disableDynamic := dd == 1 } }, "ok")
    | _, _ => (st, "bad-op")
  | rest =>
    match get? st.encs c with
    | none => (st, "bad-op")
    | some e =>
      match rest with
      | ["block"] => (st, "ok")
      | ["setmax", n] =>
        match n.toNat? with
        | none => (st, "bad-op")
        | some n =>
          let e' := e.setMax n
          ({ st with encs := put st.encs c e' }, s!"ok tbl={tblStr e'.dyn} max={e'.maxSize} pending={b01 e'.pending}")
      | ["field", store, sens, _pre, n, v] =>
        match kvNat store "store", kvNat sens "sens", fromHex n, fromHex v with
        | some store, some sens, some n, some v =>
          let (e', out) := Enc.append e ⟨n, v, sens == 1⟩ (store == 1)
          ({ st with encs := put st.encs c e' },
            s!"ok {hexOrDash out} tbl={tblStr e'.dyn} max={e'.maxSize} pending={b01 e'.pending}")
        | _, _, _, _ => (st, "bad-op")
      | _ => (st, "bad-op")

/-- reference decoder: the Spec -/
def refStep (st : State) (c : String) (args : List String) : State × String :=
  match args with
  | ["new"] => ({ st with refs := put st.refs c {} }, "ok")
  | rest =>
    match get? st.refs c with
    | none => (st, "bad-op")
    | some d =>
      match rest with
      | ["limit", n] =>
        match n.toNat? with
        | none => (st, "bad-op")
        | some n => ({ st with refs := put st.refs c (Spec.setLimit d n) }, "ok")
      | ["block", h] =>
        match fromHex h with
        | none => (st, "bad-op")
        | some b =>
          match Spec.decodeBlock d b with
          | none => ({ st with refs := put st.refs c {} }, s!"err kinds={kindsStr ((Spec.parseAll b).getD [])}")
          | some (d', fs) =>
            ({ st with refs := put st.refs c d' },
              s!"ok fields={fieldsStr fs} kinds={kindsStr ((Spec.parseAll b).getD [])} tbl={tblStr d'.dyn} max={d'.maxSize}")
      | _ => (st, "bad-op")

def intRes : IntRes → String
  | .ok v r => s!"ok {v} rest={r.length}"
  | .needMore => "need-more"
  | .overflow => "err"

def strRes : StrRes → String
  | .ok s r => s!"ok {hexOrDash s} rest={r.length}"
  | .needMore => "need-more"
  | .err => "err"

/-- `args` is the whole line split on spaces; `args.head!` is the operation name -/
def step (st : State) (args : List String) : State × String :=
  match args with
  | ["hpack.int.dec", n, h] =>
    match n.toNat?, fromHex h with
    | some n, some b => (st, intRes (readInt n b))
    | _, _ => (st, "bad-op")
  | ["hpack.int.enc", n, fl, v] =>
    match n.toNat?, fl.toNat?, v.toNat? with
    | some n, some fl, some v => (st, "ok " ++ hexOrDash (writeInt n fl v))
    | _, _, _ => (st, "bad-op")
  | ["hpack.str.dec", h] =>
    match fromHex h with
    | some b => (st, strRes (readString b))
    | none => (st, "bad-op")
  | ["hpack.str.enc", hf, _dst, h] =>
    match fromHex h with
    | some b => (st, "ok " ++ hexOrDash (writeString b (hf == "1")))
    | none => (st, "bad-op")
  | "hpack.dec" :: c :: rest => decStep st c rest
  | "hpack.enc" :: c :: rest => encStep st c rest
  | "hpack.ref" :: c :: rest => refStep st c rest
  | _ => (st, "bad-op")

end H2.Hpack.Drv
