import H2.Hpack.Model
import H2.Hpack.Rfc
/-!
# HPACK — RFC 7541 specification

To be read against RFC 7541 §2.3 (tables), §4 (table management), §5 (primitive types) and §6
(representations). `Repr` is what an encoder decides to send, `ser` the octets RFC 7541 assigns to it
(`Wire r w`), `apply` its meaning on the decoder's table, `decodeBlock` the meaning of a header block.
The decoder state is the record `DecState` (dynamic table newest first, current maximum size, the
limit last advertised in SETTINGS_HEADER_TABLE_SIZE).
-/
namespace H2.Hpack.Spec
open H2 H2.Hpack

/-! ## §5.1 integers, §5.2 strings -/

/-- the digits after a saturated prefix: `while I >= 128: emit I % 128 + 128; I = I / 128` then `emit I` -/
def digits (v : Nat) : Bytes :=
  if h : v < 128 then [v] else (v % 128 + 128) :: digits (v / 128)
decreasing_by omega

/-- §5.1: `v` on an `N`-bit prefix; `flags` are the pattern bits above the prefix -/
def encInt (N flags v : Nat) : Bytes :=
  if v < 2 ^ N - 1 then [flags + v] else (flags + (2 ^ N - 1)) :: digits (v - (2 ^ N - 1))

/-- §5.2: H bit, length on 7 bits, then the octets (Huffman coded when `huff`) -/
def encStr (s : Bytes) (huff : Bool) : Bytes :=
  if huff then encInt 7 128 (Huffman.encode s).length ++ Huffman.encode s
  else encInt 7 0 s.length ++ s

/-! ## §6 representations -/

inductive Mode where
  | incremental   -- §6.2.1  01xxxxxx
  | without       -- §6.2.2  0000xxxx
  | never         -- §6.2.3  0001xxxx
deriving DecidableEq, Repr

inductive NameRef where
  | idx (i : Nat)                      -- name taken from table entry `i ≥ 1`
  | lit (name : Bytes) (huff : Bool)   -- zero index, then the name as a string
deriving DecidableEq, Repr

inductive Repr where
  | indexed (i : Nat)                                                   -- §6.1  1xxxxxxx
  | literal (mode : Mode) (name : NameRef) (value : Bytes) (vhuff : Bool)
  | sizeUpdate (n : Nat)                                                -- §6.3  001xxxxx
deriving DecidableEq

def Mode.prefixBits : Mode → Nat
  | .incremental => 6
  | _ => 4

def Mode.flags : Mode → Nat
  | .incremental => 64
  | .without => 0
  | .never => 16

def ser : Repr → Bytes
  | .indexed i => encInt 7 128 i
  | .literal m (.idx i) v vh => encInt m.prefixBits m.flags i ++ encStr v vh
  | .literal m (.lit n nh) v vh => encInt m.prefixBits m.flags 0 ++ encStr n nh ++ encStr v vh
  | .sizeUpdate n => encInt 5 32 n

/-- length of a string as sent -/
def strLen (s : Bytes) (huff : Bool) : Nat := if huff then (Huffman.encode s).length else s.length

/-- strings are octets; every integer on the wire is below 2^64 (what this decoder, as any, bounds);
a name reference is a positive index -/
def Repr.WF : Repr → Prop
  | .indexed i => i < 2 ^ 64
  | .literal _ (.idx i) v vh => 0 < i ∧ i < 2 ^ 64 ∧ H2.WF v ∧ strLen v vh < 2 ^ 64
  | .literal _ (.lit n nh) v vh => H2.WF n ∧ H2.WF v ∧ strLen n nh < 2 ^ 64 ∧ strLen v vh < 2 ^ 64
  | .sizeUpdate n => n < 2 ^ 64

/-- `w` is the RFC 7541 encoding of `r` (canonical integers; the Huffman choice is part of `r`) -/
def Wire (r : Repr) (w : Bytes) : Prop := r.WF ∧ w = ser r

/-- integers as a decoder must accept them: any digit string of at most ten octets whose value fits 64
bits (RFC 7541 §5.1 does not forbid leading-zero digits) -/
def IntWire' (N v : Nat) (w : Bytes) : Prop :=
  (∃ f, w = [f] ∧ f % 2 ^ N = v ∧ v < 2 ^ N - 1) ∨
  (∃ f ds, w = f :: ds ∧ f % 2 ^ N = 2 ^ N - 1 ∧ ds ≠ [] ∧ ds.length ≤ 10 ∧
    (∀ d ∈ ds.dropLast, 128 ≤ d) ∧ (∀ d ∈ ds.getLast?, d < 128) ∧
    v = 2 ^ N - 1 + (ds.zipIdx.map fun (d, i) => d % 128 * 2 ^ (7 * i)).sum ∧ v < 2 ^ 64)

/-- strings as a decoder must accept them: length in any accepted integer form, H bit, payload -/
def StrWire' (s : Bytes) (huff : Bool) (w : Bytes) : Prop :=
  ∃ wl payload, w = wl ++ payload ∧ IntWire' 7 payload.length wl ∧ (∀ f ∈ wl.head?, (f ≥ 128) = (huff = true)) ∧
    payload = (if huff then Huffman.encode s else s) ∧ H2.WF s

/-- `w` is an encoding of `r` a decoder must accept (`Wire` with `IntWire'` integers) -/
def Wire' : Repr → Bytes → Prop
  | .indexed i, w => IntWire' 7 i w ∧ ∀ f ∈ w.head?, f ≥ 128
  | .sizeUpdate n, w => IntWire' 5 n w ∧ ∀ f ∈ w.head?, 32 ≤ f ∧ f < 64
  | .literal m (.idx i) v vh, w => ∃ wi wv, w = wi ++ wv ∧ 0 < i ∧ IntWire' m.prefixBits i wi ∧
      (∀ f ∈ wi.head?, f / 2 ^ m.prefixBits * 2 ^ m.prefixBits = m.flags) ∧ StrWire' v vh wv
  | .literal m (.lit n nh) v vh, w => ∃ wn wv, w = m.flags :: (wn ++ wv) ∧ StrWire' n nh wn ∧ StrWire' v vh wv

def WireAll' : List Repr → List Bytes → Prop
  | [], [] => True
  | r :: rs, w :: ws => Wire' r w ∧ WireAll' rs ws
  | _, _ => False

/-! ## §2.3, §4 the tables -/

/-- §2.3.3: 1…61 static, 62… dynamic, newest entry first -/
def lookup (dyn : List (Bytes × Bytes)) (i : Nat) : Option (Bytes × Bytes) :=
  if i = 0 then none
  else if i ≤ Rfc.staticTable.length then Rfc.staticTable[i - 1]?
  else dyn[i - Rfc.staticTable.length - 1]?

/-- §4.3: entries are evicted from the end (oldest) until the size is at most `max` -/
def evict : List (Bytes × Bytes) → Nat → List (Bytes × Bytes)
  | [], _ => []
  | e :: t, max => if tableSize (e :: t) ≤ max then e :: t else evict (e :: t).dropLast max
termination_by t => t.length
decreasing_by simp [List.length_dropLast]

/-- §4.4: the new entry goes to the front, then entries are evicted; one larger than `max` empties the table -/
def insert (dyn : List (Bytes × Bytes)) (e : Bytes × Bytes) (max : Nat) : List (Bytes × Bytes) :=
  evict (e :: dyn) max

/-- meaning of one representation. `fp` = fields already decoded in this block: a size update is
allowed only before the first field (§4.2) and must not exceed the SETTINGS limit (§6.3). -/
def apply (st : DecState) (fp : Nat) : Repr → Option (DecState × Option Field)
  | .indexed i => (lookup st.dyn i).map fun e => (st, some ⟨e.1, e.2, false⟩)
  | .literal m nr v _ =>
    let name : Option Bytes := match nr with
      | .idx i => (lookup st.dyn i).map fun e => e.1
      | .lit n _ => some n
    name.map fun n => match m with
      | .incremental => ({ st with dyn := insert st.dyn (n, v) st.maxSize }, some ⟨n, v, false⟩)
      | .without => (st, some ⟨n, v, false⟩)
      | .never => (st, some ⟨n, v, true⟩)
  | .sizeUpdate n =>
    if fp = 0 ∧ n ≤ st.limit then some ({ st with maxSize := n, dyn := evict st.dyn n }, none) else none

/-! ## executable decoder (the oracle) -/

inductive ParseRes where
  | ok (r : Repr) (rest : Bytes)
  | incomplete
  | invalid
deriving DecidableEq

/-- `valid i`: entry `i` exists in the tables. A literal that names a missing entry is invalid as soon
as its index has been read, whether or not its value has arrived. -/
def parseLiteral (valid : Nat → Bool) (m : Mode) (b : Bytes) : ParseRes :=
  match readInt m.prefixBits b with
  | .needMore => .incomplete
  | .overflow => .invalid
  | .ok i r =>
    if i = 0 then
      match r with
      | [] => .incomplete
      | h :: _ =>
        match readString r with
        | .needMore => .incomplete
        | .err => .invalid
        | .ok n r' =>
          match r' with
          | [] => .incomplete
          | h' :: _ =>
            match readString r' with
            | .needMore => .incomplete
            | .err => .invalid
            | .ok v r'' => .ok (.literal m (.lit n (h ≥ 128)) v (h' ≥ 128)) r''
    else if !valid i then .invalid
    else
      match r with
      | [] => .incomplete
      | h' :: _ =>
        match readString r with
        | .needMore => .incomplete
        | .err => .invalid
        | .ok v r'' => .ok (.literal m (.idx i) v (h' ≥ 128)) r''

def parse (valid : Nat → Bool) : Bytes → ParseRes
  | [] => .incomplete
  | c :: rest =>
    if c ≥ 128 then
      match readInt 7 (c :: rest) with
      | .ok i r => .ok (.indexed i) r
      | .needMore => .incomplete
      | .overflow => .invalid
    else if c ≥ 64 then parseLiteral valid .incremental (c :: rest)
    else if c ≥ 32 then
      match readInt 5 (c :: rest) with
      | .ok n r => .ok (.sizeUpdate n) r
      | .needMore => .incomplete
      | .overflow => .invalid
    else if c ≥ 16 then parseLiteral valid .never (c :: rest)
    else parseLiteral valid .without (c :: rest)

def validIn (st : DecState) (i : Nat) : Bool := (lookup st.dyn i).isSome

/-- one `nextField` worth of specification: size updates are applied and skipped, the first field is
returned. `blockStart = false` (a field of the block was decoded from an earlier frame: `strm.fieldSeen`)
counts as "a field came before". -/
def stepFuel : Nat → DecState → Bool → Nat → Bytes → DecRes
  | 0, _, _, _, _ => .err
  | _, st, _, _, [] => .ok st none []
  | fuel + 1, st, blockStart, fp, c :: cs =>
    match parse (validIn st) (c :: cs) with
    | .incomplete => .needMore
    | .invalid => .err
    | .ok r rest =>
      match apply st (if blockStart then fp else fp + 1) r with
      | none => .err
      | some (st', some f) => .ok st' (some f) rest
      | some (st', none) => stepFuel fuel st' blockStart fp rest

def step (st : DecState) (blockStart : Bool) (fp : Nat) (b : Bytes) : DecRes :=
  stepFuel (b.length + 1) st blockStart fp b

/-- all representations of a block (indices not checked), or `none` when it is malformed or ends inside one -/
def parseAllFuel : Nat → Bytes → Option (List Repr)
  | 0, _ => none
  | _, [] => some []
  | fuel + 1, c :: cs =>
    match parse (fun _ => true) (c :: cs) with
    | .ok r rest => (parseAllFuel fuel rest).map (r :: ·)
    | _ => none

def parseAll (b : Bytes) : Option (List Repr) := parseAllFuel (b.length + 1) b

/-- apply a list of representations in order; fields are numbered from `fp` -/
def applyAll (st : DecState) (fp : Nat) : List Repr → Option (DecState × List Field)
  | [] => some (st, [])
  | r :: rs =>
    match apply st fp r with
    | none => none
    | some (st', some f) => (applyAll st' (fp + 1) rs).map fun (s, fs) => (s, f :: fs)
    | some (st', none) => applyAll st' fp rs

def startsWithUpdate : List Repr → Bool
  | .sizeUpdate _ :: _ => true
  | _ => false

/-- §4.2: after the limit was lowered below the size in use the next block must open with a size update -/
def ValidBlock (st : DecState) (rs : List Repr) : Prop :=
  (st.maxSize > st.limit → startsWithUpdate rs = true) ∧ (applyAll st 0 rs).isSome

def startsWithUpdateOctet : Bytes → Bool
  | c :: _ => 32 ≤ c && c < 64
  | [] => false

def blockFuel : Nat → DecState → Nat → Bytes → Option (DecState × List Field)
  | 0, _, _, _ => none
  | _, st, _, [] => some (st, [])
  | fuel + 1, st, fp, c :: cs =>
    match step st true fp (c :: cs) with
    | .ok st' (some f) rest => (blockFuel fuel st' (fp + 1) rest).map fun (s, fs) => (s, f :: fs)
    | .ok st' none _ => some (st', [])
    | _ => none

/-- a whole header block: every octet must belong to a complete, valid representation -/
def decodeBlock (st : DecState) (b : Bytes) : Option (DecState × List Field) :=
  if st.maxSize > st.limit && !startsWithUpdateOctet b then none else blockFuel (b.length + 1) st 0 b

/-- SETTINGS_HEADER_TABLE_SIZE as the specification sees it: only the limit moves; the encoder has to
follow with a size update (`ValidBlock`) -/
def setLimit (st : DecState) (n : Nat) : DecState := { st with limit := n }

/-- history of a connection: header blocks and limit changes -/
inductive Event where
  | block (rs : List Repr)
  | limit (n : Nat)

def applyHistory (st : DecState) : List Event → Option (DecState × List (List Field))
  | [] => some (st, [])
  | .limit n :: es => applyHistory (setLimit st n) es
  | .block rs :: es =>
    if st.maxSize > st.limit && !startsWithUpdate rs then none else
    match applyAll st 0 rs with
    | none => none
    | some (st', fs) => (applyHistory st' es).map fun (s, fss) => (s, fs :: fss)

/-! layout of a block, for the known-finding classes: end offsets of the leading size updates and of the
first field -/
def layoutFuel : Nat → Bytes → Nat → List Nat × Nat
  | 0, _, off => ([], off)
  | _, [], off => ([], off)
  | fuel + 1, c :: cs, off =>
    match parse (fun _ => true) (c :: cs) with
    | .ok (.sizeUpdate _) rest =>
      let e := off + ((c :: cs).length - rest.length)
      let (us, f) := layoutFuel fuel rest e
      (e :: us, f)
    | .ok _ rest => ([], off + ((c :: cs).length - rest.length))
    | _ => ([], off + (c :: cs).length)

def layout (b : Bytes) : List Nat × Nat := layoutFuel (b.length + 1) b 0

end H2.Hpack.Spec
