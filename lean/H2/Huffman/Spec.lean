import H2.Base
import H2.Gen.Huffman
/-!
# Huffman coding, RFC 7541 §5.2 / Appendix B — executable specification and model

The code table is *not* restated here: it is `H2.Gen.huffCodes`/`huffLens`, regenerated from
`huffman.go` on every run. `decode` walks the binary trie built from that table bit by bit and
accepts iff what is left after the last complete code is fewer than 8 bits, all ones.
-/
namespace H2.Huffman

inductive Tree where
  | empty : Tree
  | leaf : Nat → Tree
  | node : Tree → Tree → Tree
deriving Repr, DecidableEq

def Tree.insert : Tree → List Bool → Nat → Tree
  | _, [], s => .leaf s
  | .empty, b :: bs, s => if b then .node .empty (Tree.insert .empty bs s) else .node (Tree.insert .empty bs s) .empty
  | .leaf x, _ :: _, _ => .leaf x
  | .node l r, b :: bs, s => if b then .node l (Tree.insert r bs s) else .node (Tree.insert l bs s) r

/-- the code of symbol `s`, most significant bit first -/
def code (s : Nat) : List Bool := bitsOf (Gen.huffCodes.getD s 0) (Gen.huffLens.getD s 0)

def table : List (Nat × List Bool) := (List.range 256).map fun i => (i, code i)

def trie : Tree := table.foldl (fun t (s, bs) => t.insert bs s) .empty

def Tree.child : Tree → Bool → Tree
  | .node l r, b => if b then r else l
  | _, _ => .empty

def Tree.isNode : Tree → Bool
  | .node _ _ => true
  | _ => false

def Tree.descend : Tree → List Bool → Tree
  | t, [] => t
  | t, b :: bs => (t.child b).descend bs

/-- first leaf reached from `t` along the bits, with the rest -/
def Tree.walk : Tree → List Bool → Option (Nat × List Bool)
  | .leaf s, rest => some (s, rest)
  | .empty, _ => none
  | .node _ _, [] => none
  | .node l r, b :: bs => if b then Tree.walk r bs else Tree.walk l bs

def Tree.leaves : Tree → List Bool → List (Nat × List Bool)
  | .empty, _ => []
  | .leaf s, p => [(s, p.reverse)]
  | .node l r, p => Tree.leaves l (false :: p) ++ Tree.leaves r (true :: p)

/-- bit-level decoder: `cur` position, `pend` bits since last symbol, `ones` they were all 1 -/
def decGo (root : Tree) : Tree → Nat → Bool → List Bool → List Nat → Option (List Nat)
  | _, pend, ones, [], acc => if pend < 8 && ones then some acc.reverse else none
  | cur, pend, ones, b :: bs, acc =>
    match cur.child b with
    | .leaf s => decGo root root 0 true bs (s :: acc)
    | .empty => none
    | .node l r => decGo root (.node l r) (pend + 1) (ones && b) bs acc

def encBits (s : List Nat) : List Bool := s.flatMap code

/-- number of one-bits needed to reach an octet boundary -/
def padLen (n : Nat) : Nat := (8 - n % 8) % 8

/-- RFC 7541 §5.2: codes, then the most significant bits of EOS (all ones) up to the octet boundary -/
def encode (s : Bytes) : Bytes :=
  let bits := encBits s
  pack (bits ++ List.replicate (padLen bits.length) true)

/-- strict decoder: `none` on any input RFC 7541 §5.2 makes a decoding error -/
def decode (b : Bytes) : Option Bytes := decGo trie trie 0 true (unpack b) []

end H2.Huffman
