import H2.Huffman.Spec
/-!
RFC 7541 Appendix B data, transcribed once and frozen here (not regenerated): the 256 code lengths.
The HPACK code is a canonical Huffman code: symbols sorted by (length, symbol) receive consecutive
code values. So the only transcribed data are the lengths; `canonical` recomputes the code values.
-/
namespace H2.Huffman

def rfcLens : List Nat := [13, 23, 28, 28, 28, 28, 28, 28, 28, 24, 30, 28, 28, 30, 28, 28, 28, 28, 28, 28, 28, 28, 30, 28, 28, 28, 28, 28, 28, 28, 28, 28, 6, 10, 10, 12, 13, 6, 8, 11, 10, 10, 8, 11, 8, 6, 6, 6, 5, 5, 5, 6, 6, 6, 6, 6, 6, 6, 7, 8, 15, 6, 12, 10, 13, 6, 7, 7, 7, 7, 7, 7, 7, 7, 7, 7, 7, 7, 7, 7, 7, 7, 7, 7, 7, 7, 7, 7, 8, 7, 8, 13, 19, 13, 14, 6, 15, 5, 6, 5, 6, 5, 6, 6, 6, 5, 7, 7, 6, 6, 6, 5, 6, 7, 6, 5, 5, 6, 7, 7, 7, 7, 7, 15, 11, 14, 13, 28, 20, 22, 20, 20, 22, 22, 22, 23, 22, 23, 23, 23, 23, 23, 24, 23, 24, 24, 22, 23, 24, 23, 23, 23, 23, 21, 22, 23, 22, 23, 23, 24, 22, 21, 20, 22, 22, 23, 23, 21, 23, 22, 22, 24, 21, 22, 23, 23, 21, 21, 22, 21, 23, 22, 23, 23, 20, 22, 22, 22, 23, 22, 22, 23, 26, 26, 20, 19, 22, 23, 22, 25, 26, 26, 26, 27, 27, 26, 24, 25, 19, 21, 26, 27, 27, 26, 27, 24, 21, 21, 26, 26, 28, 27, 27, 27, 20, 24, 20, 21, 22, 21, 21, 23, 22, 22, 25, 25, 24, 24, 26, 23, 26, 27, 26, 26, 27, 27, 27, 27, 27, 28, 27, 27, 27, 27, 27, 26]

/-- EOS has length 30 and sorts last among the 30-bit codes (symbol 256). -/
def rfcLensWithEos : List Nat := rfcLens ++ [30]

/-- canonical assignment: go through lengths 1..30; within a length, symbols in increasing order. -/
def canonicalGo (lens : List Nat) : Nat → Nat → Nat → List (Nat × Nat) → List (Nat × Nat)
  | 0, _, _, acc => acc
  | fuel + 1, len, next, acc =>
    let syms := (List.range lens.length).filter fun s => lens.getD s 0 == len
    let acc' := acc ++ (syms.zipIdx).map fun (s, i) => (s, next + i)
    canonicalGo lens fuel (len + 1) ((next + syms.length) * 2) acc'

/-- (symbol, code value) pairs of the canonical code with the given lengths -/
def canonical (lens : List Nat) : List (Nat × Nat) := canonicalGo lens 30 1 0 []

def canonicalCodeOf (lens : List Nat) (s : Nat) : Nat :=
  match (canonical lens).find? (fun p => p.1 == s) with
  | some p => p.2
  | none => 0

end H2.Huffman
