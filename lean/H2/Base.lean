/-! Shared basics: byte strings as `List Nat`, bit lists, hex, big-endian fields. Core Lean only. -/
namespace H2

abbrev Bytes := List Nat

/-- every element is an octet -/
def WF (b : Bytes) : Prop := ∀ x ∈ b, x < 256

instance (b : Bytes) : Decidable (WF b) := by unfold WF; exact inferInstance

/-- big-endian bits of `v`, `n` of them -/
def bitsOf (v n : Nat) : List Bool :=
  (List.range n).map fun i => (v >>> (n - 1 - i)) % 2 == 1

/-- value of a big-endian bit list -/
def natOfBits : List Bool → Nat
  | bs => bs.foldl (fun acc b => 2 * acc + (if b then 1 else 0)) 0

/-- bytes → bits, 8 per octet, most significant first -/
def unpack (b : Bytes) : List Bool := b.flatMap fun x => bitsOf x 8

/-- bits → bytes; the input length must be a multiple of 8 for a faithful result (a short tail is dropped) -/
def pack : List Bool → Bytes
  | b0 :: b1 :: b2 :: b3 :: b4 :: b5 :: b6 :: b7 :: rest =>
      natOfBits [b0, b1, b2, b3, b4, b5, b6, b7] :: pack rest
  | _ => []

def hexDigit (n : Nat) : Char :=
  if n < 10 then Char.ofNat (48 + n) else Char.ofNat (87 + n)

def toHex (b : Bytes) : String :=
  String.ofList (b.flatMap fun x => [hexDigit (x / 16 % 16), hexDigit (x % 16)])

def hexVal (c : Char) : Option Nat :=
  if '0' ≤ c ∧ c ≤ '9' then some (c.toNat - 48)
  else if 'a' ≤ c ∧ c ≤ 'f' then some (c.toNat - 87)
  else if 'A' ≤ c ∧ c ≤ 'F' then some (c.toNat - 55)
  else none

def fromHexChars : List Char → Option Bytes
  | [] => some []
  | a :: b :: rest => do
      let x ← hexVal a
      let y ← hexVal b
      let r ← fromHexChars rest
      pure ((16 * x + y) :: r)
  | _ => none

/-- `-` stands for the empty string so that every field of a line is non-empty -/
def fromHex (s : String) : Option Bytes :=
  if s == "-" then some [] else fromHexChars s.toList

def hexOrDash (b : Bytes) : String := if b.isEmpty then "-" else toHex b

def be16 (b : Bytes) : Nat := b.getD 0 0 * 256 + b.getD 1 0
def be24 (b : Bytes) : Nat := b.getD 0 0 * 65536 + b.getD 1 0 * 256 + b.getD 2 0
def be32 (b : Bytes) : Nat := b.getD 0 0 * 16777216 + b.getD 1 0 * 65536 + b.getD 2 0 * 256 + b.getD 3 0

def toBe16 (n : Nat) : Bytes := [n / 256 % 256, n % 256]
def toBe24 (n : Nat) : Bytes := [n / 65536 % 256, n / 256 % 256, n % 256]
def toBe32 (n : Nat) : Bytes := [n / 16777216 % 256, n / 65536 % 256, n / 256 % 256, n % 256]

def strBytes (s : String) : Bytes := s.toUTF8.toList.map (·.toNat)

end H2
